#!/usr/bin/env python3
"""Replaces the generated seeded-change table in DESIGN.md 8.6 with the output of tools/seeded_table.py."""
import os, subprocess, sys
ROOT = os.path.dirname(os.path.dirname(os.path.abspath(__file__)))
p = os.path.join(ROOT, "DESIGN.md")
lines = open(p).read().split("\n")
start = next(i for i, ln in enumerate(lines) if ln.startswith("| seeded change | file(s) |"))
end = start
while end < len(lines) and lines[end].startswith("|"):
    end += 1
table = subprocess.run([sys.executable, os.path.join(ROOT, "tools", "seeded_table.py")], capture_output=True, text=True, check=True).stdout.rstrip("\n").split("\n")
lines[start:end] = table
open(p, "w").write("\n".join(lines))
print("rows", len(table) - 2)
