#!/bin/sh
# Runs the pinned test suite of /repo with the hook guard OFF and compares with BASELINE.json stable_pass.
unset XDSL_VERIF
OUT=$(mktemp -d)
cd /repo && /venv/bin/python -m pytest -q -p no:cacheprovider --timeout=900 --continue-on-collection-errors --junitxml=$OUT/j.xml >$OUT/log 2>&1
tail -3 $OUT/log
/venv/bin/python - "$OUT/j.xml" <<'PY'
import json, sys, xml.etree.ElementTree as ET
base = set(json.load(open('/root/.vp/BASELINE.json'))['stable_pass'])
passed=set(); failed=set()
for tc in ET.parse(sys.argv[1]).getroot().iter('testcase'):
    tid=(tc.get('classname') or '')+'::'+(tc.get('name') or '')
    if tc.find('failure') is not None or tc.find('error') is not None: failed.add(tid)
    elif tc.find('skipped') is None: passed.add(tid)
passed-=failed
missing = base-passed
print(f"baseline stable={len(base)} passed_now={len(passed)} failed_now={len(failed)} stable_missing={len(missing)}")
for m in sorted(missing)[:30]: print("  MISSING", m)
sys.exit(1 if missing else 0)
PY
rc=$?
rm -rf $OUT
exit $rc
