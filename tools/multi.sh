#!/bin/sh
# usage: tools/multi.sh <check> <tier> <seed>...
C="$1"; T="$2"; shift 2
cd "$(dirname "$0")/.." || exit 2
for S in "$@"; do
  OUT=$(VERIF_SEED=$S ./check $C --tier $T 2>&1); RC=$?
  echo "seed=$S $C $T rc=$RC $(echo "$OUT" | grep -E '^\[C' | sed 's/.*evaluations/evaluations/')"
  [ $RC -ne 0 ] && echo "$OUT" | grep -E "^(VIOLATION|INCONCLUSIVE)|key=" | cut -c1-400 | head -12
done
