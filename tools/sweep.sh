#!/bin/sh
# usage: tools/sweep.sh <tier> <seed>... ; runs every accepted check for every seed, prints one verdict line each
TIER="$1"; shift
cd "$(dirname "$0")/.." || exit 2
for S in "$@"; do
  for C in ${CHECKS:-$(/venv/bin/python -c "import json;print(' '.join(json.load(open('tools/accepted.json'))))")}; do
    OUT=$(VERIF_SEED=$S ./check $C --tier $TIER 2>&1); RC=$?
    echo "seed=$S $C rc=$RC $(echo "$OUT" | grep -E '^\[C' | sed 's/.*wall=/wall=/')"
    [ $RC -ne 0 ] && echo "$OUT" | grep -E "^(VIOLATION|INCONCLUSIVE)|key=" | cut -c1-300 | head -8
  done
done
