#!/usr/bin/env python3
"""Re-run the check(s) against an already confirmed seeded change and update seeded/<id>/meta.json.

usage: tools/seeded_recheck.py <seeded-id> [--checks C01,C02] [--tier quick]
The first verdicts are kept under "first_evaluation" (once); "checks"/"caught_by" are replaced (merged per check).
"""
import json, os, shutil, subprocess, sys, tempfile
ROOT = os.path.dirname(os.path.dirname(os.path.abspath(__file__)))
a = sys.argv[1:]
sid = a[0]
d = os.path.join(ROOT, "seeded", sid)
meta = json.load(open(os.path.join(d, "meta.json")))
checks = a[a.index("--checks") + 1].split(",") if "--checks" in a else list(meta.get("checks", {})) or [meta["property"]]
tier = a[a.index("--tier") + 1] if "--tier" in a else "quick"
wt = tempfile.mkdtemp(prefix=f"wt-re-{sid}-"); os.rmdir(wt)
subprocess.run(["git", "-C", "/repo", "worktree", "add", "--detach", wt, "HEAD", "-q"], check=True)
try:
    subprocess.run(["git", "-C", wt, "apply", os.path.join(d, "patch.diff")], check=True)
    meta.setdefault("first_evaluation", {"checks": meta.get("checks", {}), "caught_by": meta.get("caught_by", [])})
    res = dict(meta.get("checks", {}))
    for c in checks:
        rc = subprocess.run(["./check", c, "--tier", tier], cwd=ROOT, env=dict(os.environ, XV_REPO=wt, XV_PYPATH=wt),
                            capture_output=True, text=True, timeout=7200)
        lines = [ln for ln in rc.stdout.splitlines() if ln.startswith(("VIOLATION", "HELD", "INCONCLUSIVE")) or ln.strip().startswith("key=")]
        res[c] = {"rc": rc.returncode, "tier": tier, "lines": [ln[:300] for ln in lines[:8]]}
        print(sid, c, "rc=", rc.returncode, *[ln[:160] for ln in lines[:4]], sep="\n  ")
    meta["checks"] = res
    meta["caught_by"] = sorted(c for c, v in res.items() if v["rc"] == 1)
    meta["rechecked_at_repo_head"] = subprocess.run(["git", "-C", "/repo", "rev-parse", "--short", "HEAD"], capture_output=True, text=True).stdout.strip()
    json.dump(meta, open(os.path.join(d, "meta.json"), "w"), indent=1)
finally:
    subprocess.run(["git", "-C", "/repo", "worktree", "remove", "--force", wt])
    shutil.rmtree(wt, ignore_errors=True)
