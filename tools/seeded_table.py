#!/usr/bin/env python3
"""Prints the markdown table of confirmed seeded changes (seeded/*/meta.json) for DESIGN.md 8.6."""
import glob, json, os, re
ROOT = os.path.dirname(os.path.dirname(os.path.abspath(__file__)))
rows = []
for f in sorted(glob.glob(os.path.join(ROOT, "seeded", "*", "meta.json"))):
    m = json.load(open(f))
    d = os.path.dirname(f)
    files = sorted(set(re.findall(r"^\+\+\+ b/(\S+)", open(os.path.join(d, "patch.diff")).read(), re.M)))
    note = m.get("needs_to_manifest", "")
    first = next((ln.strip("#* -").strip() for ln in note.splitlines() if ln.strip() and not ln.startswith("#")), "")
    caught = ", ".join(m.get("caught_by", [])) or "MISSED (quick)"
    keys = []
    for c, v in m.get("checks", {}).items():
        keys += [re.sub(r"\s*count=.*", "", ln.strip()[4:])[:70] for ln in v.get("lines", []) if ln.strip().startswith("key=")][:2]
    rows.append(f"| {os.path.basename(d)} | {', '.join(os.path.basename(x) for x in files)} | {first[:140]} | {caught} | {'; '.join(keys)[:150]} |")
print("| seeded change | file(s) | what it is / what it needs to manifest | caught by | first keys reported |\n|---|---|---|---|---|")
print("\n".join(rows))
