#!/usr/bin/env python3
"""Confirm and evaluate one seeded change produced by an independent sub-agent.

usage: tools/seeded_eval.py <PID> <VARIANT> [--src DIR] [--tier quick] [--skip-tests] [--checks C01,C17]

Reads <src>/<PID>/<VARIANT>/{patch.diff,demo.py,notes.md} (default src /tmp/seeded-out), and in a scratch
worktree of /repo HEAD (outside /repo and /verif, removed afterwards):
  1. demo.py on the unchanged tree must exit 0;
  2. the patch must apply; demo.py on the changed tree must exit non-zero;
  3. the pinned test suite on the changed tree must still pass (stable set of /root/.vp/BASELINE.json);
  4. the check(s) of the property are run against the changed tree (XV_PYPATH override) and the verdict is
     recorded.
If 1-3 hold the change is kept as /verif/seeded/<PID>-<VARIANT>/ (patch.diff, demo.py, notes.md, meta.json).
"""
import json
import os
import shutil
import subprocess
import sys
import tempfile
import xml.etree.ElementTree as ET

ROOT = os.path.dirname(os.path.dirname(os.path.abspath(__file__)))
PY = "/venv/bin/python"


def sh(cmd, **kw):
    return subprocess.run(cmd, capture_output=True, text=True, **kw)


def run_tests(wt):
    out = tempfile.mkdtemp(prefix="seedtest-")
    env = dict(os.environ, PYTHONPATH=wt)
    env.pop("XDSL_VERIF", None)
    sh([PY, "-m", "pytest", "-q", "-p", "no:cacheprovider", "--timeout=900", "--continue-on-collection-errors",
        f"--junitxml={out}/j.xml"], cwd=wt, env=env)
    base = set(json.load(open("/root/.vp/BASELINE.json"))["stable_pass"])
    passed, failed = set(), set()
    try:
        for tc in ET.parse(f"{out}/j.xml").getroot().iter("testcase"):
            tid = (tc.get("classname") or "") + "::" + (tc.get("name") or "")
            if tc.find("failure") is not None or tc.find("error") is not None:
                failed.add(tid)
            elif tc.find("skipped") is None:
                passed.add(tid)
    finally:
        shutil.rmtree(out, ignore_errors=True)
    passed -= failed
    return sorted(base - passed)


def main():
    a = sys.argv[1:]
    pid, var = a[0], a[1]
    src = a[a.index("--src") + 1] if "--src" in a else "/tmp/seeded-out"
    tier = a[a.index("--tier") + 1] if "--tier" in a else "quick"
    checks = a[a.index("--checks") + 1].split(",") if "--checks" in a else [pid]
    tag = a[a.index("--tag") + 1] if "--tag" in a else ""   # e.g. "R2" for the second seeding round
    d = os.path.join(src, pid, var)
    meta = {"property": pid, "variant": (a[a.index("--tag") + 1] if "--tag" in a else "") + var, "repo_head": sh(["git", "-C", "/repo", "rev-parse", "--short", "HEAD"]).stdout.strip()}
    wt = tempfile.mkdtemp(prefix=f"wt-seed-{pid}{var}-")
    os.rmdir(wt)
    r = sh(["git", "-C", "/repo", "worktree", "add", "--detach", wt, "HEAD", "-q"])
    if r.returncode:
        sys.exit("worktree: " + r.stderr)
    try:
        env = dict(os.environ, PYTHONPATH=wt)
        # tests that are in the stable set but do not pass in ANY scratch worktree (path-dependent tests):
        # measured once per /repo HEAD on the unchanged worktree and cached
        cache = os.path.join(ROOT, ".work", "wt_baseline_missing.json")
        os.makedirs(os.path.dirname(cache), exist_ok=True)
        known = json.load(open(cache)) if os.path.exists(cache) else {}
        if "--skip-tests" not in a and meta["repo_head"] not in known:
            known[meta["repo_head"]] = run_tests(wt)
            json.dump(known, open(cache, "w"))
        wt_missing = set(known.get(meta["repo_head"], []))
        r0 = sh([PY, os.path.join(d, "demo.py")], env=env, cwd=d, timeout=900)
        meta["demo_unchanged_rc"] = r0.returncode
        ap = sh(["git", "-C", wt, "apply", os.path.join(d, "patch.diff")])
        meta["patch_applies"] = ap.returncode == 0
        if ap.returncode:
            meta["patch_error"] = ap.stderr[-500:]
        else:
            r1 = sh([PY, os.path.join(d, "demo.py")], env=env, cwd=d, timeout=900)
            meta["demo_changed_rc"] = r1.returncode
            meta["demo_changed_output"] = (r1.stdout + r1.stderr)[-600:]
            if "--skip-tests" not in a:
                missing = [t for t in run_tests(wt) if t not in wt_missing]
                meta["pinned_suite_stable_missing"] = missing[:20]
                meta["worktree_only_missing_on_unchanged_tree"] = len(wt_missing)
            results = {}
            for c in checks:
                env2 = dict(os.environ, XV_REPO=wt, XV_PYPATH=wt)
                rc = sh(["./check", c, "--tier", tier], cwd=ROOT, env=env2, timeout=7200)
                lines = [ln for ln in rc.stdout.splitlines() if ln.startswith(("VIOLATION", "HELD", "INCONCLUSIVE")) or ln.strip().startswith("key=")]
                results[c] = {"rc": rc.returncode, "tier": tier, "lines": [ln[:300] for ln in lines[:8]]}
            meta["checks"] = results
    finally:
        sh(["git", "-C", "/repo", "worktree", "remove", "--force", wt])
        shutil.rmtree(wt, ignore_errors=True)
    ok = (meta.get("demo_unchanged_rc") == 0 and meta.get("patch_applies") and meta.get("demo_changed_rc", 0) != 0
          and not meta.get("pinned_suite_stable_missing"))
    meta["confirmed"] = bool(ok)
    meta["caught_by"] = sorted(c for c, v in meta.get("checks", {}).items() if v["rc"] == 1)
    try:
        notes = open(os.path.join(d, "notes.md")).read()
    except OSError:
        notes = ""
    meta["needs_to_manifest"] = notes[:1500]
    print(json.dumps({k: v for k, v in meta.items() if k != "needs_to_manifest"}, indent=1))
    if ok:
        dst = os.path.join(ROOT, "seeded", f"{pid}-{tag}{var}")
        os.makedirs(dst, exist_ok=True)
        for f in ("patch.diff", "demo.py", "notes.md"):
            if os.path.exists(os.path.join(d, f)):
                shutil.copy(os.path.join(d, f), os.path.join(dst, f))
        json.dump(meta, open(os.path.join(dst, "meta.json"), "w"), indent=1)


if __name__ == "__main__":
    main()
