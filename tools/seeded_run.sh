#!/bin/sh
# usage: tools/seeded_run.sh <seeded-id> [tier] [extra check ids...]
# Applies /verif/seeded/<id>/patch.diff to a scratch worktree of /repo (outside /repo and /verif), runs the
# check(s) of the property named in meta.json against it (XV_PYPATH override), prints the verdict lines and
# removes the worktree. Evidence/replays of these runs go to /verif/.work (never the committed evidence).
set -u
ID="$1"; TIER="${2:-quick}"; shift; [ $# -gt 0 ] && shift
D=/verif/seeded/$ID
WT=$(mktemp -d /tmp/wt-seed-XXXXXX); rmdir "$WT"
git -C /repo worktree add --detach "$WT" HEAD -q || exit 2
trap 'git -C /repo worktree remove --force "$WT" >/dev/null 2>&1; rm -rf "$WT"' EXIT
git -C "$WT" apply "$D/patch.diff" || { echo "patch does not apply"; exit 2; }
PROPS="$*"
[ -z "$PROPS" ] && PROPS=$(/venv/bin/python -c "import json,sys; m=json.load(open('$D/meta.json')); p=m['property']; print(' '.join(p) if isinstance(p,list) else p)")
rc=0
for P in $PROPS; do
  echo "== $ID vs $P ($TIER)"
  (cd /verif && XV_REPO="$WT" XV_PYPATH="$WT" ./check "$P" --tier "$TIER" 2>&1 | grep -E "^(VIOLATION|HELD|INCONCLUSIVE|KNOWN-FINDING|\[C)|key=" | head -12)
done
