#!/usr/bin/env python3
"""Regenerates MANIFEST.json from the metadata constants of the check modules under xv/checks."""
import ast, json, os, subprocess, sys
ROOT = os.path.dirname(os.path.dirname(os.path.abspath(__file__)))
props = [json.loads(l) for l in open(os.path.join(ROOT, "properties.jsonl"))]

def consts(path):
    out = {}
    tree = ast.parse(open(path).read())
    for node in tree.body:
        if isinstance(node, ast.Assign) and len(node.targets) == 1 and isinstance(node.targets[0], ast.Name):
            try:
                out[node.targets[0].id] = ast.literal_eval(node.value)
            except Exception:
                pass
    return out

ACCEPTED = set(json.load(open(os.path.join(ROOT, "tools", "accepted.json"))))
PENDING = {}
checks, na, engines = [], [], {}
for p in props:
    pid = p["id"]
    path = os.path.join(ROOT, "xv", "checks", pid.lower() + ".py")
    if not os.path.exists(path) or pid not in ACCEPTED:
        na.append({"property_id": pid, "reason": PENDING.get(pid, "check not yet accepted: under construction / self-test in this session (runtime monitoring applies; see DESIGN.md section 3)")})
        continue
    c = consts(path)
    chk = {
        "property_id": pid,
        "quick_cmd": f"./check {pid} --tier quick",
        "thorough_cmd": f"./check {pid} --tier thorough",
        "evidence_file": f"/verif/evidence/{pid}.json",
        "replay_cmd_template": f"./check {pid} --replay {{path}}",
        "engine": c.get("ENGINE", "xv"),
        "level_claimed": {"category": c.get("LEVEL", "exploration"), "text": c.get("LEVEL_TEXT", c.get("RULE", "")),
                          "design_ref": f"DESIGN.md section 3, {pid}"},
        "level_note": c.get("LEVEL_NOTE", "; ".join(c.get("ASSUMPTIONS", []))),
        "technique": c.get("TECHNIQUE", "runtime monitoring: reference-model oracle over generated executions"),
    }
    checks.append(chk)
    for e in c.get("ENGINES", []):
        engines.setdefault(e, []).append(pid)
ENGINE_DESC = {
    "harness": ("xv/harness.py", "sharded killable workers, three-valued verdict, known-findings matching, evidence writer"),
    "canon": ("xv/canon.py", "independent canonical form of attributes and IR (no Attribute.__eq__, no printer)"),
    "irsan": ("xv/irsan.py", "IR sanitizer: whole-forest invariant walker over raw link fields and use lists"),
    "refsem": ("xv/refsem.py", "reference semantics (bit-level ints, IEEE floats, poison/UB tracking, effect log)"),
    "corpus": ("xv/corpus.py", "harvest of the repository's .mlir corpus"),
    "models": ("xv/checks", "small executable reference models compared call by call"),
    "rvsim": ("xv/rvsim.py", "independent RISC-V instruction-level model over emitted assembly"),
    "regmachine": ("xv/regmachine.py", "executor of register-allocated IR in SSA and register mode"),
    "x86run": ("xv/x86run.py", "native execution harness (gcc + register-snapshotting trampoline)"),
    "trace": ("xv/trace.py", "sys.monitoring reach counters, exception-site classifier, CPU accounting"),
}
commits = []
try:
    log = subprocess.run(["git", "-C", "/repo", "log", "--format=%h %s"], capture_output=True, text=True).stdout.splitlines()
    commits = [l.split()[0] for l in log if l.split(" ", 1)[1].startswith("hook:")]
except Exception:
    pass
man = {
    "version": 1,
    "setup_cmd": "/venv/bin/python -m pip install -q --no-index --find-links /opt/veriftools/wheels --target /verif/.deps icontract jsonschema deal && /venv/bin/python -m compileall -q /verif/xv >/dev/null; true",
    "hooks": {
        "guard": "XDSL_VERIF",
        "enable": "no source hooks in /repo: the harness sets XDSL_VERIF=1 in its worker processes and only then wraps class attributes / substitutes worklists / uses sys.monitoring from outside; checks import /repo's working tree directly (editable install), so there is no build step",
        "baseline_off_cmd": "cd /repo && env -u XDSL_VERIF /venv/bin/python -m pytest -ra -q -p no:cacheprovider --timeout=900 --continue-on-collection-errors",
        "source_commits": commits,
        "add_only": True,
    },
    "engines": [{"name": n, "path": ENGINE_DESC[n][0], "serves_properties": sorted(set(ps)), "kind_free_text": ENGINE_DESC[n][1]}
                for n, ps in sorted(engines.items()) if n in ENGINE_DESC],
    "checks": checks,
    "notes": "All checks are runtime monitors (oracles observing executions of the real code). Exit 0 held / 1 violation (VIOLATION line) / 2 inconclusive. Genuine defects repaired by 'fix:' commits in /repo or listed in /verif/known_findings.json (see DESIGN.md).",
    "not_applicable": na,
}
json.dump(man, open(os.path.join(ROOT, "MANIFEST.json"), "w"), indent=1)
print("checks:", [c["property_id"] for c in checks], "pending:", len(na))
try:
    sys.path.insert(0, os.path.join(ROOT, ".deps"))
    import jsonschema
    jsonschema.validate(man, json.load(open("/root/.vp/MANIFEST.schema.json")))
    print("MANIFEST validates")
except ImportError:
    print("jsonschema not available; not validated")
