import sys
from io import StringIO
from corpus import ctx
from xdsl.parser import Parser
from xdsl.printer import Printer
from canon import canon_ir
def pr(m, generic):
    s = StringIO(); Printer(stream=s, print_generic_format=generic).print_op(m); return s.getvalue()
def show(f, i, generic):
    ch = open(f).read().split("// -----")[i]
    m = Parser(ctx(), ch, f).parse_module(); m.verify()
    t1 = pr(m, generic)
    m2 = Parser(ctx(), t1, f).parse_module()
    for a, b in zip(m.walk(), m2.walk()):
        ca, cb = canon_ir(a), canon_ir(b)
        if ca[:2] != cb[:2] or ca[3:7] != cb[3:7]:
            print(f.split('/')[-1], i, "generic" if generic else "custom", a.name, b.name)
            print("  A props", {k:str(v) for k,v in a.properties.items()}, "attrs", {k:str(v) for k,v in a.attributes.items()})
            print("  B props", {k:str(v) for k,v in b.properties.items()}, "attrs", {k:str(v) for k,v in b.attributes.items()})
            sa=StringIO(); Printer(stream=sa, print_generic_format=generic).print_op(a) if not a.regions else None
            print("  text:", sa.getvalue()[:300])
            return
show('/repo/tests/filecheck/transforms/convert-pdl-to-pdl-interp/pdl-to-pdl-interp-matcher.mlir', 4, True)
show('/repo/tests/filecheck/dialects/pdl/pdl_native_constraint.mlir', 0, True)
show('/repo/tests/filecheck/dialects/omp/ops.mlir', 0, True)
show('/repo/tests/filecheck/backend/riscv/memref_to_riscv.mlir', 3, False)
show('/repo/tests/filecheck/dialects/acc/ops.mlir', 0, False)
show('/repo/tests/filecheck/dialects/vector/vector_ops.mlir', 0, False)
show('/repo/tests/filecheck/dialects/memref/memref_ops.mlir', 0, False)
show('/repo/tests/filecheck/transforms/lower_affine.mlir', 0, False)
show('/repo/tests/filecheck/mlir-conversion/with-mlir/dialects/llvm/llvm_func.mlir', 0, False)
show('/repo/tests/filecheck/mlir-conversion/with-mlir/affine_map.mlir', 0, False)
show('/repo/tests/filecheck/transforms/stencil-tensorize-z-dimension.mlir', 0, False)
show('/repo/tests/filecheck/backend/wgsl/2d5pt.mlir', 0, False)
