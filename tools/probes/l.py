from xdsl.context import Context
from xdsl.parser import Parser
from xdsl.dialects import get_all_dialects
from xdsl.backend.llvm.convert import convert_module
import llvmlite.binding as llvm
import ctypes
c = Context()
for n, f in get_all_dialects().items(): c.register_dialect(n, f)
src = '''
builtin.module {
  llvm.func @f(%a: i32, %b: i32) -> i32 {
    %0 = llvm.add %a, %b : i32
    %1 = llvm.mul %0, %b : i32
    llvm.return %1 : i32
  }
}
'''
m = Parser(c, src).parse_module(); m.verify()
mod = convert_module(m, fallback_target_triple=None)
print(mod)
llvm.initialize_native_target(); llvm.initialize_native_asmprinter()
ref = llvm.parse_assembly(str(mod)); ref.verify()
tm = llvm.Target.from_default_triple().create_target_machine()
ee = llvm.create_mcjit_compiler(ref, tm); ee.finalize_object()
fp = ee.get_function_address("f")
fn = ctypes.CFUNCTYPE(ctypes.c_int32, ctypes.c_int32, ctypes.c_int32)(fp)
print(fn(3,4), (3+4)*4)
