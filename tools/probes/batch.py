import sys, random, subprocess, ctypes, collections, os
sys.path.insert(0, '/tmp/scratch'); sys.path.insert(0, '/root/xdsl_design_probes')
from corpus import ctx
from xdsl.parser import Parser
from xdsl.transforms import get_all_passes
from xdsl.targets import get_all_targets
from io import StringIO
from refsem import run
P = get_all_passes()
PIPE = ["convert-func-to-x86-func", "convert-arith-to-x86", "reconcile-unrealized-casts", "canonicalize", "dce", "x86-allocate-registers", "canonicalize", "x86-prologue-epilogue-insertion"]
res = collections.Counter(); ex = {}
funcs = []
for seed in range(int(sys.argv[1])):
    rng = random.Random(seed)
    t = rng.choice(["i64", "i64", "i32"]); n = rng.choice([0, 1, 2, 3, 6, 7, 9])
    env = [f"%a{i}" for i in range(n)]; lines = []
    for j in range(rng.choice([1, 3, 6, 12])):
        v = f"%v{j}"
        if not env or rng.random() < 0.25: lines.append(f"{v} = arith.constant {rng.choice([0, 1, 7, -3, 2147483647, 4294967296 if t == 'i64' else 65536])} : {t}")
        else: lines.append(f"{v} = arith.{rng.choice(['addi', 'muli'])} {rng.choice(env)}, {rng.choice(env)} : {t}")
        env.append(v)
    if not env: lines.append(f"%v0 = arith.constant 3 : {t}"); env.append("%v0")
    ret = rng.choice(env)
    name = f"f{seed}"
    text = f"func.func public @{name}(" + ", ".join(f"%a{i}: {t}" for i in range(n)) + f") -> {t} {{\n  " + "\n  ".join(lines) + f"\n  func.return {ret} : {t}\n}}\n"
    c = ctx(); m = Parser(c, text).parse_module(); m.verify()
    c0 = ctx(); m0 = Parser(c0, text.replace(f"@{name}", "@main")).parse_module()
    try:
        for pn in PIPE: P[pn]()().apply(c, m)
        m.verify()
        s = StringIO(); get_all_targets()["x86-asm"]()().emit(c, m, s)
    except Exception as e:
        k = "pipeline-failed " + type(e).__name__ + " " + str(e).strip().split("\n")[-1][:70]; res[k] += 1; ex.setdefault(k, text); continue
    asm = s.getvalue()
    open(f"{name}.s", "w").write(asm)
    r = subprocess.run(["gcc", "-c", f"{name}.s", "-o", f"{name}.o"], capture_output=True, text=True)
    if r.returncode: res["ASSEMBLER-REJECTS"] += 1; ex.setdefault("ASSEMBLER-REJECTS", (text, asm, r.stderr[:300])); continue
    funcs.append((name, t, n, m0, text, asm))
subprocess.run(["gcc", "-shared", "-o", "libb.so", "tramp.S"] + [f"{f[0]}.o" for f in funcs], check=True, capture_output=True)
lib = ctypes.CDLL(os.path.abspath("libb.so")); xv = lib.xv_call
for name, t, n, m0, text, asm in funcs:
    w = 64 if t == "i64" else 32
    fn = ctypes.cast(getattr(lib, name), ctypes.c_void_p).value
    rng = random.Random(name)
    for _ in range(6):
        args = [rng.choice([0, 1, 2, (1 << w) - 1, 1 << (w - 1), rng.getrandbits(w)]) for _ in range(n)]
        want = run(m0, "main", args)[0][0]
        A = (ctypes.c_uint64 * max(n, 6))(*args); out = (ctypes.c_uint64 * 8)()
        xv(ctypes.c_void_p(fn), A, ctypes.c_int64(n), out)
        got = out[7] & ((1 << w) - 1)
        sent = [out[0], out[2], out[3], out[4], out[5]] == [0x1111111111111111, 0x2222222222222222, 0x3333333333333333, 0x4444444444444444, 0x5555555555555555]
        if got != want: res["WRONG-RESULT"] += 1; ex.setdefault("WRONG-RESULT", (text, asm, args, got, want))
        elif not sent: res["CALLEE-SAVED-CLOBBERED"] += 1; ex.setdefault("CLOBBER", (text, asm))
        elif out[6] != 0: res["RSP-DELTA"] += 1; ex.setdefault("RSP", (text, asm))
        else: res["ok"] += 1
print(dict(res))
for k, v in ex.items():
    print("====", k); print(v if isinstance(v, str) else "\n".join(map(str, v)))
