import sys, random, collections, ctypes, warnings
sys.path.insert(0, '/tmp/scratch')
from corpus import ctx
from xdsl.parser import Parser
from xdsl.backend.llvm.convert import convert_module
import llvmlite.binding as llvm
llvm.initialize_native_target(); llvm.initialize_native_asmprinter()
tm = llvm.Target.from_default_triple().create_target_machine()
W = {"i1": 1, "i8": 8, "i16": 16, "i32": 32, "i64": 64}
def U(x, w): return x & ((1 << w) - 1)
def S(x, w):
    x = U(x, w); return x - (1 << w) if x >> (w - 1) else x
BIN = {"add": lambda a, b, w: a + b, "sub": lambda a, b, w: a - b, "mul": lambda a, b, w: a * b, "and": lambda a, b, w: a & b, "or": lambda a, b, w: a | b, "xor": lambda a, b, w: a ^ b,
       "shl": lambda a, b, w: None if b >= w else a << b, "lshr": lambda a, b, w: None if b >= w else a >> b, "ashr": lambda a, b, w: None if b >= w else S(a, w) >> b,
       "udiv": lambda a, b, w: None if b == 0 else a // b, "urem": lambda a, b, w: None if b == 0 else a % b,
       "sdiv": lambda a, b, w: None if S(b, w) == 0 or (S(a, w) == -(1 << (w - 1)) and S(b, w) == -1) else (abs(S(a, w)) // abs(S(b, w))) * (1 if (S(a, w) < 0) == (S(b, w) < 0) else -1),
       "srem": lambda a, b, w: None if S(b, w) == 0 or (S(a, w) == -(1 << (w - 1)) and S(b, w) == -1) else S(a, w) - S(b, w) * ((abs(S(a, w)) // abs(S(b, w))) * (1 if (S(a, w) < 0) == (S(b, w) < 0) else -1))}
PRED = {"eq": lambda a, b, w: a == b, "ne": lambda a, b, w: a != b, "slt": lambda a, b, w: S(a, w) < S(b, w), "sle": lambda a, b, w: S(a, w) <= S(b, w), "sgt": lambda a, b, w: S(a, w) > S(b, w),
        "sge": lambda a, b, w: S(a, w) >= S(b, w), "ult": lambda a, b, w: a < b, "ule": lambda a, b, w: a <= b, "ugt": lambda a, b, w: a > b, "uge": lambda a, b, w: a >= b}
CT = {1: ctypes.c_bool, 8: ctypes.c_uint8, 16: ctypes.c_uint16, 32: ctypes.c_uint32, 64: ctypes.c_uint64}
res = collections.Counter(); ex = {}; KEEP = []
for seed in range(int(sys.argv[1])):
    rng = random.Random(seed)
    t = rng.choice(["i8", "i16", "i32", "i64"]); w = W[t]
    nargs = rng.randint(1, 3)
    lines = []; env = [(f"%a{i}", t) for i in range(nargs)]; prog = []  # prog: list of (dst, kind, ...)
    for j in range(rng.choice([2, 4, 8])):
        r = rng.random(); v = f"%v{j}"
        ints = [x for x, ty in env if ty == t]; bools = [x for x, ty in env if ty == "i1"]
        if r < 0.6:
            op = rng.choice(list(BIN)); a, b = rng.choice(ints), rng.choice(ints)
            lines.append(f"{v} = llvm.{op} {a}, {b} : {t}"); env.append((v, t)); prog.append((v, "bin", op, a, b))
        elif r < 0.8:
            p = rng.choice(list(PRED)); a, b = rng.choice(ints), rng.choice(ints)
            lines.append(f'{v} = llvm.icmp "{p}" {a}, {b} : {t}'); env.append((v, "i1")); prog.append((v, "cmp", p, a, b))
        elif bools:
            c = rng.choice(bools); a, b = rng.choice(ints), rng.choice(ints)
            lines.append(f'{v} = "llvm.select"({c}, {a}, {b}) : (i1, {t}, {t}) -> {t}'); env.append((v, t)); prog.append((v, "sel", c, a, b))
        else:
            k = rng.choice([0, 1, 2, 7, (1 << (w - 1)) - 1]); lines.append(f"{v} = llvm.mlir.constant({k} : {t}) : {t}"); env.append((v, t)); prog.append((v, "const", k))
    ret = rng.choice([x for x, ty in env if ty == t])
    text = "builtin.module {\n llvm.func @f(" + ", ".join(f"%a{i}: {t}" for i in range(nargs)) + f") -> {t} {{\n  " + "\n  ".join(lines) + f"\n  llvm.return {ret} : {t}\n }}\n}}"
    try:
        m = Parser(ctx(), text).parse_module(); m.verify()
    except Exception as e:
        res["gen-invalid " + str(e).strip().split("\n")[-1][:50]] += 1; ex.setdefault("gen", text); continue
    try:
        mod = convert_module(m, fallback_target_triple=None)
    except Exception as e:
        res["convert-failed " + type(e).__name__] += 1; continue
    try:
        ref = llvm.parse_assembly(str(mod)); ref.verify()
    except Exception as e:
        res["LLVM-REJECTS"] += 1; ex.setdefault("LLVM-REJECTS", (text, str(e)[:200])); continue
    tm = llvm.Target.from_default_triple().create_target_machine(); ee = llvm.create_mcjit_compiler(ref, tm); ee.finalize_object(); KEEP.append((ee, tm, ref))
    fn = ctypes.CFUNCTYPE(CT[w], *([CT[w]] * nargs))(ee.get_function_address("f"))
    for _ in range(8):
        args = [rng.choice([0, 1, 2, (1 << w) - 1, 1 << (w - 1), (1 << (w - 1)) - 1, rng.getrandbits(w)]) for _ in range(nargs)]
        vals = {f"%a{i}": a for i, a in enumerate(args)}; ok = True
        for st in prog:
            if st[1] == "bin":
                r = BIN[st[2]](vals[st[3]], vals[st[4]], w)
                if r is None: ok = False; break
                vals[st[0]] = U(r, w)
            elif st[1] == "cmp": vals[st[0]] = int(PRED[st[2]](vals[st[3]], vals[st[4]], w))
            elif st[1] == "sel": vals[st[0]] = vals[st[3]] if vals[st[2]] else vals[st[4]]
            else: vals[st[0]] = U(st[2], w)
        if not ok: res["input-excluded"] += 1; continue
        got = int(fn(*args))
        if got != vals[ret]: res["WRONG"] += 1; ex.setdefault("WRONG", (text, args, got, vals[ret]))
        else: res["ok"] += 1
print(dict(res))
for k, v in ex.items(): print(k, v)
