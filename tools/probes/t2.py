import time
from t1 import tryparse
for n in (16, 20, 22, 24, 26):
    t=time.time(); tryparse('"test.op"() {a = "' + "a"*n + '\n} : () -> ()'); print(n, time.time()-t)
tryparse('"test.op"() {a = ²} : () -> ()')
tryparse('"test.op"() {a = ٣ : i32} : () -> ()')
tryparse('é"test.op"() : () -> ()')
tryparse('"test.op"() {é = 1} : () -> ()')
