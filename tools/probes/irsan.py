"""Prototype: whole-tree IR invariant walker (C01 oracle)."""
from xdsl.ir import Block, Region, Operation, SSAValue, OpResult, BlockArgument, ErasedSSAValue, Use


class Broken(Exception):
    pass


def _chk(c, msg):
    if not c:
        raise Broken(msg)


def walk_uses(v, limit=1_000_000):
    """Return list of Use objects in v's use list, checking prev/next coherence."""
    out = []
    u = v.first_use
    prev = None
    seen = set()
    while u is not None:
        _chk(id(u) not in seen, f"cycle in use list of {type(v).__name__}")
        seen.add(id(u))
        _chk(u._prev_use is prev, "use._prev_use mismatch")
        out.append(u)
        prev = u
        u = u._next_use
        _chk(len(out) < limit, "use list too long")
    return out


def check_tree(roots):
    """roots: iterable of top-level IR nodes (Operation | Block | Region), each with no parent.
    Checks all C01 invariants over everything reachable from the roots.
    Returns stats dict."""
    ops = []      # all ops in trees
    blocks = []
    regions = []
    values = []   # all SSA values defined in the trees
    seen_nodes = set()

    def visit_op(op, parent_block):
        _chk(id(op) not in seen_nodes, "op reachable twice")
        seen_nodes.add(id(op))
        _chk(op.parent is parent_block, "op.parent does not point to containing block")
        ops.append(op)
        for i, r in enumerate(op.results):
            _chk(isinstance(r, OpResult), "result not OpResult")
            _chk(r.op is op, "result.op mismatch")
            _chk(r.index == i, f"result.index {r.index} != position {i}")
            values.append(r)
        _chk(len(op._operands) == len(op._operand_uses), "operand/uses length mismatch")
        for i, u in enumerate(op._operand_uses):
            _chk(u._operation is op and u._index == i, "operand use (op,index) mismatch")
        _chk(len(op._successors) == len(op._successor_uses), "successor/uses length mismatch")
        for i, u in enumerate(op._successor_uses):
            _chk(u._operation is op and u._index == i, "successor use (op,index) mismatch")
        for reg in op.regions:
            visit_region(reg, op)

    def visit_block(b, parent_region):
        _chk(id(b) not in seen_nodes, "block reachable twice")
        seen_nodes.add(id(b))
        _chk(b.parent is parent_region, "block.parent does not point to containing region")
        blocks.append(b)
        for i, a in enumerate(b._args):
            _chk(isinstance(a, BlockArgument), "arg not BlockArgument")
            _chk(a.block is b, "arg.block mismatch")
            _chk(a.index == i, f"arg.index {a.index} != position {i}")
            values.append(a)
        # forward
        fwd = []
        o = b._first_op
        prev = None
        while o is not None:
            _chk(o._prev_op is prev, "op._prev_op mismatch in forward walk")
            fwd.append(o)
            prev = o
            o = o._next_op
            _chk(len(fwd) < 10_000_000, "op list too long")
        _chk(b._last_op is prev, "block._last_op is not the last op of forward walk")
        # backward
        bwd = []
        o = b._last_op
        nxt = None
        while o is not None:
            _chk(o._next_op is nxt, "op._next_op mismatch in backward walk")
            bwd.append(o)
            nxt = o
            o = o._prev_op
        _chk(b._first_op is nxt, "block._first_op is not the end of backward walk")
        _chk([id(x) for x in fwd] == [id(x) for x in reversed(bwd)], "fwd/bwd op lists differ")
        for o in fwd:
            visit_op(o, b)

    def visit_region(r, parent_op):
        _chk(id(r) not in seen_nodes, "region reachable twice")
        seen_nodes.add(id(r))
        _chk(r.parent is parent_op, "region.parent does not point to containing op")
        regions.append(r)
        fwd = []
        b = r._first_block
        prev = None
        while b is not None:
            _chk(b._prev_block is prev, "block._prev_block mismatch")
            fwd.append(b)
            prev = b
            b = b._next_block
        _chk(r._last_block is prev, "region._last_block mismatch")
        bwd = []
        b = r._last_block
        nxt = None
        while b is not None:
            _chk(b._next_block is nxt, "block._next_block mismatch")
            bwd.append(b)
            nxt = b
            b = b._prev_block
        _chk(r._first_block is nxt, "region._first_block mismatch")
        _chk([id(x) for x in fwd] == [id(x) for x in reversed(bwd)], "fwd/bwd block lists differ")
        for b in fwd:
            visit_block(b, r)

    for root in roots:
        _chk(root.parent is None if not isinstance(root, Operation) else root.parent is None, "root has parent")
        if isinstance(root, Operation):
            _chk(root._next_op is None and root._prev_op is None, "detached op has siblings")
            visit_op(root, None)
        elif isinstance(root, Block):
            _chk(root._next_block is None and root._prev_block is None, "detached block has siblings")
            visit_block(root, None)
        else:
            visit_region(root, None)

    # use-def: expected multiset of (user, index) per value from operand lists
    exp = {}
    vals_by_id = {}
    for op in ops:
        for i, v in enumerate(op._operands):
            exp.setdefault(id(v), []).append((id(op), i))
            vals_by_id[id(v)] = v
        for i, s in enumerate(op._successors):
            exp.setdefault(id(s), []).append((id(op), i))
            vals_by_id[id(s)] = s
    for v in values:
        vals_by_id.setdefault(id(v), v)
    for b in blocks:
        vals_by_id.setdefault(id(b), b)
    in_tree_ops = {id(o) for o in ops}
    nuses = 0
    for vid, v in vals_by_id.items():
        uses = walk_uses(v)
        got = sorted((id(u._operation), u._index) for u in uses)
        want = sorted(exp.get(vid, []))
        _chk(got == want, f"use list of {type(v).__name__} != operand/successor occurrences: got {len(got)} want {len(want)}")
        # each use object must be the one stored in the user's use tuple
        for u in uses:
            if id(u._operation) in in_tree_ops:
                tup = u._operation._successor_uses if isinstance(v, Block) else u._operation._operand_uses
                _chk(u._index < len(tup) and tup[u._index] is u, "use object not the user's registered use")
        nuses += len(got)
    return dict(ops=len(ops), blocks=len(blocks), regions=len(regions), values=len(values), uses=nuses)
