from xdsl.dialects.test import TestOp, TestTermOp
from xdsl.dialects.builtin import *
from xdsl.ir import *
from xdsl.irdl.dominance import DominanceInfo
op2 = TestOp(result_types=[i32])
op1 = TestOp(operands=[op2.results[0]])
outer = TestOp(regions=[Region(Block([op1, op2]))])
c = outer.clone()
print("C03 reflexive fwd-ref:", outer.is_structurally_equivalent(outer), " clone-equivalent:", outer.is_structurally_equivalent(c), c.is_structurally_equivalent(outer))
# attributes differ
x = TestOp(attributes={"a": IntegerAttr(1,i32)}); y = TestOp(attributes={"a": IntegerAttr(2,i32)})
print("attr differ:", x.is_structurally_equivalent(y))
# block arg types
r1 = TestOp(regions=[Region(Block(arg_types=[i32]))]); r2 = TestOp(regions=[Region(Block(arg_types=[i64]))])
print("blockarg differ:", r1.is_structurally_equivalent(r2))
# operand wiring: two ops defined, use first vs second
def mk(which):
    d1 = TestOp(result_types=[i32]); d2 = TestOp(result_types=[i32])
    u = TestOp(operands=[(d1 if which==0 else d2).results[0]])
    return TestOp(regions=[Region(Block([d1,d2,u]))])
print("wiring differ:", mk(0).is_structurally_equivalent(mk(1)))
# external operand: same external value
ext = TestOp(result_types=[i32])
e1 = TestOp(operands=[ext.results[0]]); e2 = TestOp(operands=[ext.results[0]])
print("same external operand:", e1.is_structurally_equivalent(e2))
# C24 dominance with unreachable pred without preds
b0=Block(); b1=Block(); bu=Block()
b0.add_op(TestTermOp(successors=[b1])); b1.add_op(TestTermOp()); bu.add_op(TestTermOp(successors=[b1]))
reg = Region([b0,b1,bu]); holder=TestOp(regions=[reg])
d = DominanceInfo(reg)
print("C24 entry dominates b1 (with unreachable pred):", d.dominates(b0,b1), " bu dominates b1:", d.dominates(bu,b1))
