import math, struct
from xdsl.context import Context
from xdsl.parser import Parser
from xdsl.dialects.builtin import *
from xdsl.dialects import get_all_dialects
def ctx():
    c = Context(allow_unregistered=True)
    for n, f in get_all_dialects().items():
        c.register_dialect(n, f)
    return c
def rt(a):
    s = str(a)
    try:
        b = Parser(ctx(), s).parse_attribute()
    except Exception as e:
        print("FAIL-PARSE", s, type(e).__name__, str(e)[:100].replace("\n"," | ")); return
    same = (a == b)
    extra = ""
    if isinstance(a, DenseIntOrFPElementsAttr) or isinstance(a, DenseArrayBase):
        extra = f" bytes_equal={a.data.data == b.data.data}"
    if isinstance(a, FloatAttr):
        extra = f" bits_equal={struct.pack('<d', a.value.data) == struct.pack('<d', b.value.data)}"
    print("OK " if same else "DIFF", s, "->", str(b), extra)
rt(FloatAttr(-0.0, f32))
rt(FloatAttr(float("nan"), f32))
rt(FloatAttr(struct.unpack("<d", struct.pack("<Q", 0x7ff8000000000001))[0], f64))
rt(FloatAttr(float("inf"), f16))
rt(FloatAttr(1e-45, f32))
rt(FloatAttr(1.0000001, f32))
rt(FloatAttr(123456789.0, f32))
rt(FloatAttr(1e22, f64))
rt(FloatAttr(5e-324, f64))
rt(FloatAttr(0.1, f16))
rt(FloatAttr(0.1, bf16))
rt(FloatAttr(1e30, f64))
rt(DenseIntOrFPElementsAttr.from_list(TensorType(f32,[2]), [0.0, -0.0]))
rt(DenseIntOrFPElementsAttr.from_list(TensorType(f32,[2]), [1.0, float("nan")]))
rt(DenseIntOrFPElementsAttr.from_list(TensorType(f32,[2]), [float("inf"), 1.0]))
rt(DenseIntOrFPElementsAttr.from_list(TensorType(i1,[2]), [1, 0]))
rt(DenseIntOrFPElementsAttr.from_list(TensorType(i8,[2]), [255, -128]))
rt(DenseIntOrFPElementsAttr.from_list(TensorType(IntegerType(8, Signedness.UNSIGNED),[2]), [255, 1]))
rt(DenseIntOrFPElementsAttr.from_list(TensorType(i32,[0]), []))
rt(DenseIntOrFPElementsAttr.from_list(TensorType(i32,[2,0]), []))
rt(DenseIntOrFPElementsAttr.from_list(TensorType(i32,[101]), list(range(101))))
rt(DenseIntOrFPElementsAttr.from_list(TensorType(IntegerType(3),[3]), [1,2,3]))
rt(DenseArrayBase.from_list(f32, [0.0, -0.0, float("nan")]))
rt(DenseArrayBase.from_list(i1, [1, 0]))
rt(DenseArrayBase.from_list(f16, [0.1]))
rt(StringAttr("héllo \"q\" \\ \n\t\x00 ☃"))
rt(BytesAttr(b"\x00\xff abc"))
rt(BytesAttr(b"abc"))
rt(BytesAttr(b""))
rt(IntegerAttr(-1, IntegerType(1)))
rt(IntegerAttr(1, IntegerType(1)))
rt(IntegerAttr(255, IntegerType(8)))
rt(IntegerAttr(2**63, IntegerType(64)))
rt(IntegerAttr(-5, IndexType()))
rt(IntegerAttr(2**100, IndexType()))
rt(SymbolRefAttr("a b", ["c", "d.e"]))
rt(DictionaryAttr({"a b": UnitAttr(), "c": IntegerAttr(1, i32)}))
rt(ArrayAttr([]))
rt(FunctionType.from_lists([FunctionType.from_lists([],[])],[FunctionType.from_lists([i32],[i32])]))
rt(TupleType([i32, TupleType([])]))
rt(ComplexType(f32))
rt(OpaqueAttr.from_strings("a", "b"))
rt(NoneAttr())
rt(UnitAttr())
rt(FileLineColLoc(StringAttr("a"), IntAttr(1), IntAttr(2)))
rt(UnknownLoc())
