import sys, random, collections, math, warnings
sys.path.insert(0, '/tmp/scratch')
from corpus import ctx
from xdsl.parser import Parser
from xdsl.transforms import get_all_passes
from gen_arith import Gen, gen_inputs
import refsem
from refsem import run, Undefined, Unsupported, StepLimit
warnings.simplefilter("ignore")
PASSES = sys.argv[2].split(",")
passes = {n: get_all_passes()[n]() for n in PASSES}
res = collections.Counter(); ex = {}
def same(a, b):
    return a == b
for seed in range(int(sys.argv[1])):
    rng = random.Random(seed)
    text, argt, rett = Gen(rng, allow_float=True, effects=True).func()
    c = ctx()
    try:
        m = Parser(c, text).parse_module(); m.verify()
    except Exception as e:
        res["GEN-INVALID " + str(e).strip().split("\n")[-1][:60]] += 1; ex.setdefault("gen", text); continue
    inputs = gen_inputs(rng, argt, 6)
    base = []
    for inp in inputs:
        try: base.append(run(m, "main", inp))
        except Undefined: base.append(None)
        except StepLimit: base.append(None)
        except Unsupported as u: base.append(None); res["refsem-unsupported " + str(u)[:30]] += 1
    for pn, pcls in passes.items():
        c2 = ctx(); m2 = Parser(c2, text).parse_module()
        try:
            pcls().apply(c2, m2)
        except Exception as e:
            k = f"{pn}: PASS-RAISED {type(e).__name__} {(str(e).strip().splitlines() or [""])[-1][:60]}"; res[k] += 1; ex.setdefault(k, (seed, text)); continue
        try: m2.verify()
        except Exception as e:
            k = f"{pn}: OUTPUT-INVALID"; res[k] += 1; ex.setdefault(k, (seed, text)); continue
        for inp, b in zip(inputs, base):
            if b is None: res["input-excluded"] += 1; continue
            try: got = run(m2, "main", inp)
            except Undefined as u:
                k = f"{pn}: INTRODUCED-UB {u}"; res[k] += 1; ex.setdefault(k, (seed, inp, text, str(m2))); continue
            except (Unsupported, StepLimit) as u:
                res[f"{pn}: after-unsupported {str(u)[:30]}"] += 1; continue
            if got != b:
                k = f"{pn}: RESULT-DIFFERS"; res[k] += 1; ex.setdefault(k, (seed, inp, b, got, text, str(m2)))
            else: res[f"{pn}: ok"] += 1
for k, v in sorted(res.items()): print(v, k)
for k, v in ex.items():
    print("=====", k); [print(x) for x in v]
