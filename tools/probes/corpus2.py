import collections
from corpus import chunks, ctx
from xdsl.parser import Parser
c=collections.Counter(); ex={}
for f,i,ch in chunks:
    try:
        m = Parser(ctx(), ch, f).parse_module()
    except Exception: continue
    try: m.verify()
    except Exception as e:
        k=str(e).strip().split("\n")[-1][:70]
        c[k]+=1; ex.setdefault(k,(f,i))
for k,v in c.most_common(25): print(v, k, ex[k])
