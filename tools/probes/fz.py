import collections, sys, time, traceback, random, signal, re
from corpus import chunks, ctx
from xdsl.parser import Parser
from xdsl.utils.exceptions import ParseError, DiagnosticException
import faulthandler
rng = random.Random(int(sys.argv[1]))
N = int(sys.argv[2])
TOK = ['(', ')', '{', '}', '[', ']', '<', '>', ',', ':', '=', '->', '"', '%0', '%a', '^bb0', '^1', '@f', '#a', '!t', '-', '+', '*', '?', '0x', '0', '1', '-1', '1.5', '1e10', 'true', 'dense', 'array', 'affine_map', 'loc', 'i32', 'f32', 'index', 'tensor<2xi32>', 'x', 'é', '²', '٣', '\\', '\n', ' ', '::', '...', '{-#', '#-}', 'unit', 'none', '"builtin.module"', 'func.func', 'opaque', 'strided', 'memref', 'vector', 'complex', 'tuple', '()', '99999999999999999999', 'floordiv', 'mod', 'ceildiv', 's0', 'd0', 'symbol', 'attributes']
srcs = [ch for f, i, ch in chunks if len(ch) < 4000]
def mutate(s):
    k = rng.choice([1, 1, 2, 3, 5])
    for _ in range(k):
        if not s: s = rng.choice(TOK)
        p = rng.randrange(len(s) + 1)
        m = rng.random()
        if m < 0.3: s = s[:p] + rng.choice(TOK) + s[p:]
        elif m < 0.5: q = min(len(s), p + rng.choice([1, 1, 2, 5, 20])); s = s[:p] + s[q:]
        elif m < 0.7: q = min(len(s), p + rng.choice([1, 2, 5])); s = s[:p] + rng.choice(TOK) + s[q:]
        elif m < 0.8: s = s[:p] + chr(rng.choice([rng.randrange(32, 127), rng.randrange(128, 0x3000), 0, 9, 10])) + s[p:]
        elif m < 0.9:  # truncate
            s = s[:p]
        else:  # duplicate a slice
            q = min(len(s), p + rng.randrange(1, 40)); s = s[:q] + s[p:q] + s[q:]
    return s
class TO(Exception): pass
def alarm(*a): raise TO()
signal.signal(signal.SIGALRM, alarm)
faulthandler.enable()
res = collections.Counter(); ex = {}
t0 = time.time()
c = ctx()
for n in range(N):
    s = mutate(rng.choice(srcs))
    # avoid known regex blowup for prototype: skip if unterminated quote count odd and long tail
    signal.alarm(5)
    try:
        open('/tmp/scratch/fz_cur.txt', 'w').write(s)
        Parser(ctx(), s).parse_module()
        res[("ok",)] += 1
    except (ParseError, DiagnosticException):
        res[("diag",)] += 1
    except TO:
        res[("TIMEOUT",)] += 1; ex.setdefault(("TIMEOUT",), s[:200])
    except RecursionError as e:
        res[("RecursionError",)] += 1
    except Exception as e:
        tb = traceback.extract_tb(e.__traceback__)
        fr = [f for f in tb if '/repo/xdsl/' in f.filename]
        site = fr[-1] if fr else tb[-1]
        k = (type(e).__name__, site.filename.replace('/repo/', '') + ":" + site.name)
        res[k] += 1
        if k not in ex: ex[k] = (str(e)[:80], s[:300])
    finally:
        signal.alarm(0)
print("time", time.time() - t0)
for k, v in sorted(res.items(), key=lambda kv: -kv[1]): print(v, k, repr(ex.get(k, ""))[:260])
