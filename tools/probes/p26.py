import random, sys, collections, itertools
from xdsl.ir.affine import AffineExpr, AffineMap, AffineBinaryOpExpr, AffineBinaryOpKind, AffineConstantExpr
from xdsl.parser import Parser
from xdsl.context import Context
from xdsl.dialects.builtin import Builtin, AffineMapAttr
ND, NS = 2, 1
def gen(rng, depth):
    if depth == 0 or rng.random() < 0.25:
        r = rng.random()
        if r < 0.4: return AffineExpr.dimension(rng.randrange(ND))
        if r < 0.6: return AffineExpr.symbol(rng.randrange(NS))
        return AffineExpr.constant(rng.choice([-7, -2, -1, 0, 1, 2, 3, 4, 5, 8]))
    k = rng.choice(["add", "sub", "mul", "fd", "cd", "mod", "neg", "radd", "rmul"])
    a = gen(rng, depth - 1)
    if k == "add": return a + gen(rng, depth - 1)
    if k == "sub": return a - gen(rng, depth - 1)
    if k == "neg": return -a
    c = rng.choice([-3, -1, 0, 1, 2, 3, 4, 6])
    if k == "mul": return a * c
    if k == "rmul": return c * a
    if k == "radd": return c + a
    if k == "rsub": return ("RSUB", c, a)
    p = rng.choice([1, 2, 3, 4, 5, 8])
    if k == "fd": return a // p
    if k == "cd": return a.ceil_div(p)
    return a % p
PTS = [(d, s) for d in itertools.product(range(-4, 6), repeat=ND) for s in itertools.product(range(-2, 4), repeat=NS)]
def ev(e, d, s): return e.eval(d, s)
res = collections.Counter(); ex = {}
ctx = Context(); ctx.load_dialect(Builtin)
def chk(tag, e0, e1, seed):
    for d, s in PTS:
        try: a = ev(e0, d, s)
        except ZeroDivisionError: continue
        b = ev(e1, d, s)
        if a != b:
            res[tag + " MISMATCH"] += 1; ex.setdefault(tag, (seed, str(e0), str(e1), d, s, a, b)); return False
    res[tag + " ok"] += 1; return True
for seed in range(int(sys.argv[1])):
    rng = random.Random(seed)
    try:
        e = gen(rng, rng.choice([1, 2, 3, 4]))
        if rng.random() < 0.1: e = ('RSUB', rng.choice([-2, 0, 3]), e)
    except NotImplementedError:
        res["gen-notimpl"] += 1; continue
    if isinstance(e, tuple):
        _, c, a = e
        built = c - a
        want = AffineBinaryOpExpr(AffineBinaryOpKind.Add, AffineConstantExpr(c), AffineBinaryOpExpr(AffineBinaryOpKind.Mul, a, AffineConstantExpr(-1)))
        chk("rsub", want, built, seed); continue
    # simplify
    try:
        s_ = e.simplify(ND, NS); chk("simplify", e, s_, seed)
    except (NotImplementedError,) as x: res["simplify-notimpl"] += 1
    except Exception as x:
        res["simplify-crash " + type(x).__name__ + " " + str(x)[:40]] += 1; ex.setdefault("simplify-crash", (seed, str(e)))
    # print/parse
    txt = f"affine_map<(d0, d1)[s0] -> ({e})>"
    try:
        m = Parser(ctx, txt).parse_attribute()
        chk("printparse", e, m.data.results[0], seed)
    except Exception as x:
        res["parse-fail " + type(x).__name__] += 1; ex.setdefault("parse-fail", (seed, txt, str(x)[-80:]))
    # compose / replace
    try:
        inner = [gen(rng, 2) for _ in range(ND)]
        if any(isinstance(i, tuple) for i in inner): continue
        mp = AffineMap(ND, NS, tuple(inner))
        comp = e.compose(mp)
        class W:
            def eval(self, d, s): return e.eval([i.eval(d, s) for i in inner], s)
        chk("compose", W(), comp, seed)
        syms = [gen(rng, 1) for _ in range(NS)]
        if any(isinstance(i, tuple) for i in syms): continue
        rep = e.replace_dims_and_symbols(inner, syms)
        class W2:
            def eval(self, d, s): return e.eval([i.eval(d, s) for i in inner], [i.eval(d, s) for i in syms])
        chk("replace", W2(), rep, seed)
    except NotImplementedError: res["compose-notimpl"] += 1
for k, v in sorted(res.items()): print(v, k)
for k, v in ex.items(): print(k, v)
