"""Prototype C11: greedy driver monitors."""
import random, sys, collections
from xdsl.ir import Block, Region, Operation, SSAValue, BlockArgument, ErasedSSAValue
from xdsl.dialects.test import TestOp, TestTermOp, TestPureOp
from xdsl.dialects.builtin import i32, i64, IntegerAttr, ModuleOp, StringAttr, IntAttr
from xdsl.pattern_rewriter import (PatternRewriter, PatternRewriteWalker, RewritePattern, GreedyRewritePatternApplier,
                                   PatternRewriterListener)
from xdsl.rewriter import InsertPoint, BlockInsertPoint
from xdsl.utils.worklist import Worklist
from canon import canon_ir
from irsan import check_tree, Broken


def kind(op):
    a = op.attributes.get("k")
    return a.data if isinstance(a, StringAttr) else None


def level(op):
    a = op.attributes.get("lvl")
    return a.data if isinstance(a, IntAttr) else 0


def mk(k, operands=(), nres=1, lvl=0, regions=()):
    return TestOp.create(operands=operands, result_types=[i32] * nres,
                         attributes={"k": StringAttr(k), "lvl": IntAttr(lvl)}, regions=regions)


# ---- terminating pattern library (measure: sum over ops of (lvl+1)*weight decreases, or op count decreases)
class EraseDead(RewritePattern):  # erase ops of kind "dead" without uses
    def match_and_rewrite(self, op, rw):
        if kind(op) == "dead" and all(not r.uses for r in op.results):
            rw.erase(op)


class Lower(RewritePattern):  # replace op kind "a" lvl n>0 with new op lvl n-1
    def match_and_rewrite(self, op, rw):
        if kind(op) == "a" and level(op) > 0:
            rw.replace(op, mk("a", op.operands, len(op.results), level(op) - 1))


class LowerTwo(RewritePattern):  # replace op "b" lvl n>0 with two ops (helper + new)
    def match_and_rewrite(self, op, rw):
        if kind(op) == "b" and level(op) > 0 and len(op.results) == 1:
            h = mk("dead" if level(op) % 2 else "a", (), 1, 0)
            n = mk("b", list(op.operands) + [h.results[0]], 1, level(op) - 1)
            rw.replace(op, [h, n])


class Forward(RewritePattern):  # op "id" with single operand: replace result by operand
    def match_and_rewrite(self, op, rw):
        if kind(op) == "id" and len(op.operands) == 1 and len(op.results) == 1:
            rw.replace(op, [], [op.operands[0]])


class FoldIfOperandLow(RewritePattern):  # "c" becomes "a"(lvl 0) only when its first operand is defined by an "a" at lvl 0
    def match_and_rewrite(self, op, rw):
        if kind(op) == "c" and op.operands and isinstance(o := op.operands[0].owner, Operation) and kind(o) == "a" and level(o) == 0:
            rw.replace(op, mk("a", op.operands[1:], len(op.results), 0))


class ModifyInPlace(RewritePattern):  # decrement level of "m" ops in place
    def match_and_rewrite(self, op, rw):
        if kind(op) == "m" and level(op) > 0:
            op.attributes["lvl"] = IntAttr(level(op) - 1)
            rw.notify_op_modified(op)


class InsertOnce(RewritePattern):  # "i" op with lvl>0: insert helper before/after and decrement
    def match_and_rewrite(self, op, rw):
        if kind(op) == "i" and level(op) > 0:
            h = mk("dead", (), 1, 0)
            rw.insert(h, InsertPoint.before(op) if level(op) % 2 else InsertPoint.after(op))
            op.attributes["lvl"] = IntAttr(level(op) - 1)
            rw.notify_op_modified(op)


class InlineRegion(RewritePattern):  # "r" op with one single-block region: inline block before op, erase op (results must be unused)
    def match_and_rewrite(self, op, rw):
        if kind(op) == "r" and len(op.regions) == 1 and len(op.regions[0].blocks) == 1 and all(not r.uses for r in op.results):
            blk = op.regions[0].blocks[0]
            if blk.args and len(op.operands) < len(blk.args):
                return
            rw.inline_block(blk, InsertPoint.before(op), list(op.operands[: len(blk.args)]))
            rw.erase(op)


class DropBlockArg(RewritePattern):  # "g" op: erase unused block args of its regions' first blocks
    def match_and_rewrite(self, op, rw):
        if kind(op) == "g":
            for reg in op.regions:
                for b in reg.blocks:
                    for a in reversed(b.args):
                        if not a.uses:
                            rw.erase_block_argument(a)
                            return


class RauwOperand(RewritePattern):  # "u" op with 2 results... replace uses of result 1 with result 0 if it has uses
    def match_and_rewrite(self, op, rw):
        if kind(op) == "u" and len(op.results) == 2 and op.results[1].uses:
            rw.replace_all_uses_with(op.results[1], op.results[0])


class RetypeOnce(RewritePattern):
    def match_and_rewrite(self, op, rw):
        if kind(op) == "t" and op.results and op.results[0].type == i32:
            rw.replace_value_with_new_type(op.results[0], i64)


PATTERNS = [EraseDead, Lower, LowerTwo, Forward, FoldIfOperandLow, ModifyInPlace, InsertOnce, InlineRegion, DropBlockArg, RauwOperand, RetypeOnce]
KINDS = ["dead", "a", "b", "id", "c", "m", "i", "r", "g", "u", "t", "x"]


def gen_block(rng, depth, outer_vals, nops):
    b = Block(arg_types=[i32] * rng.choice([0, 0, 1, 2]))
    vals = list(outer_vals) + list(b.args)
    for _ in range(nops):
        k = rng.choice(KINDS)
        nopnd = rng.choice([0, 1, 1, 2, 3]) if vals else 0
        opnds = [rng.choice(vals) for _ in range(nopnd)]
        regions = []
        if k in ("r", "g") or (depth < 2 and rng.random() < 0.15):
            if depth < 2:
                regions = [Region(gen_block(rng, depth + 1, vals, rng.choice([0, 1, 2, 4])))]
        nres = 2 if k == "u" else rng.choice([0, 1, 1, 2])
        if k == "r":
            nres = 0
        op = mk(k, opnds, nres, rng.choice([0, 0, 1, 2, 3]), regions)
        b.add_op(op)
        vals.extend(op.results)
    return b


class PerturbedWorklist(Worklist):
    """Same abstract set/stack interface, but pop returns a random present element with prob p."""
    def __init__(self, rng, p):
        super().__init__()
        self._rng, self._p = rng, p
        self.pops = []

    def pop(self):
        if self._rng.random() < self._p and self._map:
            item = self._rng.choice(list(self._map.keys()))
            self.remove(item)
        else:
            item = super().pop()
        self.pops.append(id(item))
        return item


class Violation(Exception):
    pass
ACT = []
KEEP = []


def attached_under(op, region):
    n = op
    while n is not None:
        if n is region:
            return True
        n = n.parent_node
    return False


def snapshot(region):
    d = {}
    for op in region.walk():
        anc = []; n = op.parent_op()
        while n is not None: anc.append(id(n)); n = n.parent_op()
        d[id(op)] = (op, tuple(id(v) for v in op.operands), tuple(id(r) for r in op.results), tuple(map(str, (r.type for r in op.results))), tuple(anc))
    return d


def run_case(seed, cfg=None):
    rng = random.Random(seed)
    module = ModuleOp([])
    body = gen_block(rng, 0, [], rng.choice([3, 6, 10, 16]))
    for o in list(body.ops):
        o.detach(); module.body.block.add_op(o)
    pats = [p() for p in rng.sample(PATTERNS, rng.randint(1, len(PATTERNS)))]
    class Rec(RewritePattern):
        def __init__(self, p): self.p = p
        def match_and_rewrite(self, op, rw):
            a0 = rw.has_done_action
            self.p.match_and_rewrite(op, rw)
            if rw.has_done_action and not a0: ACT.append(type(self.p).__name__)
    pats = [Rec(p) for p in pats]
    cfg = cfg or dict(walk_regions_first=rng.random() < 0.5, apply_recursively=rng.random() < 0.8, walk_reverse=rng.random() < 0.5,
                      perturb=rng.choice([0.0, 0.0, 0.3, 1.0]), applier=rng.random() < 0.7)
    events = []  # listener log
    erased = set()
    listener = PatternRewriterListener(
        operation_insertion_handler=[lambda op: events.append(("ins", id(op)))],
        operation_removal_handler=[lambda op: (events.append(("rem", id(op))), erased.update(id(x) for x in op.walk()), KEEP.extend(op.walk()))],
        operation_modification_handler=[lambda op: events.append(("mod", id(op)))],
        operation_replacement_handler=[lambda op, nr: events.append(("rep", id(op)))],
    )
    stats = collections.Counter()
    region = module.body
    inner = GreedyRewritePatternApplier(pats, dce_enabled=False) if cfg["applier"] else (pats[0] if len(pats) == 1 else GreedyRewritePatternApplier(pats, dce_enabled=False))

    class Mon(RewritePattern):
        def match_and_rewrite(self, op, rw):
            stats["invocations"] += 1
            if id(op) in erased:
                raise Violation(f"pattern invoked on erased op {op.name} k={kind(op)}")
            if not attached_under(op, region):
                raise Violation(f"pattern invoked on op detached from region k={kind(op)}")
            before = snapshot(region)
            c0 = canon_ir(module)
            e0 = len(events)
            ACT.clear(); inner.match_and_rewrite(op, rw)
            c1 = canon_ir(module)
            after = snapshot(region)
            ev = events[e0:]
            changed = c0 != c1
            if changed:
                stats["mutating"] += 1
                if not rw.has_done_action:
                    raise Violation("IR changed during match but rewriter.has_done_action is False")
            # notifications
            ins = {i for k, i in ev if k == "ins"}; rem = {i for k, i in ev if k == "rem"}; mod = {i for k, i in ev if k == "mod"}
            for i, (o, *_r) in after.items():
                if i not in before:
                    # newly attached: require notification for it or for an ancestor newly attached
                    n = o; ok = False
                    while n is not None and n is not region:
                        if isinstance(n, Operation) and id(n) in ins: ok = True; break
                        n = n.parent_node
                    if not ok:
                        raise Violation(f"op k={kind(o)} newly attached without insertion notification")
            for i, (o, *_r) in before.items():
                if i not in after:
                    n_ok = i in rem
                    if not n_ok:
                        # ancestor removed?
                        n_ok = any(j in rem for j in before[i][4])
                    if not n_ok:
                        raise Violation(f"removed without removal notification; acting={ACT}")
            for i, (o, opnds, ress, rtys, par) in after.items():
                if i in before and (before[i][1] != opnds or before[i][3] != rtys):
                    if i not in mod and i not in ins:
                        raise Violation(f"operands/result types changed without modification notification; acting={ACT}")
            stats["events"] += len(ev)

    walker = PatternRewriteWalker(Mon(), walk_regions_first=cfg["walk_regions_first"], apply_recursively=cfg["apply_recursively"],
                                  walk_reverse=cfg["walk_reverse"], listener=listener)
    wl = PerturbedWorklist(rng, cfg["perturb"])
    walker._worklist = wl
    c_before = canon_ir(module)
    ret = walker.rewrite_module(module)
    c_after = canon_ir(module)
    if (c_before != c_after) and not ret:
        raise Violation("IR changed but walker returned False")
    check_tree([module])
    if cfg["apply_recursively"]:
        # fixpoint: no pattern changes any op any more
        for op in list(module.body.walk()):
            rw = PatternRewriter(op)
            c0 = canon_ir(module)
            inner.match_and_rewrite(op, rw)
            if rw.has_done_action or canon_ir(module) != c0:
                raise Violation(f"not a fixpoint: pattern still applies to k={kind(op)} lvl={level(op)}")
    stats["orders:" + str(hash(tuple(wl.pops)) % 1000)] += 0
    return stats, tuple(wl.pops)


if __name__ == "__main__":
    n = int(sys.argv[1]); tot = collections.Counter(); fails = collections.Counter(); ex = {}; orders = set()
    for s in range(n):
        try:
            st, pops = run_case(s); tot.update(st); orders.add(hash(pops))
        except Violation as v:
            k = str(v)[:90]; fails[k] += 1; ex.setdefault(k, s)
        except Broken as b:
            k = "IRSAN " + str(b)[:80]; fails[k] += 1; ex.setdefault(k, s)
        except Exception as e:
            import traceback
            k = "EXC " + type(e).__name__ + " " + str(e).strip().split("\n")[-1][:100]; fails[k] += 1; ex.setdefault(k, s)
    print({k: v for k, v in tot.items() if not k.startswith("orders")}, "distinct pop orders", len(orders))
    for k, v in fails.most_common(): print(v, k, "seed", ex[k])
