import sys, random, collections, warnings
sys.path.insert(0, '/tmp/scratch'); warnings.simplefilter("ignore")
from corpus import ctx
from xdsl.parser import Parser
from xdsl.transforms import get_all_passes
from refsem import run, Undefined
P = get_all_passes()
RULES = '''
pdl.pattern : benefit(1) {
  %t = pdl.type
  %x = pdl.operand
  %z = pdl.attribute = 0 : i32
  %c = pdl.operation "arith.constant" {"value" = %z} -> (%t : !pdl.type)
  %cr = pdl.result 0 of %c
  %a = pdl.operation "arith.addi" (%x, %cr : !pdl.value, !pdl.value) -> (%t : !pdl.type)
  pdl.rewrite %a { pdl.replace %a with (%x : !pdl.value) }
}
pdl.pattern : benefit(1) {
  %t = pdl.type
  %x = pdl.operand
  %y = pdl.operand
  %a = pdl.operation "arith.addi" (%x, %y : !pdl.value, !pdl.value) -> (%t : !pdl.type)
  pdl.rewrite %a {
    %b = pdl.operation "arith.addi" (%y, %x : !pdl.value, !pdl.value) -> (%t : !pdl.type)
    pdl.replace %a with %b
  }
}
pdl.pattern : benefit(1) {
  %t = pdl.type
  %x = pdl.operand
  %o = pdl.attribute = 1 : i32
  %c = pdl.operation "arith.constant" {"value" = %o} -> (%t : !pdl.type)
  %cr = pdl.result 0 of %c
  %a = pdl.operation "arith.muli" (%x, %cr : !pdl.value, !pdl.value) -> (%t : !pdl.type)
  pdl.rewrite %a { pdl.replace %a with (%x : !pdl.value) }
}
'''
res = collections.Counter(); ex = {}
for seed in range(int(sys.argv[1])):
    rng = random.Random(seed)
    n = rng.randint(1, 3); env = [f"%a{i}" for i in range(n)]; lines = []
    for j in range(rng.choice([2, 4, 7])):
        v = f"%v{j}"
        r = rng.random()
        if r < 0.3: lines.append(f"{v} = arith.constant {rng.choice([0, 0, 1, 1, 2, 5])} : i32")
        else: lines.append(f"{v} = arith.{rng.choice(['addi', 'addi', 'muli', 'subi'])} {rng.choice(env)}, {rng.choice(env)} : i32")
        env.append(v)
    nret = rng.choice([1, 2]); rets = [rng.choice(env) for _ in range(nret)]
    fn = "func.func @main(" + ", ".join(f"%a{i}: i32" for i in range(n)) + ") -> (" + ", ".join(["i32"] * nret) + ") {\n  " + "\n  ".join(lines) + f"\n  func.return {', '.join(rets)} : {', '.join(['i32'] * nret)}\n}}\n"
    with_rules = rng.random() < 0.7
    text = fn + (RULES if with_rules else "")
    c = ctx(); m0 = Parser(c, fn).parse_module()
    c2 = ctx(); m = Parser(c2, text).parse_module()
    pipeline = ["eqsat-create-eclasses"] + (["convert-pdl-to-pdl-interp", "convert-pdl-interp-to-eqsat-pdl-interp", "apply-eqsat-pdl-interp"] if with_rules else []) + ["eqsat-add-costs", "eqsat-extract"]
    try:
        for pn in pipeline:
            p = P[pn]()
            (p(default=1) if pn == "eqsat-add-costs" else p()).apply(c2, m)
        m.verify()
    except Exception as e:
        k = "pipeline-failed " + type(e).__name__ + " " + str(e).strip().split("\n")[-1][:60]; res[k] += 1; ex.setdefault(k, text); continue
    for _ in range(6):
        args = [rng.choice([0, 1, 2, 0xFFFFFFFF, 0x80000000, rng.getrandbits(32)]) for _ in range(n)]
        a = run(m0, "main", args); b = run(m, "main", args)
        if a != b: res["RESULT-DIFFERS rules=%s" % with_rules] += 1; ex.setdefault("DIFF", (text, str(m), args, a, b))
        else: res["ok rules=%s" % with_rules] += 1
print(dict(res))
for k, v in ex.items(): print("====", k); print(v if isinstance(v, str) else "\n".join(map(str, v)))
