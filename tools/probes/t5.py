from xdsl.irdl import *
from xdsl.dialects.builtin import *
from xdsl.dialects.test import TestOp
from xdsl.ir import *
@irdl_op_definition
class MyOp(IRDLOperation):
    name = "my.op"
    a = var_operand_def()
    b = operand_def()
    c = opt_operand_def()
    irdl_options = (AttrSizedOperandSegments(),)
vals = TestOp(result_types=[i32]*4).results
for sizes in ([2,1,1],[1,1,1],[5,1,0],[-1,1,1],[4,1,-1], [3,1,0]):
    op = MyOp.create(operands=vals, attributes={"operandSegmentSizes": DenseArrayBase.from_list(i32, sizes)})
    try:
        op.verify(); r="verifies"
    except Exception as e:
        r=type(e).__name__+": "+str(e)[:80].replace("\n"," ")
    try:
        acc=(len(op.a), op.b is vals[sizes[0]] if 0<=sizes[0]<4 else "?", op.c)
    except Exception as e:
        acc=type(e).__name__
    print(sizes, r, acc)
