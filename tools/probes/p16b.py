import sys, warnings
sys.path.insert(0, '/tmp/scratch'); warnings.simplefilter("ignore")
from corpus import ctx
from xdsl.parser import Parser
from xdsl.transforms import get_all_passes
from refsem import run
P = get_all_passes()
def cmp(text, pn, argsets):
    c = ctx(); m0 = Parser(c, text).parse_module(); m0.verify()
    c2 = ctx(); m = Parser(c2, text).parse_module(); P[pn]()().apply(c2, m); m.verify()
    changed = str(m) != str(m0)
    for a in argsets:
        r0 = run(m0, "main", a); r1 = run(m, "main", a)
        print(pn, "changed" if changed else "unchanged", a, "OK" if r0 == r1 else f"DIFF {r0} vs {r1}")
    if any(run(m0, "main", a) != run(m, "main", a) for a in argsets): print(m)
# flatten: unused induction variables, inner trip count 3 (0..5 step 2), counting iterations via effect op
cmp('''func.func @main(%n: index) -> (index) {
  %c0 = arith.constant 0 : index
  %c1 = arith.constant 1 : index
  %c2 = arith.constant 2 : index
  %c5 = arith.constant 5 : index
  scf.for %i = %c0 to %n step %c1 {
    scf.for %j = %c0 to %c5 step %c2 {
      "test.op_with_memwrite"() : () -> ()
    }
  }
  func.return %c0 : index
}''', "scf-for-loop-flatten", [[0], [1], [3]])
cmp('''func.func @main(%n: index) -> (index) {
  %c0 = arith.constant 0 : index
  %c1 = arith.constant 1 : index
  %c2 = arith.constant 2 : index
  %c4 = arith.constant 4 : index
  scf.for %i = %c0 to %n step %c2 {
    scf.for %j = %c0 to %c4 step %c1 {
      "test.op_with_memwrite"() : () -> ()
    }
  }
  func.return %c0 : index
}''', "scf-for-loop-flatten", [[0], [1], [3], [4]])
# range folding with muli by a (possibly negative / zero) symbolic factor
cmp('''func.func @main(%k: index) -> (index) {
  %c0 = arith.constant 0 : index
  %c1 = arith.constant 1 : index
  %c4 = arith.constant 4 : index
  %r = scf.for %i = %c0 to %c4 step %c1 iter_args(%acc = %c0) -> (index) {
    %m = arith.muli %i, %k : index
    %a = arith.addi %acc, %m : index
    scf.yield %a : index
  }
  func.return %r : index
}''', "scf-for-loop-range-folding", [[2], [1], [0xFFFFFFFFFFFFFFFF]])
