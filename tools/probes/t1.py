from xdsl.context import Context
from xdsl.parser import Parser
from xdsl.dialects import get_all_dialects
import traceback
def ctx():
    c = Context(allow_unregistered=True)
    for n, f in get_all_dialects().items():
        c.register_dialect(n, f)
    return c
def tryparse(s):
    try:
        m = Parser(ctx(), s).parse_module()
        m.verify()
        print("OK", str(m)[:200].replace("\n"," | "))
    except Exception as e:
        print(type(e).__name__, str(e)[:150].replace("\n", " | "))
tryparse('"test.op"() ({ ^42: "test.op"() : () -> () }) : () -> ()')
tryparse('"test.op"() ({ "test.op"()[^42] : () -> ()\n ^42: "test.op"() : () -> () }) : () -> ()')
tryparse('{-# external_resources: {} #-}')
tryparse('%a_1 = "test.op"() : () -> i32\n %a = "test.op"() : () -> i32\n %a_2 = "test.op"() : () -> i32\n "test.use"(%a_1, %a, %a_2) : (i32, i32, i32) -> ()')
