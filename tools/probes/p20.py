import itertools, sys, collections, random
from corpus import ctx
from xdsl.parser import Parser
from xdsl.transforms.riscv_lower_parallel_mov import RISCVLowerParallelMovPass
from xdsl.utils.exceptions import DiagnosticException, PassFailedException
REGS = ["s1", "s2", "s3", "s4"]
FREE = "s10"
res = collections.Counter(); ex = {}
def sim(m, init):
    regs = dict(init)
    for op in m.body.block.ops:
        if op.name == "test.op": continue
        if op.name == "riscv.mv":
            regs[op.results[0].type.register_name.data] = regs[op.operands[0].type.register_name.data]
        elif op.name == "riscv.xor":
            regs[op.results[0].type.register_name.data] = regs[op.operands[0].type.register_name.data] ^ regs[op.operands[1].type.register_name.data]
        else:
            raise Exception("unexpected op " + op.name)
    return regs
n = int(sys.argv[1])
cases = 0
for k in range(1, n + 1):
    for dsts in itertools.permutations(REGS[:n], k):
        for srcs in itertools.product(REGS[:n], repeat=k):
            for free in (False, True):
                cases += 1
                # one SSA value per source register
                used = sorted(set(srcs))
                defs = ", ".join(f"%i{r}" for r in used)
                text = f'{defs} = "test.op"() : () -> ({", ".join(f"!riscv.reg<{r}>" for r in used)})\n'
                outs = ", ".join(f"%o{j}" for j in range(k))
                text += f'{outs} = riscv.parallel_mov {", ".join(f"%i{r}" for r in srcs)} [{", ".join(["32"] * k)}] ' + ('{free_registers = [!riscv.reg<%s>]} ' % FREE if free else '') + f': ({", ".join(f"!riscv.reg<{r}>" for r in srcs)}) -> ({", ".join(f"!riscv.reg<{r}>" for r in dsts)})\n'
                text += f'"test.op"({outs}) : ({", ".join(f"!riscv.reg<{r}>" for r in dsts)}) -> ()\n'
                c = ctx()
                m = Parser(c, text).parse_module(); m.verify()
                try:
                    RISCVLowerParallelMovPass().apply(c, m)
                except DiagnosticException as e:
                    res["pass-failed " + str(e).strip().split("\n")[-1][:40]] += 1; continue
                except Exception as e:
                    key = "CRASH " + type(e).__name__ + " " + str(e)[:40]; res[key] += 1; ex.setdefault(key, text); continue
                m.verify()
                init = {r: 100 + i for i, r in enumerate(REGS + [FREE])}
                final = sim(m, init)
                ok = all(final[d] == init[s] for s, d in zip(srcs, dsts))
                untouched = all(final[r] == init[r] for r in init if r not in dsts and not (free and r == FREE))
                # final use op operands must be typed as dsts
                last = list(m.body.block.ops)[-1]
                wired = [o.type.register_name.data for o in last.operands] == list(dsts)
                if not ok: res["WRONG-VALUES"] += 1; ex.setdefault("WRONG-VALUES", text + str(m))
                elif not untouched: res["CLOBBER"] += 1; ex.setdefault("CLOBBER", text + str(m))
                elif not wired: res["WIRING"] += 1; ex.setdefault("WIRING", text + str(m))
                else: res["ok"] += 1
print(cases, dict(res))
for k, v in ex.items(): print(k, "\n", v)
