import sys, random, collections
from xdsl.irdl import AnyOf, AllOf, AnyAttr, BaseAttr, EqAttrConstraint, ParamAttrConstraint, VarConstraint, ConstraintContext, AttrSetConstraint
from xdsl.dialects.builtin import *
from xdsl.ir import TypeAttribute, Attribute
from xdsl.utils.exceptions import PyRDLError, VerifyException
ATTRS = [i1, i32, i64, IndexType(), f32, f64, IntegerType(8, Signedness.UNSIGNED), IntegerAttr(0, i32), IntegerAttr(1, i32), IntegerAttr(1, i64), IntegerAttr(5, IndexType()),
         FloatAttr(1.0, f32), FloatAttr(1.0, f64), StringAttr("a"), StringAttr("b"), UnitAttr(), ArrayAttr([i32]), ArrayAttr([]), TensorType(i32, [2]), TensorType(f32, [2]), VectorType(i32, [2]),
         IntAttr(32), IntAttr(8), SignednessAttr(Signedness.SIGNLESS), SignednessAttr(Signedness.UNSIGNED)]
CLASSES = [IntegerType, IndexType, Float32Type, Float64Type, IntegerAttr, FloatAttr, StringAttr, UnitAttr, ArrayAttr, TensorType, VectorType, IntAttr, SignednessAttr]
ABSTRACT = [TypeAttribute]
PARAM = {IntegerType: 2, IntegerAttr: 2, FloatAttr: 2}
def gen(rng, d):
    """returns (spec, constraint) ; spec is a tuple tree"""
    r = rng.random()
    if d == 0 or r < 0.35:
        k = rng.random()
        if k < 0.15: return ("any",), AnyAttr()
        if k < 0.5: a = rng.choice(ATTRS); return ("eq", a), EqAttrConstraint(a)
        if k < 0.6:
            vs = rng.sample(ATTRS, rng.randint(2, 4)); return ("set", tuple(vs)), AttrSetConstraint.get(*vs)
        if k < 0.95: c = rng.choice(CLASSES); return ("base", c), BaseAttr(c)
        c = rng.choice(ABSTRACT); return ("base", c), BaseAttr(c)
    if r < 0.6:
        kids = [gen(rng, d - 1) for _ in range(rng.randint(2, 4))]
        return ("anyof", tuple(k[0] for k in kids)), AnyOf.get(*[k[1] for k in kids])
    if r < 0.7:
        kids = [gen(rng, d - 1) for _ in range(2)]
        c = kids[0][1] & kids[1][1]
        return ("allof", tuple(k[0] for k in kids)), c
    if r < 0.9:
        cls = rng.choice(list(PARAM)); kids = [gen(rng, d - 1) for _ in range(PARAM[cls])]
        return ("param", cls, tuple(k[0] for k in kids)), ParamAttrConstraint.get(cls, *[k[1] for k in kids])
    name = rng.choice(["T", "S"]); k = gen(rng, d - 1)
    return ("var", name, k[0]), VarConstraint(name, k[1])
def ev(spec, a, env):
    """returns list of possible envs (backtracking)"""
    t = spec[0]
    if t == "any": return [env]
    if t == "eq": return [env] if type(a) is type(spec[1]) and str(a) == str(spec[1]) else []
    if t == "set": return [env] if any(type(a) is type(v) and str(a) == str(v) for v in spec[1]) else []
    if t == "base": return [env] if isinstance(a, spec[1]) else []
    if t == "anyof":
        out = []
        for s in spec[1]: out += ev(s, a, env)
        return out
    if t == "allof":
        envs = [env]
        for s in spec[1]: envs = [e2 for e in envs for e2 in ev(s, a, e)]
        return envs
    if t == "param":
        if not isinstance(a, spec[1]): return []
        ps = a.parameters
        if len(ps) != len(spec[2]): return []
        envs = [env]
        for s, p in zip(spec[2], ps): envs = [e2 for e in envs for e2 in ev(s, p, e)]
        return envs
    if t == "var":
        if spec[1] in env: return [env] if str(env[spec[1]]) == str(a) and type(env[spec[1]]) is type(a) else []
        return [dict(e, **{spec[1]: a}) for e in ev(spec[2], a, env)]
res = collections.Counter(); ex = {}
for seed in range(int(sys.argv[1])):
    rng = random.Random(seed)
    try: spec, c = gen(rng, rng.choice([1, 2, 3]))
    except PyRDLError: res["construct-rejected"] += 1; continue
    except Exception as e:
        k = "CONSTRUCT-CRASH " + type(e).__name__ + " " + str(e)[:50]; res[k] += 1; ex.setdefault(k, seed); continue
    for a in ATTRS:
        want = bool(ev(spec, a, {}))
        try: got = c.verifies(a)
        except Exception as e:
            k = "VERIFY-CRASH " + type(e).__name__; res[k] += 1; ex.setdefault(k, (seed, spec, str(a))); continue
        if got != want:
            k = f"MISMATCH got={got} want={want}"; res[k] += 1; ex.setdefault(k, (seed, spec, str(a), repr(c)[:200]))
        else: res["ok acc" if got else "ok rej"] += 1
print(dict(res))
for k, v in ex.items(): print(k, v)
