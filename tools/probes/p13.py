import sys, random, collections
sys.path.insert(0, '/tmp/scratch')
from xdsl.dialects.test import TestOp, TestTermOp, TestPureOp, TestReadOp, TestWriteOp, TestSymbolOp
from xdsl.dialects.builtin import ModuleOp, i32, StringAttr
from xdsl.dialects import func
from xdsl.ir import Block, Region, Operation
from xdsl.context import Context
from xdsl.transforms.dead_code_elimination import DeadCodeElimination, is_trivially_dead
from xdsl.analysis.dataflow import DataFlowSolver, ProgramPoint
from xdsl.analysis.dead_code_analysis import Executable
from xdsl.analysis.liveness_analysis import Liveness, LivenessAnalysis
import collections as C
KIND = {"test.pureop": "pure", "test.op_with_memread": "read", "test.op_with_memwrite": "write", "test.op": "unknown", "test.termop": "term", "test.op_with_symbol": "symbol"}
def gen_region(rng, depth, outer, nblocks, tag):
    blocks = [Block(arg_types=[i32] * rng.choice([0, 0, 1])) for _ in range(nblocks)]
    for bi, b in enumerate(blocks):
        vals = list(outer) + list(b.args)
        for j in range(rng.choice([1, 3, 6])):
            cls = rng.choice([TestPureOp, TestPureOp, TestPureOp, TestReadOp, TestWriteOp, TestOp])
            opnds = [rng.choice(vals) for _ in range(rng.choice([0, 1, 2]))] if vals else []
            regions = []
            if depth < 1 and rng.random() < 0.15:
                regions = [gen_region(rng, depth + 1, vals, rng.choice([1, 2]), tag)]
            op = cls.create(operands=opnds, result_types=[i32] * rng.choice([0, 1, 1, 2]), regions=regions)
            op.attributes["id"] = StringAttr(f"{tag}{next(CNT)}")
            b.add_op(op); vals.extend(op.results)
        # terminator: successors to later/earlier blocks or none
        succ = []
        if nblocks > 1 and rng.random() < 0.7:
            succ = [rng.choice(blocks) for _ in range(rng.choice([1, 2]))]
        t = TestTermOp.create(operands=[rng.choice(vals)] if vals and rng.random() < 0.5 else [], successors=succ)
        t.attributes["id"] = StringAttr(f"{tag}{next(CNT)}"); b.add_op(t)
    # dead cycles across blocks: make some pure op in block i use a value defined in block j and vice versa
    return Region(blocks)
import itertools
def ref_live(module):
    """independent liveness: returns set of ids (attr 'id') of ops that must remain; and set of blocks remaining"""
    live = set()
    def reachable(region):
        if not region.blocks: return []
        seen = []; stack = [region.blocks[0]]; ids = set()
        while stack:
            b = stack.pop()
            if id(b) in ids: continue
            ids.add(id(b)); seen.append(b)
            t = b.last_op
            if t is not None and t.name == "test.termop": stack.extend(t.successors)
        return seen
    def has_observable(op):
        k = KIND.get(op.name, "unknown")
        if k in ("write", "unknown", "term", "symbol"): return True
        # pure/read ops with regions: TestPureOp has Pure trait (no recursive effects)...
        return False
    changed = True
    reach_blocks = {}
    def collect(region, acc):
        for b in reachable(region):
            acc.append(b)
            for o in b.ops:
                for r in o.regions: collect(r, acc)
    blocks = []; collect(module.body, blocks)
    ops = [o for b in blocks for o in b.ops]
    while changed:
        changed = False
        for o in ops:
            if id(o) in live: continue
            # an op nested in a dead op is dead; handled by requiring parent live
            par = o.parent_op()
            if has_observable(o) or any(id(u.operation) in live for r in o.results for u in r.uses):
                live.add(id(o)); changed = True
    # ops nested in non-live parents are removed with them
    def parent_chain_live(o):
        p = o.parent_op()
        while p is not None and not isinstance(p, ModuleOp):
            if id(p) not in live: return False
            p = p.parent_op()
        return True
    return {o.attributes["id"].data for o in ops if id(o) in live and parent_chain_live(o)}
res = C.Counter(); ex = {}
for seed in range(int(sys.argv[1])):
    rng = random.Random(seed); CNT = itertools.count()
    reg = gen_region(rng, 0, [], rng.choice([1, 2, 3, 4]), "o")
    m = ModuleOp(reg)
    # liveness of nested live... a live nested op makes its parent live? (parent pure op with live write inside): in xdsl would_be_trivially_dead(pure parent)=True -> parent removed with its write. reference: same table semantics (TestPureOp is Pure regardless of content)
    want = ref_live(m)
    try:
        DeadCodeElimination().apply(Context(), m)
    except Exception as e:
        res["dce raised " + type(e).__name__] += 1; ex.setdefault("raise", seed); continue
    got = {o.attributes["id"].data for o in m.walk() if "id" in o.attributes}
    if got != want:
        k = "DIFF removed-live=%d kept-dead=%d" % (len(want - got) > 0, len(got - want) > 0); res[k] += 1; ex.setdefault(k, (seed, sorted(want - got)[:5], sorted(got - want)[:5]))
    else: res["ok"] += 1
print(dict(res)); print(ex)
