import random, sys, collections
from corpus import ctx
from xdsl.parser import Parser
from xdsl.dialects import riscv, riscv_func
from xdsl.dialects.riscv import IntRegisterType, Registers
from xdsl.backend.riscv.register_allocation import RegisterAllocatorLivenessBlockNaive
from xdsl.backend.riscv.register_stack import RiscvRegisterStack
from xdsl.utils.exceptions import DiagnosticException
from xdsl.ir import OpResult, BlockArgument
M = (1 << 32) - 1
BIN = {"riscv.add": lambda a, b: a + b, "riscv.sub": lambda a, b: a - b, "riscv.mul": lambda a, b: a * b, "riscv.xor": lambda a, b: a ^ b,
       "riscv.and": lambda a, b: a & b, "riscv.or": lambda a, b: a | b}

def gen(rng):
    nargs = rng.randint(1, 4)
    args = [f"%a{i}: !riscv.reg<a{i}>" for i in range(nargs)]
    lines = []; vals = []
    for i in range(nargs):
        if rng.random() < 0.8:
            lines.append(f"%m{i} = riscv.mv %a{i} : (!riscv.reg<a{i}>) -> !riscv.reg"); vals.append(f"%m{i}")
    n = rng.choice([3, 6, 10, 20, 40])
    for j in range(n):
        r = rng.random()
        if r < 0.2 or not vals:
            lines.append(f"%v{j} = rv32.li {rng.choice([0, 0, 1, 7, -3, 100000])} : !riscv.reg")
        elif r < 0.3:
            lines.append(f"%v{j} = riscv.addi {rng.choice(vals)}, {rng.randint(-5, 5)} : (!riscv.reg) -> !riscv.reg")
        elif r < 0.4:
            lines.append(f"%v{j} = riscv.mv {rng.choice(vals)} : (!riscv.reg) -> !riscv.reg")
        else:
            # prefer recent or old values to vary live range lengths
            a = rng.choice(vals[-4:]) if rng.random() < 0.5 else rng.choice(vals)
            b = rng.choice(vals)
            op = rng.choice(list(BIN))
            # sometimes preallocated result
            rt = "!riscv.reg" if rng.random() < 0.9 else f"!riscv.reg<{rng.choice(['t0','t1','s1','a7'])}>"
            lines.append(f"%v{j} = {op} {a}, {b} : (!riscv.reg, !riscv.reg) -> {rt}")
            if rt != "!riscv.reg":
                lines.append(f"%w{j} = riscv.mv %v{j} : ({rt}) -> !riscv.reg"); vals.append(f"%w{j}"); continue
        vals.append(f"%v{j}")
    ret = rng.choice(vals)
    lines.append(f"%r = riscv.mv {ret} : (!riscv.reg) -> !riscv.reg<a0>")
    lines.append("riscv_func.return %r : !riscv.reg<a0>")
    return "riscv_func.func @f(" + ", ".join(args) + ") -> !riscv.reg<a0> {\n  " + "\n  ".join(lines) + "\n}\n", nargs

def regname(v):
    t = v.type
    return t.register_name.data if t.is_allocated else None

def exec_func(func, argvals, mode):
    env = {}
    blk = func.body.block
    def rd(v):
        if mode == "reg":
            n = regname(v)
            return 0 if n == "zero" else env[n]
        return env[v]
    def wr(v, x):
        x &= M
        if mode == "reg":
            n = regname(v)
            if n != "zero": env[n] = x
        else:
            env[v] = x
    for a, x in zip(blk.args, argvals): wr(a, x)
    for op in blk.ops:
        if op.name in BIN: wr(op.results[0], BIN[op.name](rd(op.operands[0]), rd(op.operands[1])))
        elif op.name == "rv32.li": wr(op.results[0], op.immediate.value.data)
        elif op.name == "riscv.addi": wr(op.results[0], rd(op.operands[0]) + op.immediate.value.data)
        elif op.name == "riscv.mv": wr(op.results[0], rd(op.operands[0]))
        elif op.name == "riscv_func.return": return [rd(o) for o in op.operands]
        else: raise Exception("unsupported " + op.name)

def check_interference(func):
    blk = func.body.block
    live = set()
    for op in reversed(list(blk.ops)):
        for r in op.results:
            rn = regname(r)
            if rn is None: return f"unallocated result of {op.name}"
            for v in live:
                if v is not r and regname(v) == rn and rn != "zero":
                    return f"result of {op.name} assigned {rn} while another value in {rn} is live"
        live.difference_update(op.results)
        live.update(op.operands)
    # args
    for a in blk.args:
        for v in live:
            if v is not a and regname(v) == regname(a): return "arg shares register with other live-in value"
    return None

def main(n):
    res = collections.Counter(); ex = {}
    for s in range(n):
        rng = random.Random(s)
        txt, nargs = gen(rng)
        c = ctx()
        m = Parser(c, txt).parse_module(); m.verify()
        func = next(o for o in m.walk() if isinstance(o, riscv_func.FuncOp))
        ref_in = [rng.choice([0, 1, 5, M, 12345, 1 << 31]) for _ in range(nargs)]
        expected = exec_func(func, ref_in, "ssa")
        pool_n = rng.choice([2, 3, 4, 6, 27])
        pool = list(reversed(IntRegisterType.allocatable_registers()))[:pool_n] if pool_n < 27 else None
        stack = RiscvRegisterStack.get(allocatable_registers=pool)
        prealloc = {id(v): regname(v) for o in func.walk() for v in o.results if regname(v)}
        try:
            RegisterAllocatorLivenessBlockNaive(stack).allocate_func(func)
        except DiagnosticException as e:
            res["alloc-failed:" + type(e).__name__] += 1; continue
        try:
            m.verify()
        except Exception as e:
            res["verify-fail"] += 1; ex.setdefault("verify-fail", s); continue
        # prealloc respected
        bad = None
        why = check_interference(func)
        if why: res["INTERFERENCE " + why[:60]] += 1; ex.setdefault("INTERFERENCE " + why[:60], s); continue
        if pool is not None:
            allowed = {r.register_name.data for r in pool} | {"zero"} | set(prealloc.values()) | {f"a{i}" for i in range(8)}
            used = {regname(v) for o in func.walk() for v in o.results}
            if not used <= allowed: res["POOL-VIOLATION " + str(sorted(used - allowed))] += 1; ex.setdefault("POOL", s); continue
        got = exec_func(func, ref_in, "reg")
        if got != expected: res["EXEC-MISMATCH"] += 1; ex.setdefault("EXEC-MISMATCH", s); continue
        res["ok"] += 1
    print(dict(res)); print(ex)
main(int(sys.argv[1]))
