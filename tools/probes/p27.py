import sys, glob, collections, warnings
sys.path.insert(0, '/tmp/scratch')
warnings.simplefilter("ignore")
from corpus import ctx
from canon import canon_ir
from xdsl.parser import Parser
from xdsl.transforms import get_all_passes
P = get_all_passes()
def run(text, names):
    c = ctx(); m = Parser(c, text).parse_module()
    for n in names: P[n]()().apply(c, m)
    # strip pattern ops
    for op in list(m.body.block.ops):
        if op.name.startswith("pdl") or op.name == "builtin.module": op.detach(); op.erase(safe_erase=False)
    P["dce"]()().apply(c, m)
    return m
res = collections.Counter()
for f in sys.argv[1:]:
    for i, ch in enumerate(open(f).read().split("// -----")):
        if "pdl.pattern" not in ch: continue
        try:
            c = ctx(); m0 = Parser(c, ch).parse_module(); m0.verify()
        except Exception as e:
            res["skip-invalid"] += 1; continue
        npat = sum(1 for o in m0.walk() if o.name == "pdl.pattern")
        try: a = run(ch, ["apply-pdl"])
        except Exception as e: res["A-failed " + type(e).__name__] += 1; continue
        try: b = run(ch, ["convert-pdl-to-pdl-interp", "apply-pdl-interp"])
        except Exception as e: res["B-failed " + type(e).__name__ + " " + str(e).strip().split("\n")[-1][:50]] += 1; print("B-failed", f, i); continue
        if canon_ir(a) == canon_ir(b): res[f"agree (npat={min(npat,2)})"] += 1
        else:
            res["DIFFER"] += 1; print("DIFFER", f, i, "\n", a, "\n", b)
print(dict(res))
