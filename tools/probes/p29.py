import sys, random, collections
from xdsl.dialects.builtin import ModuleOp, StringAttr, SymbolRefAttr, i32
from xdsl.dialects import func
from xdsl.dialects.test import TestOp
from xdsl.ir import Block, Region
from xdsl.utils.symbol_table import SymbolTable, SymbolTableCollection
from xdsl import traits
res = collections.Counter(); ex = {}
NAMES = ["a", "b", "c"]
def gen_module(rng, depth, name=None):
    ops = []
    used = set()
    for _ in range(rng.choice([1, 2, 3, 4])):
        n = rng.choice(NAMES)
        if n in used: continue
        used.add(n)
        vis = rng.choice([None, "public", "private", "nested"])
        if depth < 2 and rng.random() < 0.5:
            sub = gen_module(rng, depth + 1, n)
            if vis: sub.attributes["sym_visibility"] = StringAttr(vis)
            ops.append(sub)
        else:
            f = func.FuncOp(n, ((), ()), Region(Block([TestOp.create(), func.ReturnOp()])), visibility=vis)
            ops.append(f)
    if rng.random() < 0.5: ops.insert(rng.randrange(len(ops) + 1), TestOp.create(regions=[Region(Block([TestOp.create()]))]))
    return ModuleOp(ops, sym_name=StringAttr(name) if name else None)
def sym_name(op):
    a = op.get_attr_or_prop("sym_name"); return a.data if isinstance(a, StringAttr) else None
def is_table(op): return isinstance(op, ModuleOp)
def is_symbol(op): return isinstance(op, (ModuleOp, func.FuncOp)) and sym_name(op) is not None
def vis(op):
    a = op.get_attr_or_prop("sym_visibility"); return a.data if isinstance(a, StringAttr) else "public"
def ref_lookup_in(table, ref):
    path = [ref.root_reference.data] + [n.data for n in ref.nested_references.data]
    cur = table
    for i, n in enumerate(path):
        if i > 0 and not is_table(cur): return None
        found = None
        for o in cur.regions[0].blocks[0].ops:
            if is_symbol(o) and sym_name(o) == n: found = o; break
        if found is None: return None
        if i > 0 and vis(found) == "private": return None
        cur = found
    return cur
def nearest_table(op):
    while op is not None and not is_table(op): op = op.parent_op()
    return op
for seed in range(int(sys.argv[1])):
    rng = random.Random(seed)
    m = gen_module(rng, 0)
    try: m.verify()
    except Exception as e: res["gen-invalid"] += 1; continue
    coll = SymbolTableCollection()
    for op in m.walk():
        for _ in range(3):
            path = [rng.choice(NAMES) for _ in range(rng.choice([1, 1, 2, 3]))]
            ref = SymbolRefAttr(path[0], path[1:])
            t = nearest_table(op)
            want = ref_lookup_in(t, ref)
            got1 = SymbolTable.lookup_nearest_symbol_from(op, ref)
            got2 = coll.lookup_nearest_symbol_from(op, ref)
            try: got3 = traits.SymbolTable.lookup_symbol(op, ref)
            except Exception as e: got3 = "EXC " + type(e).__name__
            for nm, g in (("direct", got1), ("cached", got2), ("trait", got3)):
                if g is not want:
                    k = f"{nm} MISMATCH (want {'None' if want is None else 'op'} got {'None' if g is None else ('op' if not isinstance(g, str) else g)})"; res[k] += 1; ex.setdefault(k, (seed, str(ref)))
                else: res[nm + " ok"] += 1
            if len(path) == 1:
                g = SymbolTable.lookup_nearest_symbol_from(op, path[0])
                if g is not want: res["flat-str MISMATCH"] += 1
print(dict(res)); print(ex)
