import itertools, random, collections
from xdsl.utils.worklist import Worklist
from xdsl.utils.disjoint_set import IntDisjointSet, DisjointSet
from xdsl.utils.scoped_dict import ScopedDict
res = collections.Counter(); ex = {}
# Worklist exhaustive: ops push(x), pop, remove(x), bool over universe {0,1,2}, length<=6
U = [0, 1, 2]
OPS = [("push", x) for x in U] + [("remove", x) for x in U] + [("pop", None), ("bool", None)]
def run_wl(seq):
    w = Worklist(); model = []
    for op, x in seq:
        if op == "push":
            w.push(x)
            if x not in model: model.append(x)
        elif op == "remove":
            w.remove(x)
            if x in model: model.remove(x)
        elif op == "pop":
            try: got = w.pop()
            except IndexError: got = "IndexError"
            want = model.pop() if model else "IndexError"
            if got != want: return f"pop got {got} want {want}"
        else:
            if bool(w) != bool(model): return f"bool got {bool(w)} want {bool(model)}"
    return None
n = 0
for L in range(1, 7):
    for seq in itertools.product(OPS, repeat=L):
        n += 1
        r = run_wl(seq)
        if r: res["WL " + r] += 1; ex.setdefault("WL", seq)
print("worklist sequences", n)
# DisjointSet exhaustive over 4 elements, sequences of union/union_left/find/connected up to length 5
E = [0, 1, 2, 3]
DOPS = [(k, a, b) for k in ("union", "union_left", "connected") for a in E for b in E] + [("find", a, None) for a in E]
def run_ds(seq, generic):
    d = DisjointSet(["a", "b", "c", "d"]) if generic else IntDisjointSet(size=4)
    conv = (lambda i: "abcd"[i]) if generic else (lambda i: i)
    part = {i: {i} for i in E}
    for k, a, b in seq:
        if k in ("union", "union_left"):
            rep_before = d.find(conv(a)) if generic else d[a]
            got = getattr(d, k)(conv(a), conv(b))
            want = part[a] is not part[b]
            if got != want: return f"{k} returned {got} want {want}"
            if want:
                m = part[a] | part[b]
                for x in m: part[x] = m
            if k == "union_left":
                rep_after = d.find(conv(a)) if generic else d[a]
                if rep_after != rep_before: return "union_left changed left representative"
        elif k == "connected":
            if d.connected(conv(a), conv(b)) != (part[a] is part[b]): return "connected wrong"
        else:
            r = d.find(conv(a)) if generic else d[a]
            ri = "abcd".index(r) if generic else r
            if ri not in part[a]: return "find returned non-member"
        # global: reps consistent
        for x in E:
            for y in E:
                rx = d.find(conv(x)) if generic else d[x]; ry = d.find(conv(y)) if generic else d[y]
                if (rx == ry) != (part[x] is part[y]): return "partition mismatch"
    return None
n = 0
for L in range(1, 4):
    for seq in itertools.product(DOPS, repeat=L):
        n += 1
        for g in (False, True):
            r = run_ds(seq, g)
            if r: res["DS " + r] += 1; ex.setdefault("DS", seq)
print("disjoint set sequences", n)
# ScopedDict: 3 scopes chain, keys {k1,k2}, values {None, 0, "", 1}
VALS = [None, 0, "", 1, False]
KEYS = ["k1", "k2"]
n = 0
for assign in itertools.product([("unset",)] + [("set", v) for v in VALS], repeat=6):  # (scope0.k1, scope0.k2, scope1.k1, ...)
    n += 1
    s0 = ScopedDict(); s1 = ScopedDict(s0); s2 = ScopedDict(s1)
    scopes = [s0, s1, s2]; model = [{}, {}, {}]
    for i, a in enumerate(assign):
        sc, k = divmod(i, 2)
        if a[0] == "set": scopes[sc][KEYS[k]] = a[1]; model[sc][KEYS[k]] = a[1]
    for depth in range(3):
        for k in KEYS:
            want = "MISSING"
            for sc in range(depth, -1, -1):
                if k in model[sc]: want = model[sc][k]; break
            sd = scopes[depth]
            try: g1 = sd[k]
            except KeyError: g1 = "MISSING"
            g2 = sd.get(k, "DEFAULT"); w2 = "DEFAULT" if want == "MISSING" else want
            g3 = k in sd
            if not (g1 is want or g1 == want and type(g1) == type(want)): res["SD getitem"] += 1; ex.setdefault("SDg", assign)
            if not (g2 is w2 or (g2 == w2 and type(g2) == type(w2))): res[f"SD get wrong (want {w2!r} got {g2!r})"] += 1; ex.setdefault("SDget", assign)
            if g3 != (want != "MISSING"): res["SD contains"] += 1
print("scoped dict configs", n)
print(dict(res)); print(ex)
