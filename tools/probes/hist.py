"""Prototype: random IR-mutation histories with whole-tree invariant check after each step."""
import random, sys, traceback, collections
from xdsl.ir import Block, Region, Operation, SSAValue, OpResult, BlockArgument
from xdsl.dialects.test import TestOp, TestTermOp
from xdsl.dialects.builtin import i32, i64, f32, IntegerAttr, ModuleOp
from xdsl.rewriter import Rewriter, InsertPoint, BlockInsertPoint
from irsan import check_tree, Broken

TYPES = [i32, i64, f32]


class World:
    def __init__(self, rng):
        self.rng = rng
        self.nodes = {}      # id -> node (ops, blocks, regions) alive
        self.erased = set()  # ids

    def add(self, n):
        if n is None:
            return
        self._add_rec(n)

    def _add_rec(self, n):
        if id(n) in self.nodes:
            return
        self.nodes[id(n)] = n
        if isinstance(n, Operation):
            for r in n.regions:
                self._add_rec(r)
        elif isinstance(n, Region):
            b = n._first_block
            k = 0
            while b is not None and k < 10000:
                self._add_rec(b); b = b._next_block; k += 1
        elif isinstance(n, Block):
            o = n._first_op
            k = 0
            while o is not None and k < 100000:
                self._add_rec(o); o = o._next_op; k += 1

    def mark_erased(self, n):
        # n and everything nested
        stack = [n]
        while stack:
            x = stack.pop()
            self.erased.add(id(x))
            self.nodes.pop(id(x), None)
            if isinstance(x, Operation):
                stack.extend(x.regions)
            elif isinstance(x, Region):
                stack.extend(list(x.blocks))
            elif isinstance(x, Block):
                stack.extend(list(x.ops))

    def collect(self, n):
        out = []
        stack = [n]
        while stack:
            x = stack.pop(); out.append(x)
            if isinstance(x, Operation): stack.extend(x.regions)
            elif isinstance(x, Region): stack.extend(list(x.blocks))
            elif isinstance(x, Block): stack.extend(list(x.ops))
        return out

    def drop(self, nodes):
        for x in nodes:
            self.erased.add(id(x)); self.nodes.pop(id(x), None)

    def rescan(self):
        for n in list(self.nodes.values()):
            if isinstance(n, Operation):
                for r in n.regions: self._add_rec(r)
            elif isinstance(n, Region):
                for b in n.blocks: self._add_rec(b)
            elif isinstance(n, Block):
                for o in n.ops: self._add_rec(o)

    def roots(self):
        return [n for n in self.nodes.values() if n.parent is None]

    def ops(self): return [n for n in self.nodes.values() if isinstance(n, Operation)]
    def blocks(self): return [n for n in self.nodes.values() if isinstance(n, Block)]
    def regions(self): return [n for n in self.nodes.values() if isinstance(n, Region)]
    def values(self):
        vs = []
        for n in self.nodes.values():
            if isinstance(n, Operation): vs.extend(n.results)
            elif isinstance(n, Block): vs.extend(n.args)
        return vs

    def pick(self, xs):
        return self.rng.choice(xs) if xs else None


def new_op(w, allow_succ=True):
    rng = w.rng
    vals = w.values()
    nopnd = rng.choice([0, 0, 1, 2, 3])
    operands = [rng.choice(vals) for _ in range(nopnd)] if vals else []
    nres = rng.choice([0, 1, 1, 2])
    regions = []
    if rng.random() < 0.2:
        nb = rng.choice([0, 1, 2])
        regions = [Region([Block(arg_types=[rng.choice(TYPES) for _ in range(rng.choice([0, 1, 2]))]) for _ in range(nb)])]
    succ = []
    if allow_succ and rng.random() < 0.2 and w.blocks():
        succ = [rng.choice(w.blocks()) for _ in range(rng.choice([1, 2]))]
        op = TestTermOp.create(operands=operands, result_types=[rng.choice(TYPES) for _ in range(nres)], successors=succ, regions=regions)
    else:
        op = TestOp.create(operands=operands, result_types=[rng.choice(TYPES) for _ in range(nres)], regions=regions)
    w.add(op)
    return op


def step(w):
    """Perform one random API call. Returns (name, outcome)."""
    rng = w.rng
    ops, blocks, regions, vals = w.ops(), w.blocks(), w.regions(), w.values()
    detached_ops = [o for o in ops if o.parent is None]
    attached_ops = [o for o in ops if o.parent is not None]
    detached_blocks = [b for b in blocks if b.parent is None]
    attached_blocks = [b for b in blocks if b.parent is not None]
    detached_regions = [r for r in regions if r.parent is None]
    choice = rng.choice(API)
    return choice.__name__, choice(w, rng, ops, blocks, regions, vals, detached_ops, attached_ops, detached_blocks, attached_blocks, detached_regions)


class Skip(Exception):
    pass


def need(x):
    if x is None or x == []:
        raise Skip()
    return x

# --- API actions. Each returns objects to add (or None). They may raise (precondition errors).

def a_new_op(w, rng, ops, blocks, *a): new_op(w)
def a_new_block(w, rng, *a): w.add(Block(arg_types=[rng.choice(TYPES) for _ in range(rng.choice([0, 1, 2]))]))
def a_new_region(w, rng, *a): w.add(Region())
def a_block_add_op(w, rng, ops, blocks, regions, vals, dops, aops, *a):
    need(blocks); op = rng.choice(dops) if dops and rng.random() < 0.7 else new_op(w)
    rng.choice(blocks).add_op(op)
def a_block_add_ops(w, rng, ops, blocks, *a):
    need(blocks); rng.choice(blocks).add_ops([new_op(w) for _ in range(rng.choice([0, 1, 3]))])
def a_insert_op_before(w, rng, ops, blocks, regions, vals, dops, aops, *a):
    need(aops); tgt = rng.choice(aops); op = rng.choice(dops) if dops and rng.random() < 0.7 else new_op(w)
    (tgt.parent if rng.random() < 0.9 else rng.choice(blocks)).insert_op_before(op, tgt)
def a_insert_op_after(w, rng, ops, blocks, regions, vals, dops, aops, *a):
    need(aops); tgt = rng.choice(aops); op = rng.choice(dops) if dops and rng.random() < 0.7 else new_op(w)
    (tgt.parent if rng.random() < 0.9 else rng.choice(blocks)).insert_op_after(op, tgt)
def a_insert_ops_before(w, rng, ops, blocks, regions, vals, dops, aops, *a):
    need(aops); tgt = rng.choice(aops); tgt.parent.insert_ops_before([new_op(w) for _ in range(rng.choice([0, 2, 3]))], tgt)
def a_insert_ops_after(w, rng, ops, blocks, regions, vals, dops, aops, *a):
    need(aops); tgt = rng.choice(aops); tgt.parent.insert_ops_after([new_op(w) for _ in range(rng.choice([0, 2, 3]))], tgt)
def a_detach_op(w, rng, ops, blocks, regions, vals, dops, aops, *a):
    need(aops); op = rng.choice(aops)
    if rng.random() < 0.5: op.detach()
    else: op.parent.detach_op(op)
def a_block_erase_op(w, rng, ops, blocks, regions, vals, dops, aops, *a):
    need(aops); op = rng.choice(aops); blk = op.parent; safe = rng.random() < 0.5
    _pre = w.collect(op); blk.erase_op(op, safe_erase=safe); w.drop(_pre)
def a_split_before(w, rng, ops, blocks, regions, vals, dops, aops, *a):
    need(aops); op = rng.choice(aops)
    w.add(op.parent.split_before(op, arg_types=[rng.choice(TYPES) for _ in range(rng.choice([0, 1]))]))
def a_insert_arg(w, rng, ops, blocks, *a):
    need(blocks); b = rng.choice(blocks); b.insert_arg(rng.choice(TYPES), rng.randint(0, len(b.args) + (1 if rng.random() < 0.05 else 0)))
def a_erase_arg(w, rng, ops, blocks, *a):
    bs = [b for b in blocks if b.args]; need(bs); b = rng.choice(bs); arg = rng.choice(b.args)
    (b if rng.random() < 0.95 else rng.choice(blocks)).erase_arg(arg, safe_erase=rng.random() < 0.5)
def a_set_operands(w, rng, ops, blocks, regions, vals, *a):
    need(ops); need(vals); op = rng.choice(ops); op.operands = [rng.choice(vals) for _ in range(rng.choice([0, 1, 2, 3]))]
def a_set_operand_i(w, rng, ops, blocks, regions, vals, *a):
    os_ = [o for o in ops if len(o.operands)]; need(os_); need(vals); op = rng.choice(os_)
    op.operands[rng.randrange(len(op.operands))] = rng.choice(vals)
def a_set_successors(w, rng, ops, blocks, *a):
    need(ops); need(blocks); op = rng.choice(ops); op.successors = [rng.choice(blocks) for _ in range(rng.choice([0, 1, 2]))]
def a_set_successor_i(w, rng, ops, blocks, *a):
    os_ = [o for o in ops if len(o.successors)]; need(os_); op = rng.choice(os_)
    op.successors[rng.randrange(len(op.successors))] = rng.choice(blocks)
def a_add_region(w, rng, ops, blocks, regions, vals, dops, aops, dblocks, ablocks, dregions):
    need(ops); r = rng.choice(dregions) if dregions and rng.random() < 0.7 else Region(); w.add(r)
    op = rng.choice(ops)
    if r.is_ancestor(op): raise Skip()
    op.add_region(r)
def a_detach_region(w, rng, ops, *a):
    os_ = [o for o in ops if o.regions]; need(os_); op = rng.choice(os_)
    if rng.random() < 0.5: op.detach_region(rng.randrange(len(op.regions)))
    else: op.detach_region(rng.choice(op.regions))
def a_op_erase(w, rng, ops, blocks, regions, vals, dops, *a):
    need(dops); op = rng.choice(dops); _pre = w.collect(op); op.erase(safe_erase=rng.random() < 0.5); w.drop(_pre)
def a_op_clone(w, rng, ops, *a):
    need(ops); w.add(rng.choice(ops).clone())
def a_region_add_block(w, rng, ops, blocks, regions, vals, dops, aops, dblocks, *a):
    need(regions); b = rng.choice(dblocks) if dblocks and rng.random() < 0.7 else Block(); w.add(b)
    rng.choice(regions).add_block(b)
def a_region_add_blocks(w, rng, ops, blocks, regions, *a):
    need(regions); bs = [Block() for _ in range(rng.choice([0, 2, 3]))]; [w.add(b) for b in bs]
    rng.choice(regions).add_block(bs)
def a_insert_block_before(w, rng, ops, blocks, regions, vals, dops, aops, dblocks, ablocks, *a):
    need(ablocks); t = rng.choice(ablocks); b = rng.choice(dblocks) if dblocks and rng.random() < 0.7 else Block(); w.add(b)
    t.parent.insert_block_before(b, t)
def a_insert_block_after(w, rng, ops, blocks, regions, vals, dops, aops, dblocks, ablocks, *a):
    need(ablocks); t = rng.choice(ablocks); b = rng.choice(dblocks) if dblocks and rng.random() < 0.7 else Block(); w.add(b)
    t.parent.insert_block_after(b, t)
def a_insert_block_idx(w, rng, ops, blocks, regions, vals, dops, aops, dblocks, *a):
    need(regions); r = rng.choice(regions); b = rng.choice(dblocks) if dblocks and rng.random() < 0.7 else Block(); w.add(b)
    r.insert_block(b, rng.randint(0, len(r.blocks)))
def a_detach_block(w, rng, ops, blocks, regions, vals, dops, aops, dblocks, ablocks, *a):
    need(ablocks); b = rng.choice(ablocks)
    if rng.random() < 0.5: b.parent.detach_block(b)
    else: b.parent.detach_block(b.parent.get_block_index(b))
def a_erase_block(w, rng, ops, blocks, regions, vals, dops, aops, dblocks, ablocks, *a):
    need(ablocks); b = rng.choice(ablocks); _pre = w.collect(b); b.parent.erase_block(b, safe_erase=rng.random() < 0.5); w.drop(_pre)
def a_move_blocks(w, rng, ops, blocks, regions, *a):
    need(regions); src = rng.choice(regions); dst = rng.choice(regions)
    if src.is_ancestor(dst) and src is not dst: raise Skip()
    src.move_blocks(dst)
def a_move_blocks_before(w, rng, ops, blocks, regions, vals, dops, aops, dblocks, ablocks, *a):
    need(regions); need(ablocks); src = rng.choice(regions); t = rng.choice(ablocks)
    if src.is_ancestor(t) and t.parent is not src: raise Skip()
    src.move_blocks_before(t)
def a_region_clone_into(w, rng, ops, blocks, regions, *a):
    need(regions); src = rng.choice(regions); dst = rng.choice(regions)
    if dst is src or src.is_ancestor(dst): raise Skip()
    src.clone_into(dst, rng.randint(0, len(dst.blocks)) if rng.random() < 0.7 else None)
def a_rauw(w, rng, ops, blocks, regions, vals, *a):
    need(vals); a_, b_ = rng.choice(vals), rng.choice(vals); a_.replace_all_uses_with(b_)
def a_ruwi(w, rng, ops, blocks, regions, vals, *a):
    need(vals); a_, b_ = rng.choice(vals), rng.choice(vals); a_.replace_uses_with_if(b_, lambda u: u.index % 2 == 0)
def a_rw_erase_op(w, rng, ops, *a):
    need(ops); op = rng.choice(ops); _pre = w.collect(op); Rewriter.erase_op(op, safe_erase=rng.random() < 0.5); w.drop(_pre)
def a_rw_replace_op(w, rng, ops, blocks, regions, vals, dops, aops, *a):
    need(aops); op = rng.choice(aops); k = rng.choice([0, 1, 2]); new = [new_op(w, allow_succ=False) for _ in range(k)]
    mode = rng.random()
    if mode < 0.4: nr = None
    else:
        nr = [rng.choice([None] + vals) for _ in op.results]
    _pre = w.collect(op); Rewriter.replace_op(op, new, nr, safe_erase=rng.random() < 0.5); w.drop(_pre)
def a_rw_new_type(w, rng, ops, blocks, regions, vals, *a):
    need(vals); Rewriter.replace_value_with_new_type(rng.choice(vals), rng.choice(TYPES))
def a_rw_inline_block(w, rng, ops, blocks, regions, vals, dops, aops, *a):
    need(blocks); src = rng.choice(blocks); dst = rng.choice(blocks)
    if src is dst or src.is_ancestor(dst): raise Skip()
    ip = InsertPoint.at_end(dst) if not list(dst.ops) or rng.random() < 0.4 else InsertPoint.before(rng.choice(list(dst.ops)))
    av = () if rng.random() < 0.5 or not vals else [rng.choice(vals) for _ in src.args]
    if any(isinstance(v, BlockArgument) and v.block is src for v in av): raise Skip()
    Rewriter.inline_block(src, ip, av); w.drop([src])
    w.rescan()
def a_rw_insert_block(w, rng, ops, blocks, regions, vals, dops, aops, dblocks, ablocks, *a):
    need(regions); b = rng.choice(dblocks) if dblocks and rng.random() < 0.7 else Block(); w.add(b)
    r = rng.choice(regions)
    bip = BlockInsertPoint.at_end(r) if not ablocks or rng.random() < 0.3 else rng.choice([BlockInsertPoint.before, BlockInsertPoint.after])(rng.choice(ablocks))
    Rewriter.insert_block(b, bip)
def a_rw_insert_op(w, rng, ops, blocks, regions, vals, dops, aops, *a):
    need(blocks); b = rng.choice(blocks)
    ip = InsertPoint.at_end(b) if not list(b.ops) or rng.random() < 0.3 else rng.choice([InsertPoint.before, InsertPoint.after])(rng.choice(list(b.ops)))
    Rewriter.insert_op([new_op(w) for _ in range(rng.choice([1, 2]))] if rng.random() < 0.5 else new_op(w), ip)
def a_rw_move_region_contents(w, rng, ops, blocks, regions, *a):
    need(regions); w.add(Rewriter.move_region_contents_to_new_regions(rng.choice(regions)))
def a_rw_inline_region(w, rng, ops, blocks, regions, vals, dops, aops, dblocks, ablocks, *a):
    need(regions); r = rng.choice(regions); dst = rng.choice(regions)
    bip = BlockInsertPoint.at_end(dst) if not ablocks or rng.random() < 0.4 else BlockInsertPoint.before(rng.choice(ablocks))
    if r is bip.region or r.is_ancestor(bip.region): raise Skip()
    Rewriter.inline_region(r, bip)
def a_val_erase(w, rng, ops, blocks, regions, vals, *a):
    need(vals); rng.choice(vals).erase(safe_erase=rng.random() < 0.7)

API = [v for k, v in list(globals().items()) if k.startswith("a_")]


def run(seed, nsteps):
    rng = random.Random(seed)
    w = World(rng)
    m = ModuleOp([])
    w.add(m)
    stats = collections.Counter()
    log = []
    for i in range(nsteps):
        try:
            name, _ = step(w)
            outcome = "ok"
        except Skip:
            stats["skip"] += 1
            continue
        except Broken:
            raise
        except (ValueError, AssertionError, IndexError, NotImplementedError, KeyError, StopIteration) as e:
            name = [f.name for f in traceback.extract_tb(e.__traceback__) if f.name.startswith('a_')][-1]
            outcome = "raise:" + type(e).__name__
            w.rescan()
            try:
                check_tree(w.roots())
            except (Broken, RecursionError) as b:
                stats["NONATOMIC " + name + " -> " + str(b)[:50]] += 1
                return None, stats
        log.append((name, outcome))
        w.rescan()
        stats[name + ":" + outcome.split(":")[0]] += 1
        try:
            st = check_tree(w.roots())
        except Broken as b:
            return dict(seed=seed, step=i, api=name, outcome=outcome, broken=str(b), tail=log[-6:]), stats
        except RecursionError:
            return dict(seed=seed, step=i, api=name, outcome=outcome, broken="RecursionError in walk (cyclic tree?)", tail=log[-6:]), stats
    return None, stats


if __name__ == "__main__":
    n = int(sys.argv[1]) if len(sys.argv) > 1 else 200
    steps = int(sys.argv[2]) if len(sys.argv) > 2 else 150
    tot = collections.Counter(); fails = collections.Counter(); ex = {}
    for s in range(n):
        try:
            f, st = run(s, steps)
        except Exception as e:
            f = dict(seed=s, broken="HARNESS " + type(e).__name__ + ": " + str(e)[:80], api="?", outcome="?"); st = {}
            import traceback as tb; ex.setdefault("HARNESS", tb.format_exc())
        tot.update(st)
        if f:
            k = (f["api"], f["outcome"], f["broken"][:70])
            fails[k] += 1; ex.setdefault(k, f)
    for k, v in fails.most_common(): print(v, k, ex[k].get("seed"), ex[k].get("step"))
    print(sum(v for k, v in tot.items()), "steps;", len([k for k in tot if k.endswith(':ok')]), "apis ok")
    if "HARNESS" in ex: print(ex["HARNESS"])
