"""Prototype reference semantics (independent of xdsl.interpreters / folders) for func/arith/cf/scf/memref subset.
Integers are unsigned bit patterns; POISON marks undefined values; UB raises Undefined."""
import math, struct
from xdsl.dialects import arith, func, scf, cf, memref, builtin
from xdsl.dialects.builtin import IntegerType, IndexType, Float32Type, Float64Type, Float16Type, IntegerAttr, FloatAttr, ModuleOp
from xdsl.ir import Operation, Block, SSAValue

INDEX_W = 64


class Undefined(Exception):
    """original program has UB / uses poison observably on this input -> input excluded"""


class Unsupported(Exception):
    pass


class StepLimit(Exception):
    pass


POISON = ("poison",)


def width(t):
    if isinstance(t, IntegerType): return t.width.data
    if isinstance(t, IndexType): return INDEX_W
    raise Unsupported(f"width of {t}")


def U(x, w): return x & ((1 << w) - 1)
def S(x, w):
    x &= (1 << w) - 1
    return x - (1 << w) if w and x >> (w - 1) else x


def fround(x, t):
    if isinstance(t, Float64Type): return x
    if isinstance(t, Float32Type):
        try: return struct.unpack("<f", struct.pack("<f", x))[0]
        except OverflowError: return math.copysign(math.inf, x)
    if isinstance(t, Float16Type):
        try: return struct.unpack("<e", struct.pack("<e", x))[0]
        except OverflowError: return math.copysign(math.inf, x)
    raise Unsupported(f"float type {t}")


def fdiv(a, b):
    if math.isnan(a) or math.isnan(b): return math.nan
    if b == 0:
        if a == 0: return math.nan
        return math.copysign(math.inf, a) * math.copysign(1.0, b)
    if math.isinf(a) and math.isinf(b): return math.nan
    return a / b


def fmul(a, b):
    try: return a * b
    except OverflowError: return math.copysign(math.inf, a) * math.copysign(1, b)


INT_BIN = {
    "arith.addi": lambda a, b, w: U(a + b, w), "arith.subi": lambda a, b, w: U(a - b, w), "arith.muli": lambda a, b, w: U(a * b, w),
    "arith.andi": lambda a, b, w: a & b, "arith.ori": lambda a, b, w: a | b, "arith.xori": lambda a, b, w: a ^ b,
    "arith.shli": lambda a, b, w: POISON if b >= w else U(a << b, w),
    "arith.shrui": lambda a, b, w: POISON if b >= w else a >> b,
    "arith.shrsi": lambda a, b, w: POISON if b >= w else U(S(a, w) >> b, w),
    "arith.minsi": lambda a, b, w: U(min(S(a, w), S(b, w)), w), "arith.maxsi": lambda a, b, w: U(max(S(a, w), S(b, w)), w),
    "arith.minui": lambda a, b, w: min(a, b), "arith.maxui": lambda a, b, w: max(a, b),
}


def _tdiv(a, b):
    q = abs(a) // abs(b)
    return q if (a < 0) == (b < 0) else -q


def int_div(name, a, b, w):
    sa, sb = S(a, w), S(b, w)
    if name in ("arith.divui", "arith.remui", "arith.ceildivui"):
        if b == 0: raise Undefined("division by zero")
        return {"arith.divui": a // b, "arith.remui": a % b, "arith.ceildivui": -((-a) // b)}[name] & ((1 << w) - 1)
    if sb == 0: raise Undefined("division by zero")
    if name != "arith.remsi" and sa == -(1 << (w - 1)) and sb == -1: raise Undefined("signed division overflow")
    if name == "arith.divsi": return U(_tdiv(sa, sb), w)
    if name == "arith.remsi": return U(sa - sb * _tdiv(sa, sb), w)
    if name == "arith.floordivsi": return U(sa // sb, w)
    if name == "arith.ceildivsi": return U(-((-sa) // sb), w)
    raise Unsupported(name)


CMPI = {0: lambda a, b, w: a == b, 1: lambda a, b, w: a != b, 2: lambda a, b, w: S(a, w) < S(b, w), 3: lambda a, b, w: S(a, w) <= S(b, w),
        4: lambda a, b, w: S(a, w) > S(b, w), 5: lambda a, b, w: S(a, w) >= S(b, w), 6: lambda a, b, w: a < b, 7: lambda a, b, w: a <= b,
        8: lambda a, b, w: a > b, 9: lambda a, b, w: a >= b}


def cmpf(p, x, y):
    un = math.isnan(x) or math.isnan(y)
    base = {1: x == y, 2: x > y, 3: x >= y, 4: x < y, 5: x <= y, 6: x != y}
    if p == 0: return False
    if p == 15: return True
    if p == 7: return not un
    if p == 14: return un
    if 1 <= p <= 6: return (not un) and base[p]
    return un or base[p - 7]


class Machine:
    def __init__(self, module, step_limit=200000):
        self.module = module
        self.funcs = {o.sym_name.data: o for o in module.walk() if isinstance(o, func.FuncOp)}
        self.log = []       # ordered observable effects
        self.steps = 0
        self.step_limit = step_limit
        self.mem = {}       # memref id -> list

    def call(self, name, args):
        f = self.funcs[name]
        if not f.body.blocks:
            self.log.append(("extcall", name, tuple(self._obs(a) for a in args)))
            return tuple(0 if isinstance(t, (IntegerType, IndexType)) else 0.0 for t in f.function_type.outputs.data)
        kind, vals = self.run_region(f.body, args, {})
        return vals

    def _obs(self, v):
        if v is POISON: raise Undefined("poison observed")
        if isinstance(v, float): return ("f", "nan") if math.isnan(v) else ("f", struct.pack("<d", v))
        return v

    def get(self, env, v):
        return env[v]

    def run_region(self, region, args, outer_env):
        """Runs a (possibly multi-block) region; returns the operands of the terminating return/yield-like op."""
        env = dict(outer_env)
        block = region.blocks.first
        bargs = list(args)
        while True:
            for a, x in zip(block.args, bargs, strict=True): env[a] = x
            nxt = None
            for op in block.ops:
                self.steps += 1
                if self.steps > self.step_limit: raise StepLimit()
                r = self.run_op(op, env)
                if isinstance(r, tuple) and r and r[0] == "__term__":
                    return r[1], r[2]
                if isinstance(r, tuple) and r and r[0] == "__br__":
                    nxt = r; break
            if nxt is None: raise Unsupported("block without terminator")
            block, bargs = nxt[1], nxt[2]

    def run_op(self, op, env):
        n = op.name
        g = lambda v: env[v]
        def setr(*vals):
            for r, x in zip(op.results, vals, strict=True): env[r] = x
        if n == "arith.constant":
            v = op.value
            if isinstance(v, IntegerAttr): setr(U(v.value.data, width(op.result.type)))
            elif isinstance(v, FloatAttr): setr(v.value.data)
            else: raise Unsupported("constant kind")
            return
        if n in INT_BIN or n in ("arith.divui", "arith.divsi", "arith.remui", "arith.remsi", "arith.floordivsi", "arith.ceildivsi", "arith.ceildivui"):
            a, b = g(op.operands[0]), g(op.operands[1]); w = width(op.results[0].type)
            if n in INT_BIN:
                if a is POISON or b is POISON: setr(POISON)
                else: setr(INT_BIN[n](a, b, w))
            else:
                if a is POISON or b is POISON: raise Undefined("poison in division")
                setr(int_div(n, a, b, w))
            return
        if n in ("arith.addf", "arith.subf", "arith.mulf", "arith.divf", "arith.maximumf", "arith.minimumf"):
            a, b = g(op.operands[0]), g(op.operands[1]); t = op.results[0].type
            if a is POISON or b is POISON: setr(POISON); return
            if n == "arith.addf": r = a + b
            elif n == "arith.subf": r = a - b
            elif n == "arith.mulf": r = fmul(a, b)
            elif n == "arith.divf": r = fdiv(a, b)
            elif n == "arith.maximumf":
                r = math.nan if math.isnan(a) or math.isnan(b) else (max(a, b) if a != b else (a if math.copysign(1, a) > 0 else b))
            else:
                r = math.nan if math.isnan(a) or math.isnan(b) else (min(a, b) if a != b else (a if math.copysign(1, a) < 0 else b))
            setr(fround(r, t)); return
        if n == "arith.negf":
            a = g(op.operands[0]); setr(POISON if a is POISON else -a); return
        if n == "arith.cmpi":
            a, b = g(op.operands[0]), g(op.operands[1]); w = width(op.operands[0].type)
            setr(POISON if a is POISON or b is POISON else int(CMPI[op.predicate.value.data](a, b, w))); return
        if n == "arith.cmpf":
            a, b = g(op.operands[0]), g(op.operands[1])
            setr(POISON if a is POISON or b is POISON else int(cmpf(op.predicate.value.data, a, b))); return
        if n == "arith.select":
            c, a, b = (g(o) for o in op.operands)
            if c is POISON: setr(POISON)
            else: setr(a if c else b)
            return
        if n in ("arith.extsi", "arith.extui", "arith.trunci", "arith.index_cast", "arith.index_castui"):
            a = g(op.operands[0]); wi, wo = width(op.operands[0].type), width(op.results[0].type)
            if a is POISON: setr(POISON); return
            if n in ("arith.extsi", "arith.index_cast"): setr(U(S(a, wi), wo))
            else: setr(U(a, wo))
            return
        if n == "func.return": return ("__term__", "return", [g(o) for o in op.operands])
        if n == "scf.yield": return ("__term__", "yield", [g(o) for o in op.operands])
        if n == "scf.condition": return ("__term__", "condition", [g(o) for o in op.operands])
        if n == "func.call":
            setr(*self.call(op.callee.root_reference.data, [g(o) for o in op.operands])); return
        if n == "cf.br": return ("__br__", op.successors[0], [g(o) for o in op.operands])
        if n == "cf.cond_br":
            c = g(op.operands[0])
            if c is POISON: raise Undefined("branch on poison")
            nt = len(op.then_arguments)
            return ("__br__", op.successors[0], [g(o) for o in op.then_arguments]) if c else ("__br__", op.successors[1], [g(o) for o in op.else_arguments])
        if n == "scf.if":
            c = g(op.operands[0])
            if c is POISON: raise Undefined("branch on poison")
            reg = op.true_region if c else op.false_region
            if not reg.blocks:
                setr(); return
            kind, vals = self.run_region(reg, [], env)
            setr(*vals); return
        if n == "scf.for":
            lb, ub, step = g(op.lb), g(op.ub), g(op.step); w = width(op.lb.type)
            if POISON in (lb, ub, step): raise Undefined("poison loop bound")
            if S(step, w) <= 0: raise Undefined("non-positive step")
            carried = [g(o) for o in op.iter_args]
            i = S(lb, w)
            while i < S(ub, w):
                kind, carried = self.run_region(op.body, [U(i, w)] + carried, env)
                i += S(step, w)
            setr(*carried); return
        if n == "scf.while":
            carried = [g(o) for o in op.operands]
            while True:
                kind, vals = self.run_region(op.before_region, carried, env)
                c, rest = vals[0], vals[1:]
                if c is POISON: raise Undefined("branch on poison")
                if not c:
                    setr(*rest); return
                kind, carried = self.run_region(op.after_region, rest, env)
        if n == "memref.alloc" or n == "memref.alloca":
            shape = op.results[0].type.get_shape(); size = 1
            for d in shape: size *= d
            h = ("mem", len(self.mem)); self.mem[h] = [POISON] * size; setr((h, tuple(shape))); return
        if n == "memref.load":
            (h, shape), idx = g(op.operands[0]), [g(o) for o in op.operands[1:]]
            setr(self.mem[h][self._lin(shape, idx)]); return
        if n == "memref.store":
            v, (h, shape), idx = g(op.operands[0]), g(op.operands[1]), [g(o) for o in op.operands[2:]]
            self.mem[h][self._lin(shape, idx)] = v
            if h[0] == "arg": self.log.append(("store", h, self._lin(shape, idx), self._obs(v)))
            return
        if n == "test.op_with_memwrite" or n == "test.op":
            self.log.append((n, tuple(self._obs(g(o)) for o in op.operands)))
            setr(*[0 for _ in op.results]); return
        if n == "test.pureop" or n == "test.op_with_memread":
            setr(*[0 for _ in op.results]); return
        raise Unsupported(n)

    def _lin(self, shape, idx):
        lin = 0
        for d, i in zip(shape, idx, strict=True):
            if i is POISON or not (0 <= S(i, INDEX_W) < d): raise Undefined("out of bounds")
            lin = lin * d + i
        return lin


def run(module, fname, args, step_limit=200000):
    m = Machine(module, step_limit)
    vals = m.call(fname, list(args))
    return [m._obs(v) for v in vals], m.log
