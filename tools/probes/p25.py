import sys, random, collections, itertools
from xdsl.dialects.test import TestOp, TestTermOp, TestPureOp, TestReadOp, TestWriteOp
from xdsl.dialects.builtin import ModuleOp, i32, StringAttr
from xdsl.ir import Block, Region
from xdsl.context import Context
from xdsl.analysis.dataflow import DataFlowSolver, ProgramPoint
from xdsl.analysis.dead_code_analysis import Executable
from xdsl.analysis.liveness_analysis import Liveness, LivenessAnalysis
class RandDeque(collections.deque):
    def __init__(self, rng): super().__init__(); self.rng = rng; self.trace = []
    def popleft(self):
        i = self.rng.randrange(len(self)); self.rotate(-i); x = super().popleft(); self.rotate(i)
        self.trace.append(i); return x
res = collections.Counter(); ex = {}; scheds = set()
for seed in range(int(sys.argv[1])):
    rng = random.Random(seed)
    b = Block(arg_types=[i32] * rng.choice([0, 1, 2])); vals = list(b.args); ops = []
    for j in range(rng.choice([2, 5, 10, 20])):
        cls = rng.choice([TestPureOp, TestPureOp, TestPureOp, TestReadOp, TestWriteOp, TestOp])
        opnds = [rng.choice(vals) for _ in range(rng.choice([0, 1, 2]))] if vals else []
        op = cls.create(operands=opnds, result_types=[i32] * rng.choice([0, 1, 1, 2])); b.add_op(op); vals.extend(op.results); ops.append(op)
    t = TestTermOp.create(operands=[rng.choice(vals)] if vals and rng.random() < 0.6 else []); b.add_op(t); ops.append(t)
    m = ModuleOp(Region(b))
    # reference: value live iff used (transitively through operands) by an op that is not trivially removable
    def removable(o): return o.name in ("test.pureop", "test.op_with_memread")
    live = set()
    work = [v for o in ops if not removable(o) for v in o.operands]
    while work:
        v = work.pop()
        if id(v) in live: continue
        live.add(id(v))
        from xdsl.ir import OpResult
        if isinstance(v, OpResult): work.extend(v.op.operands)
    outs = []
    for sched in range(4):
        solver = DataFlowSolver(Context()); solver.load(LivenessAnalysis)
        if sched: solver._worklist = RandDeque(random.Random(seed * 10 + sched))
        solver.get_or_create_state(ProgramPoint.at_start_of_block(b), Executable).live = True
        solver.initialize_and_run(m)
        got = set()
        for v in list(b.args) + [r for o in ops for r in o.results]:
            st = solver.lookup_state(v, Liveness)
            if st is not None and st.is_live: got.add(id(v))
        outs.append(got)
        if sched: scheds.add(tuple(solver._worklist.trace))
        if got != live:
            k = f"MISMATCH sched={sched>0} missing={len(live-got)} extra={len(got-live)}"; res[k] += 1; ex.setdefault(k, seed)
        else: res["ok"] += 1
    if any(o != outs[0] for o in outs): res["SCHEDULE-DEPENDENT"] += 1
print(dict(res), ex, "distinct schedules", len(scheds))
