import glob, time, sys, collections
from xdsl.context import Context
from xdsl.parser import Parser
from xdsl.printer import Printer
from xdsl.dialects import get_all_dialects
from io import StringIO
def ctx():
    c = Context(allow_unregistered=True)
    for n, f in get_all_dialects().items():
        c.register_dialect(n, f)
    return c
files = sorted(glob.glob('/repo/tests/**/*.mlir', recursive=True)) + sorted(glob.glob('/repo/docs/**/*.mlir', recursive=True))
print(len(files), "files")
chunks=[]
for f in files:
    try: s=open(f).read()
    except Exception as e: print("read fail", f, e); continue
    for i,ch in enumerate(s.split("// -----")):
        chunks.append((f,i,ch))
print(len(chunks), "chunks")
ok=0; verified=0; errs=collections.Counter(); t0=time.time(); nchars=0; nops=0
for f,i,ch in chunks:
    try:
        m = Parser(ctx(), ch, f).parse_module()
        ok+=1
        nchars+=len(ch)
        try:
            m.verify(); verified+=1
            nops += sum(1 for _ in m.walk())
        except Exception as e:
            errs["verify:"+type(e).__name__]+=1
    except Exception as e:
        errs["parse:"+type(e).__name__]+=1
print("parsed", ok, "verified", verified, "ops", nops, "time", time.time()-t0, "chars", nchars)
print(errs.most_common(20))
