import collections, sys, time, traceback, random, dataclasses, signal
from io import StringIO
from corpus import chunks, ctx
from xdsl.parser import Parser
from xdsl.printer import Printer
from xdsl.transforms import get_all_passes
from irsan import check_tree, Broken
passes = {}
for n, f in get_all_passes().items():
    try:
        cls = f()
        passes[n] = cls
    except Exception as e:
        print("cannot load", n, type(e).__name__, e)
print(len(passes), "passes")
inst = {}
for n, cls in passes.items():
    try: inst[n] = cls()
    except Exception as e: pass
print(len(inst), "default-constructible;", sorted(set(passes)-set(inst)))
mods = []
for f, i, ch in chunks:
    try:
        m = Parser(ctx(), ch, f).parse_module(); m.verify(); mods.append((f, i, ch))
    except Exception: pass
rng = random.Random(int(sys.argv[1]) if len(sys.argv) > 1 else 0)
sample = rng.sample(mods, int(sys.argv[2]) if len(sys.argv) > 2 else 30)
class TO(Exception): pass
def alarm(*a): raise TO()
signal.signal(signal.SIGALRM, alarm)
res = collections.Counter(); ex = {}; tpass = collections.Counter()
t0 = time.time()
for f, i, ch in sample:
    for n, p in inst.items():
        c = ctx()
        m = Parser(c, ch, f).parse_module()
        t1 = time.time()
        signal.alarm(20)
        try:
            p.apply(c, m)
        except TO:
            res[(n, "TIMEOUT")] += 1; continue
        except BaseException as e:
            signal.alarm(0)
            res[("*", "pass-failed:" + type(e).__name__)] += 1; tpass[n] += time.time() - t1; continue
        signal.alarm(0)
        tpass[n] += time.time() - t1
        try:
            check_tree([m])
        except Broken as b:
            k = (n, "IRSAN " + str(b)[:60]); res[k] += 1; ex.setdefault(k, (f, i)); continue
        try:
            m.verify()
        except Exception as e:
            k = (n, "verify-fail " + type(e).__name__ + " " + str(e).strip().split("\n")[-1][:70]); res[k] += 1; ex.setdefault(k, (f, i)); continue
        try:
            s = StringIO(); Printer(stream=s, print_generic_format=True).print_op(m)
            Parser(ctx(), s.getvalue()).parse_module()
        except Exception as e:
            k = (n, "print/parse-fail " + type(e).__name__ + " " + str(e).strip().split("\n")[-1][:70]); res[k] += 1; ex.setdefault(k, (f, i)); continue
        res[("*", "ok")] += 1
print("time", time.time() - t0)
for k, v in sorted(res.items(), key=lambda kv: -kv[1]): print(v, k, ex.get(k, ""))
print("slowest", tpass.most_common(8))
