import random, sys, collections
import hist
from hist import World, step, Skip
from irsan import check_tree, Broken
from canon import canon_ir
from xdsl.ir import Operation, Region, Block
from xdsl.dialects.builtin import ModuleOp
res = collections.Counter(); ex = {}
def inner_ids(root):
    ids = set()
    def vo(op):
        ids.update(id(r) for r in op.results)
        for r in op.regions: vr(r)
    def vr(r):
        for b in r.blocks:
            ids.add(id(b)); ids.update(id(a) for a in b.args)
            for o in b.ops: vo(o)
    vo(root) if isinstance(root, Operation) else vr(root)
    return ids
for seed in range(int(sys.argv[1])):
    rng = random.Random(seed); w = World(rng); w.add(ModuleOp([]))
    try:
        for i in range(rng.choice([20, 60, 120])):
            try: step(w)
            except Skip: pass
            except (ValueError, AssertionError, IndexError, RecursionError): pass
            w.rescan()
        check_tree(w.roots())
    except (Broken, RecursionError):
        continue  # non-atomic failure poisoned state; skip
    ops = w.ops(); regions = w.regions()
    if not ops or not regions: continue
    for trial in range(5):
        mode = rng.choice(["op", "op_noregions", "region_into"])
        ops = w.ops(); regions = w.regions(); roots = w.roots()
        if not ops or len(regions) < 2: break
        before_all = [canon_ir(r) for r in roots]
        try:
            if mode == "op":
                src = rng.choice(ops); c = src.clone(); cs, cc = canon_ir(src), canon_ir(c)
            elif mode == "op_noregions":
                src = rng.choice(ops); c = src.clone_without_regions()
                cs, cc = None, None
                if len(c.regions) != len(src.regions) or any(len(r.blocks) for r in c.regions): res["BAD noregions"] += 1
                if [id(o) for o in c.operands] != [id(o) for o in src.operands]: res["BAD noregions operands"] += 1; ex.setdefault("nro", seed)
            else:
                src = rng.choice(regions); dst = rng.choice(regions)
                if dst is src or src.is_ancestor(dst): continue
                nb = len(dst.blocks); idx = rng.randint(0, nb)
                dst_before = [canon_ir(b) for b in dst.blocks]
                src.clone_into(dst, idx)
                newblocks = list(dst.blocks)[idx: idx + len(src.blocks)]
                dst_after = [canon_ir(b) for b in dst.blocks]
                k = len(src.blocks)
                # pre-existing blocks unchanged (modulo external block numbering)
                c = None
                cs = canon_ir(src)
                tmp = Region()  # compare cloned blocks as a region: detach and wrap
                for b in newblocks: dst.detach_block(b)
                tmp.add_block(newblocks); cc = canon_ir(tmp); w.add(tmp)
                if [canon_ir(b) for b in dst.blocks] != dst_before: res["BAD dest modified"] += 1; ex.setdefault("dest", seed)
        except RecursionError:
            break
        except (ValueError, AssertionError) as e:
            res["raise " + type(e).__name__] += 1; continue
        w.rescan() if c is None else w.add(c)
        if cs is not None:
            # external refs must be identical ids; canon uses ("ext", id) tokens so equality of canon implies that
            if cs != cc: res[f"BAD {mode} canon differs"] += 1; ex.setdefault(mode, seed)
            else: res[f"{mode} ok"] += 1
        # nothing else changed
        after_all = [canon_ir(r) for r in roots]
        if mode != "region_into" and before_all != after_all: res["BAD other IR changed"] += 1; ex.setdefault("other", seed)
        try: check_tree(w.roots())
        except Broken as b: res["IRSAN " + str(b)[:50]] += 1; ex.setdefault("irsan", seed)
print(dict(res), ex)
