import random, sys, collections, dataclasses, typing, types, math
from typing import get_type_hints, get_origin, get_args, Literal, Union
from xdsl.transforms import get_all_passes
from xdsl.passes import PassPipeline
from xdsl.utils.arg_spec import parse_pipeline, ArgSpec
from xdsl.utils.exceptions import ArgSpecParseError
rng = random.Random(0)
STR = ["a", "abc", "a-b", "a b", 'q"uote', "back\\slash", "", "true", "false", "1", "1.5", "x,y", "{", "}", "=", "é", "tab\t", "new\nline", "-", "_", "a" * 50, "None", "'", "1e5", "[x]"]
INT = [0, 1, -1, 7, 2**31, -2**63, 10**20]
FLT = [0.0, 1.5, -2.25, 1e-05, 1e22, 3.0, float("inf"), float("nan"), -0.0, 1e-300, 123456789.125]
def gen(t):
    o = get_origin(t)
    if t is int: return rng.choice(INT)
    if t is bool: return rng.choice([True, False])
    if t is float: return rng.choice(FLT)
    if t is str: return rng.choice(STR)
    if t is type(None): return None
    if o is Literal: return rng.choice(get_args(t))
    if o in (Union, types.UnionType): return gen(rng.choice(get_args(t)))
    if o is tuple:
        a = get_args(t)
        if len(a) == 2 and a[1] is ...: return tuple(gen(a[0]) for _ in range(rng.choice([0, 1, 2, 3])))
        return tuple(gen(x) for x in a)
    raise Exception("unsupported type " + str(t))
def same(a, b):
    if isinstance(a, float) and isinstance(b, float): return (math.isnan(a) and math.isnan(b)) or (a == b and math.copysign(1, a) == math.copysign(1, b))
    if isinstance(a, tuple) and isinstance(b, tuple): return len(a) == len(b) and all(same(x, y) for x, y in zip(a, b))
    return type(a) == type(b) and a == b
res = collections.Counter(); ex = {}
passes = {n: f() for n, f in get_all_passes().items()}
for n, cls in sorted(passes.items()):
    hints = get_type_hints(cls)
    fields = [f for f in dataclasses.fields(cls) if f.init and f.name != "name"]
    for trial in range(40 if fields else 1):
        kw = {f.name: gen(hints[f.name]) for f in fields}
        try:
            p = cls(**kw)
        except Exception as e:
            res[("ctor-fail", type(e).__name__)] += 1; continue
        txt = str(p.spec())
        try:
            specs = list(parse_pipeline(txt))
            q = cls.from_spec(specs[0]) if len(specs) == 1 else None
        except (ArgSpecParseError, ValueError) as e:
            vk = [(k, type(v).__name__) for k, v in kw.items() if getattr(p, k) != (dataclasses.MISSING)]
            k = ("RT-parse-error", type(e).__name__, str(sorted({type(v).__name__ + (":" + repr(v)[:14] if isinstance(v, (str, float)) else "") for v in kw.values()}))[:90]); res[k] += 1; ex.setdefault(k, (n, txt)); continue
        except Exception as e:
            k = ("RT-crash", type(e).__name__, str(e)[:50]); res[k] += 1; ex.setdefault(k, (n, txt)); continue
        if q is None or not all(same(getattr(p, f.name), getattr(q, f.name)) for f in fields):
            diff = [(f.name, getattr(p, f.name), getattr(q, f.name) if q else None) for f in fields if q is None or not same(getattr(p, f.name), getattr(q, f.name))]
            k = ("RT-differs", str([(type(a).__name__, type(b).__name__) for _, a, b in diff])[:80]); res[k] += 1; ex.setdefault(k, (n, txt, diff[:2])); continue
        res[("ok",)] += 1
for k, v in sorted(res.items(), key=lambda kv: -kv[1])[:40]: print(v, k, str(ex.get(k, ""))[:230])
