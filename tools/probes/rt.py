import collections, sys, time, traceback
from io import StringIO
from corpus import chunks, ctx
from xdsl.parser import Parser
from xdsl.printer import Printer
from canon import canon_ir

def pr(m, generic):
    s = StringIO(); Printer(stream=s, print_generic_format=generic).print_op(m); return s.getvalue()

def first_diff(a, b, path="root"):
    if type(a) != type(b): return path, a, b
    if isinstance(a, tuple):
        if len(a) != len(b): return path + f"[len {len(a)} vs {len(b)}]", None, None
        for i, (x, y) in enumerate(zip(a, b)):
            d = first_diff(x, y, path + (f".{a[1]}" if i == 0 and len(a) > 1 and a[0] == "op" else "") + f"[{i}]")
            if d: return d
        return None
    return None if a == b else (path, a, b)

if __name__ != '__main__':
    pass
else:
    res = collections.Counter(); ex = {}
    mods = []
    t0 = time.time()
    for f, i, ch in chunks:
        try:
            m = Parser(ctx(), ch, f).parse_module(); m.verify()
        except Exception:
            continue
        mods.append((f, i, m))
    print(len(mods), "verified modules", time.time() - t0)
    for mode in ("generic", "custom"):
        for f, i, m in mods:
            try:
                c0 = canon_ir(m)
                t1 = pr(m, mode == "generic")
            except Exception as e:
                k = (mode, "print-crash", type(e).__name__, str(e)[:60]); res[k] += 1; ex.setdefault(k, (f, i)); continue
            try:
                m2 = Parser(ctx(), t1, f).parse_module()
            except Exception as e:
                k = (mode, "reparse-fail", type(e).__name__, str(e).strip().split("\n")[-1][:80]); res[k] += 1; ex.setdefault(k, (f, i)); continue
            c1 = canon_ir(m2)
            if c0 != c1:
                d = first_diff(c0, c1)
                k = (mode, "canon-differs", str(d[0])[:60], ""); res[k] += 1; ex.setdefault(k, (f, i, d)); continue
            t2 = pr(m2, mode == "generic")
            if t1 != t2:
                k = (mode, "reprint-differs", "", ""); res[k] += 1; ex.setdefault(k, (f, i)); continue
            res[(mode, "ok", "", "")] += 1
    for k, v in sorted(res.items(), key=lambda kv: (kv[0][0], -kv[1])):
        print(v, k, str(ex.get(k))[:200])
    