import sys, random, collections, warnings
sys.path.insert(0, '/tmp/scratch'); warnings.simplefilter("ignore")
from io import StringIO
from corpus import ctx
from xdsl.parser import Parser
from xdsl.transforms import get_all_passes
from xdsl.targets import get_all_targets
from refsem import run, Undefined
import refsem; refsem.INDEX_W = 32
import rvsim
P = get_all_passes()
PIPE = ["convert-func-to-riscv-func", "convert-scf-to-riscv-scf", "convert-arith-to-riscv", "reconcile-unrealized-casts", "canonicalize", "riscv-allocate-registers", "riscv-lower-parallel-mov", "canonicalize", "riscv-prologue-epilogue-insertion", "convert-riscv-scf-to-riscv-cf", "canonicalize"]
OPS = ["addi", "subi", "muli", "andi", "ori", "xori", "shli", "shrui", "shrsi", "divsi", "divui", "remsi", "remui"]
PRED = ["eq", "ne", "slt", "sle", "sgt", "sge", "ult", "ule", "ugt", "uge"]
res = collections.Counter(); ex = {}
for seed in range(int(sys.argv[1])):
    rng = random.Random(seed); n = rng.randint(1, 4)
    env = [(f"%a{i}", "i32") for i in range(n)]; lines = []; k = [0]
    def fresh(): k[0] += 1; return f"%v{k[0]}"
    def body(env, ind, depth):
        for _ in range(rng.choice([1, 3, 5])):
            ints = [v for v, t in env if t == "i32"]
            r = rng.random(); v = fresh()
            if r < 0.2: lines.append(f"{ind}{v} = arith.constant {rng.choice([0, 1, -1, 5, 2047, 2048, -2048, -2049, 65536, 2147483647, -2147483648])} : i32"); env.append((v, "i32"))
            elif r < 0.75: lines.append(f"{ind}{v} = arith.{rng.choice(OPS)} {rng.choice(ints)}, {rng.choice(ints)} : i32"); env.append((v, "i32"))
            elif r < 0.85: lines.append(f"{ind}{v} = arith.cmpi {rng.choice(PRED)}, {rng.choice(ints)}, {rng.choice(ints)} : i32"); env.append((v, "i1"))
            elif depth < 2:
                lb, ub, st = fresh(), fresh(), fresh(); iv, acc = fresh(), fresh(); init = rng.choice(ints)
                lines.append(f"{ind}{lb} = arith.constant {rng.choice([0, 1])} : index"); lines.append(f"{ind}{ub} = arith.constant {rng.choice([0, 1, 3, 4])} : index"); lines.append(f"{ind}{st} = arith.constant {rng.choice([1, 2])} : index")
                lines.append(f"{ind}{v} = scf.for {iv} = {lb} to {ub} step {st} iter_args({acc} = {init}) -> (i32) {{")
                e2 = list(env) + [(acc, "i32")]
                body(e2, ind + "  ", depth + 1)
                lines.append(f"{ind}  scf.yield {rng.choice([x for x, t in e2 if t == 'i32'])} : i32"); lines.append(f"{ind}}}"); env.append((v, "i32"))
    body(env, "  ", 0)
    ret = rng.choice([v for v, t in env if t == "i32"])
    text = "func.func public @main(" + ", ".join(f"%a{i}: i32" for i in range(n)) + ") -> i32 {\n" + "\n".join(lines) + f"\n  func.return {ret} : i32\n}}\n"
    c0 = ctx(); m0 = Parser(c0, text).parse_module(); m0.verify()
    c = ctx(); m = Parser(c, text).parse_module()
    try:
        for pn in PIPE: P[pn]()().apply(c, m)
        s = StringIO(); get_all_targets()["riscv-asm"]()().emit(c, m, s); asm = s.getvalue()
    except Exception as e:
        kk = "pipeline-failed " + type(e).__name__ + " " + str(e).strip().split("\n")[-1][:60]; res[kk] += 1; ex.setdefault(kk, text); continue
    for _ in range(6):
        args = [rng.choice([0, 1, 2, 0xFFFFFFFF, 0x80000000, 0x7FFFFFFF, rng.getrandbits(32)]) for _ in range(n)]
        try: want = run(m0, "main", args)[0][0]
        except Undefined: res["input-excluded"] += 1; continue
        try: got, savedok = rvsim.run(asm, "main", args)
        except rvsim.Bad as b:
            kk = "BAD-ASM " + str(b)[:50]; res[kk] += 1; ex.setdefault(kk, (text, asm)); continue
        if got != want: res["WRONG-RESULT"] += 1; ex.setdefault("WRONG-RESULT", (text, asm, args, got, want))
        elif not all(savedok.values()): res["CALLEE-STATE"] += 1; ex.setdefault("CALLEE-STATE", (text, asm, savedok))
        else: res["ok"] += 1
print({k: v for k, v in res.items()})
for kk, v in list(ex.items())[:6]:
    print("====", kk); print(v if isinstance(v, str) else "\n".join(map(str, v)))
