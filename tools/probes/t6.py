from xdsl.dialects.test import TestOp, TestTermOp
from xdsl.dialects.builtin import *
from xdsl.ir import *
from xdsl.irdl.dominance import DominanceInfo
from xdsl.ir.post_order import PostOrderIterator
# C03: result types ignored?
a = TestOp(result_types=[i32]); b = TestOp(result_types=[i64])
print("C03 result type differs -> equivalent?", a.is_structurally_equivalent(b))
# graph region clone
blk = Block()
u = TestOp(result_types=[i32])
# forward ref: op1 uses result of op2 defined later
op2 = TestOp(result_types=[i32])
op1 = TestOp(operands=[op2.results[0]])
blk.add_ops([op1, op2])
m = ModuleOp(Region(blk))  # wrong: ModuleOp takes ops; use generic
