import collections, itertools, struct, math
from xdsl.dialects import arith, builtin, func
from xdsl.dialects.builtin import IntegerType, IndexType, IntegerAttr, i1, ModuleOp, f32, f64
from xdsl.dialects.test import TestOp
from xdsl.interpreter import Interpreter
from xdsl.interpreters.arith import ArithFunctions
from xdsl.utils.exceptions import InterpretationError
def S(x, w): x &= (1 << w) - 1; return x - (1 << w) if x >> (w - 1) else x
def U(x, w): return x & ((1 << w) - 1)
POISON = object()
REF = {
 arith.AddiOp: lambda a, b, w: S(a + b, w), arith.SubiOp: lambda a, b, w: S(a - b, w), arith.MuliOp: lambda a, b, w: S(a * b, w),
 arith.AndIOp: lambda a, b, w: S(a & b, w), arith.OrIOp: lambda a, b, w: S(a | b, w), arith.XOrIOp: lambda a, b, w: S(a ^ b, w),
 arith.ShLIOp: lambda a, b, w: POISON if U(b, w) >= w else S(U(a, w) << U(b, w), w),
 arith.ShRSIOp: lambda a, b, w: POISON if U(b, w) >= w else S(S(a, w) >> U(b, w), w),
 arith.ShRUIOp: lambda a, b, w: POISON if U(b, w) >= w else S(U(a, w) >> U(b, w), w),
 arith.DivSIOp: lambda a, b, w: POISON if S(b, w) == 0 or (S(a, w) == -(1 << (w - 1)) and S(b, w) == -1) else S(int(abs(S(a, w)) // abs(S(b, w))) * (1 if (S(a, w) < 0) == (S(b, w) < 0) else -1), w),
 arith.DivUIOp: lambda a, b, w: POISON if U(b, w) == 0 else S(U(a, w) // U(b, w), w),
 arith.RemSIOp: lambda a, b, w: POISON if S(b, w) == 0 else S(S(a, w) - S(b, w) * (int(abs(S(a, w)) // abs(S(b, w))) * (1 if (S(a, w) < 0) == (S(b, w) < 0) else -1)), w),
 arith.RemUIOp: lambda a, b, w: POISON if U(b, w) == 0 else S(U(a, w) % U(b, w), w),
 arith.FloorDivSIOp: lambda a, b, w: POISON if S(b, w) == 0 or (S(a, w) == -(1 << (w - 1)) and S(b, w) == -1) else S(S(a, w) // S(b, w), w),
 arith.CeilDivSIOp: lambda a, b, w: POISON if S(b, w) == 0 or (S(a, w) == -(1 << (w - 1)) and S(b, w) == -1) else S(-((-S(a, w)) // S(b, w)), w),
 arith.CeilDivUIOp: lambda a, b, w: POISON if U(b, w) == 0 else S(-((-U(a, w)) // U(b, w)), w),
 arith.MinSIOp: lambda a, b, w: S(min(S(a, w), S(b, w)), w), arith.MaxSIOp: lambda a, b, w: S(max(S(a, w), S(b, w)), w),
 arith.MinUIOp: lambda a, b, w: S(min(U(a, w), U(b, w)), w), arith.MaxUIOp: lambda a, b, w: S(max(U(a, w), U(b, w)), w),
}
CMP = {0: lambda a, b, w: U(a, w) == U(b, w), 1: lambda a, b, w: U(a, w) != U(b, w), 2: lambda a, b, w: S(a, w) < S(b, w), 3: lambda a, b, w: S(a, w) <= S(b, w),
       4: lambda a, b, w: S(a, w) > S(b, w), 5: lambda a, b, w: S(a, w) >= S(b, w), 6: lambda a, b, w: U(a, w) < U(b, w), 7: lambda a, b, w: U(a, w) <= U(b, w),
       8: lambda a, b, w: U(a, w) > U(b, w), 9: lambda a, b, w: U(a, w) >= U(b, w)}
res = collections.Counter(); ex = {}
interp = Interpreter(ModuleOp([])); interp.register_implementations(ArithFunctions())
def vals(w):
    if w <= 4: return [S(x, w) for x in range(1 << w)]
    b = [0, 1, 2, 3, -1, -2, (1 << (w - 1)) - 1, -(1 << (w - 1)), -(1 << (w - 1)) + 1, w - 1, w, 5, -7, 1 << (w - 2)]
    return sorted(set(S(x, w) for x in b))
for w in [1, 2, 3, 4, 8, 16, 32, 64]:
    t = IntegerType(w)
    src = TestOp(result_types=[t, t])
    for cls, ref in REF.items():
        op = cls(src.results[0], src.results[1])
        for a, b in itertools.product(vals(w), repeat=2):
            want = ref(a, b, w)
            if want is POISON: res["skipped-ub"] += 1; continue
            try:
                (got,) = interp.run_op(op, (a, b))
            except InterpretationError as e:
                res[f"unsupported {cls.name}"] += 1; break
            except Exception as e:
                k = f"CRASH {cls.name} {type(e).__name__}"; res[k] += 1; ex.setdefault(k, (w, a, b)); continue
            ok = isinstance(got, int) and -(1 << (w - 1)) <= got < (1 << w) and U(got, w) == U(want, w)
            inrange = isinstance(got, int) and -(1 << (w - 1)) <= got < (1 << w)
            if not ok:
                k = f"WRONG {cls.name}" + ("" if inrange else " (out of range)"); res[k] += 1; ex.setdefault(k, (w, a, b, got, want))
            else: res["ok"] += 1
    for p, ref in CMP.items():
        op = arith.CmpiOp(src.results[0], src.results[1], p)
        for a, b in itertools.product(vals(w), repeat=2):
            (got,) = interp.run_op(op, (a, b))
            if bool(got) != ref(a, b, w): k = f"WRONG cmpi pred {p}"; res[k] += 1; ex.setdefault(k, (w, a, b, got))
            else: res["ok"] += 1
for k, v in sorted(res.items()): print(v, k, ex.get(k, ""))
