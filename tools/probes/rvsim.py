"""Prototype RV32IM text-level simulator (integer subset)."""
import re
ABI = ["zero", "ra", "sp", "gp", "tp", "t0", "t1", "t2", "s0", "s1"] + [f"a{i}" for i in range(8)] + [f"s{i}" for i in range(2, 12)] + [f"t{i}" for i in range(3, 7)]
XLEN = 32
M = (1 << XLEN) - 1
def S(x): x &= M; return x - (1 << XLEN) if x >> (XLEN - 1) else x
class Bad(Exception): pass
def imm12(s):
    v = int(s, 0)
    if not -2048 <= v <= 2047: raise Bad(f"immediate {v} out of 12-bit range")
    return v
def run(asm, entry, args, max_steps=100000):
    lines = []
    labels = {}
    for raw in asm.splitlines():
        l = raw.split("#")[0].strip()
        if not l or l.startswith("."): continue
        if l.endswith(":"): labels[l[:-1]] = len(lines); continue
        lines.append(l)
    regs = {r: 0xDEAD0000 + i for i, r in enumerate(ABI)}; regs["zero"] = 0
    regs["sp"] = 0x7FFF0000; regs["ra"] = "RET"
    for i, a in enumerate(args): regs[f"a{i}"] = a & M
    saved = {r: regs[r] for r in ["sp"] + ["s0", "s1"] + [f"s{i}" for i in range(2, 12)]}
    mem = {}
    pc = labels[entry]; steps = 0
    def R(r):
        if r not in regs: raise Bad("unknown register " + r)
        return regs[r]
    def W(r, v):
        if r not in regs: raise Bad("unknown register " + r)
        if r != "zero": regs[r] = v & M
    while True:
        steps += 1
        if steps > max_steps: raise Bad("step limit")
        if pc >= len(lines): raise Bad("fell off the end")
        ins = lines[pc]; pc += 1
        op, _, rest = ins.partition(" ")
        o = [x.strip() for x in rest.split(",")] if rest else []
        if op == "ret":
            if regs["ra"] != "RET": raise Bad("ra clobbered")
            return regs["a0"], {r: regs[r] == saved[r] for r in saved}
        if op == "li": W(o[0], int(o[1], 0)); continue
        if op == "mv": W(o[0], R(o[1])); continue
        if op in ("add", "sub", "mul", "and", "or", "xor", "sll", "srl", "sra", "slt", "sltu", "div", "divu", "rem", "remu", "mulh", "mulhu"):
            a, b = R(o[1]), R(o[2])
            if op == "add": r = a + b
            elif op == "sub": r = a - b
            elif op == "mul": r = a * b
            elif op == "and": r = a & b
            elif op == "or": r = a | b
            elif op == "xor": r = a ^ b
            elif op == "sll": r = a << (b & 31)
            elif op == "srl": r = a >> (b & 31)
            elif op == "sra": r = S(a) >> (b & 31)
            elif op == "slt": r = int(S(a) < S(b))
            elif op == "sltu": r = int(a < b)
            elif op == "div": r = -1 if b == 0 else (S(a) if (S(a) == -(1 << 31) and S(b) == -1) else (abs(S(a)) // abs(S(b))) * (1 if (S(a) < 0) == (S(b) < 0) else -1))
            elif op == "divu": r = M if b == 0 else a // b
            elif op == "rem": r = S(a) if b == 0 else (0 if (S(a) == -(1 << 31) and S(b) == -1) else S(a) - S(b) * ((abs(S(a)) // abs(S(b))) * (1 if (S(a) < 0) == (S(b) < 0) else -1)))
            elif op == "remu": r = a if b == 0 else a % b
            elif op == "mulh": r = (S(a) * S(b)) >> 32
            else: r = (a * b) >> 32
            W(o[0], r); continue
        if op in ("addi", "andi", "ori", "xori", "slti", "sltiu"):
            a, i = R(o[1]), imm12(o[2])
            r = {"addi": a + i, "andi": a & (i & M), "ori": a | (i & M), "xori": a ^ (i & M), "slti": int(S(a) < i), "sltiu": int(a < (i & M))}[op]
            W(o[0], r); continue
        if op in ("slli", "srli", "srai"):
            a, i = R(o[1]), int(o[2], 0)
            if not 0 <= i < 32: raise Bad("shift amount out of range")
            W(o[0], {"slli": a << i, "srli": a >> i, "srai": S(a) >> i}[op]); continue
        if op in ("seqz", "snez", "neg", "not"):
            a = R(o[1]); W(o[0], {"seqz": int(a == 0), "snez": int(a != 0), "neg": -a, "not": ~a}[op]); continue
        if op in ("beq", "bne", "blt", "bge", "bltu", "bgeu"):
            a, b = R(o[0]), R(o[1])
            t = {"beq": a == b, "bne": a != b, "blt": S(a) < S(b), "bge": S(a) >= S(b), "bltu": a < b, "bgeu": a >= b}[op]
            if t:
                if o[2] not in labels: raise Bad("unknown label " + o[2])
                pc = labels[o[2]]
            continue
        if op == "j":
            if o[0] not in labels: raise Bad("unknown label " + o[0])
            pc = labels[o[0]]; continue
        if op in ("sw", "lw"):
            m = re.fullmatch(r"(-?\w+)\((\w+)\)", o[1])
            if not m: raise Bad("bad mem operand " + ins)
            addr = (R(m.group(2)) + imm12(m.group(1))) & M
            if op == "sw": mem[addr] = R(o[0])
            else:
                if addr not in mem: raise Bad("load from uninitialised stack")
                W(o[0], mem[addr])
            continue
        raise Bad("unknown instruction: " + ins)
