import time, random
from corpus import chunks, ctx
from xdsl.parser import Parser
from xdsl.utils.exceptions import ParseError, DiagnosticException
srcs=[ch for f,i,ch in chunks if len(ch)<4000 and ch.count('"')%2==0]
rng=random.Random(1)
c=ctx()
for s in srcs[:200]:
    try: Parser(c,s).parse_module()
    except Exception: pass
t=time.process_time(); n=0; chars=0
for s in rng.sample(srcs,600):
    p=rng.randrange(len(s)); s2=s[:p]+rng.choice(["(",")","%x","}","<"])+s[p:]
    try: Parser(c,s2).parse_module()
    except Exception: pass
    n+=1; chars+=len(s2)
dt=time.process_time()-t
print(n, "parses", round(dt,2), "s", round(dt/n*1000,2), "ms each", round(dt/chars*1e6,2), "us/char")
