builtin.module {
  llvm.func @callee(%p: !llvm.ptr) -> i64 {
    %c = llvm.mlir.constant(8 : i32) : i32
    %scratch = llvm.alloca %c x i64 : (i32) -> !llvm.ptr
    %z = llvm.mlir.constant(-1 : i64) : i64
    llvm.store %z, %scratch : i64, !llvm.ptr
    %v = llvm.load %p : !llvm.ptr -> i64
    %w = llvm.load %scratch : !llvm.ptr -> i64
    %r = llvm.and %v, %w : i64
    llvm.return %r : i64
  }
  llvm.func @f(%x: i64) -> i64 {
    %c = llvm.mlir.constant(1 : i32) : i32
    %a = llvm.alloca %c x i64 : (i32) -> !llvm.ptr
    llvm.store %x, %a : i64, !llvm.ptr
    %r = llvm.call notail @callee(%a) : (!llvm.ptr) -> i64
    llvm.return %r : i64
  }
}
