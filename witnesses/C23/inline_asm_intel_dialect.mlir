builtin.module {
  llvm.func @f(%a: i32) -> i32 {
    %0 = llvm.inline_asm asm_dialect = intel "mov $0, $1", "=r,r" %a : (i32) -> i32
    llvm.return %0 : i32
  }
}
