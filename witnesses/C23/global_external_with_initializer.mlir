builtin.module {
  llvm.mlir.global external @g(42 : i32) : i32
  llvm.mlir.global external constant @k(dense<[1, 2, 3]> : tensor<3xi16>) : !llvm.array<3 x i16>
  llvm.func @f() -> i32 {
    %p = llvm.mlir.addressof @g : !llvm.ptr
    %v = llvm.load %p : !llvm.ptr -> i32
    llvm.return %v : i32
  }
}
