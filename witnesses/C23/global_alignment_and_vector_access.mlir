builtin.module {
  llvm.mlir.global internal @pad(1 : i8) : i8
  llvm.mlir.global internal @v(dense<[1.0, 2.0, 3.0, 4.0]> : tensor<4xf32>) {alignment = 16 : i64} : !llvm.array<4 x f32>
  llvm.func @f() -> f32 {
    %p = llvm.mlir.addressof @v : !llvm.ptr
    %x = llvm.load %p {alignment = 16 : i64} : !llvm.ptr -> vector<4xf32>
    %z = llvm.mlir.constant(0.0 : f32) : f32
    %r = "llvm.intr.vector.reduce.fadd"(%z, %x) <{fastmathFlags = #llvm.fastmath<none>}> : (f32, vector<4xf32>) -> f32
    llvm.return %r : f32
  }
}
