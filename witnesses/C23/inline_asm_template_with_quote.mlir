builtin.module {
  llvm.func @f(%a: i32) -> i32 {
    %0 = llvm.inline_asm "mov $1, $0 # \"copy\"", "=r,r" %a : (i32) -> i32
    llvm.return %0 : i32
  }
}
