builtin.module {
  llvm.func fastcc @h(%a: i64, %b: i64, %c: i64, %d: i64, %e: i64, %f: i64, %g: i64) -> i64 {
    %0 = llvm.sub %a, %g : i64
    llvm.return %0 : i64
  }
  llvm.func @f(%a: i64) -> i64 {
    %one = llvm.mlir.constant(1 : i64) : i64
    %0 = llvm.call fastcc @h(%a, %a, %a, %a, %a, %a, %one) : (i64, i64, i64, i64, i64, i64, i64) -> i64
    llvm.return %0 : i64
  }
}
