builtin.module {
  llvm.func @f(%c: i1, %x: i32, %y: i32) -> i32 {
    llvm.cond_br %c, ^bb1(%x : i32), ^bb1(%y : i32)
  ^bb1(%r: i32):
    llvm.return %r : i32
  }
}
