// scf-for-loop-range-folding:nonpositive-factor
// pass: scf-for-loop-range-folding  inputs: [[2], [1], [18446744073709551615], [0]]
func.func @main(%k: index) -> (index) {
  %c0 = arith.constant 0 : index
  %c1 = arith.constant 1 : index
  %c4 = arith.constant 4 : index
  %r = scf.for %i = %c0 to %c4 step %c1 iter_args(%acc = %c0) -> (index) {
    %m = arith.muli %i, %k : index
    %a = arith.addi %acc, %m : index
    scf.yield %a : index
  }
  func.return %r : index
}
