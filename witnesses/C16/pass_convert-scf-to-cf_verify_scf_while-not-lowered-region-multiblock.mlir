// pass:convert-scf-to-cf:verify:scf.while-not-lowered-region-multiblock
// pass: convert-scf-to-cf  inputs: [[3, 5]]
func.func @main(%n: index, %x: i32) -> (i32) {
  %c0 = arith.constant 0 : index
  %c1 = arith.constant 1 : index
  %z = arith.constant 0 : i32
  %one = arith.constant 1 : i32
  %r:2 = scf.while (%i = %n, %acc = %x) : (index, i32) -> (index, i32) {
    %cond = arith.cmpi sgt, %i, %c0 : index
    scf.condition(%cond) %i, %acc : index, i32
  } do {
  ^bb0(%i2: index, %acc2: i32):
    %p = arith.cmpi slt, %acc2, %z : i32
    %nv = scf.if %p -> (i32) {
      %t = arith.subi %z, %acc2 : i32
      scf.yield %t : i32
    } else {
      %t = arith.addi %acc2, %one : i32
      scf.yield %t : i32
    }
    %i3 = arith.subi %i2, %c1 : index
    scf.yield %i3, %nv : index, i32
  }
  func.return %r#1 : i32
}
