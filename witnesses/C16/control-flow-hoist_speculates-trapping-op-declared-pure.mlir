// control-flow-hoist:speculates-trapping-op-declared-pure
// pass: control-flow-hoist  inputs: [[7, 0], [7, 2]]
func.func @main(%a: i32, %d: i32) -> (i32) {
  %z = arith.constant 0 : i32
  %nz = arith.cmpi ne, %d, %z : i32
  %r = scf.if %nz -> (i32) {
    %q = arith.remsi %a, %d : i32
    scf.yield %q : i32
  } else {
    scf.yield %a : i32
  }
  func.return %r : i32
}
