// scf-for-loop-flatten:iv-sum-outer-range-not-multiple-of-step
// pass: scf-for-loop-flatten  inputs: [[8], [5], [1]]
func.func @main(%n: index) -> (index) {
  %c0 = arith.constant 0 : index
  %c1 = arith.constant 1 : index
  %c4 = arith.constant 4 : index
  scf.for %i = %c0 to %n step %c4 {
    scf.for %j = %c0 to %c4 step %c1 {
      %s = arith.addi %i, %j : index
      "test.op"(%s) : (index) -> ()
    }
  }
  func.return %c0 : index
}
