// scf-for-loop-range-folding:bound-overflow
// pass: scf-for-loop-range-folding  inputs: [[3], [9223372036854775806]]
func.func @main(%k: index) -> (index) {
  %c0 = arith.constant 0 : index
  %c1 = arith.constant 1 : index
  %c4 = arith.constant 4 : index
  scf.for %i = %c0 to %c4 step %c1 {
    %m = arith.addi %i, %k : index
    "test.op"(%m) : (index) -> ()
  }
  func.return %c0 : index
}
