// scf-for-loop-flatten:ub-times-factor-overflow
// pass: scf-for-loop-flatten  inputs: [[13835058055282163714], [2]]
func.func @main(%n: index) -> (index) {
  %c0 = arith.constant 0 : index
  %c1 = arith.constant 1 : index
  %c4 = arith.constant 4 : index
  scf.for %i = %c0 to %n step %c1 {
    scf.for %j = %c0 to %c4 step %c1 {
      "test.op_with_memwrite"() : () -> ()
    }
  }
  func.return %c0 : index
}
