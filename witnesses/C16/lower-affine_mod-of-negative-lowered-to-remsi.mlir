// lower-affine:mod-of-negative-lowered-to-remsi
// pass: lower-affine  inputs: [[18446744073709551615], [5], [18446744073709551609]]
func.func @main(%p: index) -> (index) {
  %r = "affine.apply"(%p) <{map = affine_map<(d0) -> (d0 mod 3)>}> : (index) -> index
  func.return %r : index
}
