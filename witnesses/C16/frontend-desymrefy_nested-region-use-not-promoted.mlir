// frontend-desymrefy:nested-region-use-not-promoted
// pass: frontend-desymrefy  inputs: [[0], [3]]
func.func @main(%n: index) -> (i32) {
  %c0 = arith.constant 0 : i32
  %c2 = arith.constant 2 : i32
  %i0 = arith.constant 0 : index
  %i1 = arith.constant 1 : index
  symref.declare "a"
  symref.update @a = %c0 : i32
  scf.for %i = %i0 to %n step %i1 {
    %t1 = symref.fetch @a : i32
    %t2 = arith.addi %t1, %c2 : i32
    symref.update @a = %t2 : i32
  }
  %t3 = symref.fetch @a : i32
  func.return %t3 : i32
}
