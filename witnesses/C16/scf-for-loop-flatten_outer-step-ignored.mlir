// scf-for-loop-flatten:outer-step-ignored
// pass: scf-for-loop-flatten  inputs: [[0], [1], [3], [4]]
func.func @main(%n: index) -> (index) {
  %c0 = arith.constant 0 : index
  %c1 = arith.constant 1 : index
  %c2 = arith.constant 2 : index
  %c4 = arith.constant 4 : index
  scf.for %i = %c0 to %n step %c2 {
    scf.for %j = %c0 to %c4 step %c1 {
      "test.op_with_memwrite"() : () -> ()
    }
  }
  func.return %c0 : index
}
