// licm:speculates-trapping-op-declared-pure
// pass: licm  inputs: [[0, 7, 0], [2, 7, 0], [2, 7, 3]]
func.func @main(%n: index, %a: i32, %d: i32) -> (i32) {
  %c0 = arith.constant 0 : index
  %c1 = arith.constant 1 : index
  %r = scf.for %i = %c0 to %n step %c1 iter_args(%acc = %a) -> (i32) {
    %q = arith.floordivsi %a, %d : i32
    %t = arith.addi %acc, %q : i32
    scf.yield %t : i32
  }
  func.return %r : i32
}
