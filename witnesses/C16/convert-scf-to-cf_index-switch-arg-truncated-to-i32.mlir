// convert-scf-to-cf:index-switch-arg-truncated-to-i32
// pass: convert-scf-to-cf  inputs: [[1], [2], [4294967297]]
func.func @main(%sw: index) -> (i32) {
  %r = scf.index_switch %sw -> i32
  case 1 {
    %c = arith.constant 10 : i32
    scf.yield %c : i32
  }
  default {
    %c = arith.constant 30 : i32
    scf.yield %c : i32
  }
  func.return %r : i32
}
