// scf-for-loop-flatten:inner-floor-factor-not-trip-count
// pass: scf-for-loop-flatten  inputs: [[0], [1], [3]]
func.func @main(%n: index) -> (index) {
  %c0 = arith.constant 0 : index
  %c1 = arith.constant 1 : index
  %c2 = arith.constant 2 : index
  %c5 = arith.constant 5 : index
  scf.for %i = %c0 to %n step %c1 {
    scf.for %j = %c0 to %c5 step %c2 {
      "test.op_with_memwrite"() : () -> ()
    }
  }
  func.return %c0 : index
}
