// traits.SymbolTable.lookup_symbol(<module>, @f::@g) returns func @g although @f is not a symbol table
// (the recursion re-anchors at the symbol table enclosing @f); the utils lookups return None.
builtin.module {
  func.func @f() {
    func.return
  }
  func.func @g() {
    func.return
  }
}
