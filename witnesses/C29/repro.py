"""Run with /venv/bin/python: prints trait lookup vs utils lookup for the three witnesses in this directory."""
import os
from xdsl.context import Context
from xdsl.dialects import get_all_dialects
from xdsl.dialects.builtin import SymbolRefAttr
from xdsl.parser import Parser
from xdsl.traits import SymbolTable as TraitSymbolTable
from xdsl.utils.symbol_table import SymbolTable

here = os.path.dirname(os.path.abspath(__file__))


def load(name):
    ctx = Context(allow_unregistered=True)
    for n, f in get_all_dialects().items():
        if n in ("builtin", "func", "test"):
            ctx.load_dialect(f())
    return Parser(ctx, open(os.path.join(here, name)).read()).parse_module()


def show(what, origin, ref):
    try:
        t = TraitSymbolTable.lookup_symbol(origin, ref)
        t = None if t is None else f"{t.name} @{t.get_attr_or_prop('sym_name').data}"
    except Exception as e:  # noqa: BLE001
        t = f"raised {type(e).__name__}: {e}"
    u = SymbolTable.lookup_nearest_symbol_from(origin, ref)
    u = None if u is None else f"{u.name} @{u.get_attr_or_prop('sym_name').data}"
    print(f"{what}: trait lookup_symbol -> {t} | utils lookup_nearest_symbol_from -> {u}")


m = load("private_nested.mlir")
show("private_nested      from module, @a::@b", m, SymbolRefAttr("a", ["b"]))
m = load("nontable_intermediate.mlir")
show("nontable_intermediate from module, @f::@g", m, SymbolRefAttr("f", ["g"]))
m = load("unregistered_ancestor.mlir")
ops = list(m.body.block.ops)
show("unregistered_ancestor from test.op, 'f'", ops[1].regions[0].block.first_op, "f")
show("unregistered_ancestor from region-less foo.unreg, 'f'", ops[2], "f")
