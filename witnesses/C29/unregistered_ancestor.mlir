// parse with allow_unregistered. traits.SymbolTable.lookup_symbol(<test.op>, "f") returns None (the unregistered
// op is taken as the nearest symbol table because has_trait defaults to True on unregistered ops) and
// lookup_symbol(<second foo.unreg>, "f") raises IndexError; SymbolTable.lookup_nearest_symbol_from gives @f for both.
builtin.module {
  func.func @f() {
    func.return
  }
  "foo.unreg"() ({
    "test.op"() : () -> ()
  }) : () -> ()
  "foo.unreg"() : () -> ()
}
