// traits.SymbolTable.lookup_symbol(<outer module>, @a::@b) returns the PRIVATE func @b;
// SymbolTable.lookup_symbol_in(<outer module>, @a::@b) (xdsl/utils/symbol_table.py) returns None.
builtin.module {
  builtin.module @a {
    func.func private @b() {
      func.return
    }
  }
}
