// C27 witness: the pattern requires operand 0 of the root to be RESULT 0 of a two-result "test.op"; the payload
// root uses RESULT 1.  apply-pdl (PDLMatcher.match_result) accepts and binds %r to result 0, so the root is replaced
// by %d#0; convert-pdl-to-pdl-interp + apply-pdl-interp correctly rejects (are_equal result0, operand0).
%d:2 = "test.op"() : () -> (i32, i32)
%root = "test.pureop"(%d#1) : (i32) -> (i32)
"test.op"(%root) : (i32) -> ()

pdl.pattern : benefit(1) {
  %t = pdl.type
  %def = pdl.operation "test.op" -> (%t, %t : !pdl.type, !pdl.type)
  %r = pdl.result 0 of %def
  %o = pdl.operation "test.pureop" (%r : !pdl.value) -> (%t : !pdl.type)
  pdl.rewrite %o {
    pdl.replace %o with (%r : !pdl.value)
  }
}
