// C27 witness (also tests/filecheck/transforms/apply-pdl/apply_pdl_attribute_rewrite.mlir):
//   xdsl-opt -p apply-pdl                                   terminates, result: arith.constant 1 : i32
//   xdsl-opt -p convert-pdl-to-pdl-interp,apply-pdl-interp  never terminates: the generated matcher has no
//   pdl_interp.check_attribute for `0 : i32` (conversion.py `elif attr_op.value:` is False for IntegerAttr 0),
//   so the rewritten constant 1 matches again and again.
%val = arith.constant 0 : i32
"test.op"(%val) : (i32) -> ()

pdl.pattern : benefit(2) {
  %0 = pdl.type
  %1 = pdl.attribute = 0 : i32
  %2 = pdl.operation "arith.constant" {"value" = %1} -> (%0 : !pdl.type)
  pdl.rewrite %2 {
    %3 = pdl.attribute = 1 : i32
    %4 = pdl.operation "arith.constant" {"value" = %3} -> (%0 : !pdl.type)
    pdl.replace %2 with %4
  }
}
