// C27 witness, terminating variant: the second op has attr = 1 : i32 (near-miss), the pattern requires 0 : i32.
//   apply-pdl rewrites only the first op; convert-pdl-to-pdl-interp + apply-pdl-interp rewrites both.
%a = "test.op"() {attr = 0 : i32} : () -> (i32)
%b = "test.op"() {attr = 1 : i32} : () -> (i32)
"test.op"(%a, %b) : (i32, i32) -> ()

pdl.pattern : benefit(1) {
  %t = pdl.type
  %z = pdl.attribute = 0 : i32
  %o = pdl.operation "test.op" {"attr" = %z} -> (%t : !pdl.type)
  pdl.rewrite %o {
    %n = pdl.operation "test.pureop" -> (%t : !pdl.type)
    pdl.replace %o with %n
  }
}
