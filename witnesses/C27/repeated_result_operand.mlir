// C27 witness: the pattern requires BOTH operands of the root to be the same value (%r, result 0 of a "test.op").
//   apply-pdl rewrites only %same; convert-pdl-to-pdl-interp + apply-pdl-interp also rewrites %diff = (%d, %e): the
//   generated matcher has no constraint at all on operand 1 (pdl.ResultOp is missing from the 'already visited value'
//   equality list in PatternAnalyzer.extract_tree_predicates).
%d = "test.op"() : () -> (i32)
%e = "test.op"() : () -> (i32)
%same = "test.pureop"(%d, %d) : (i32, i32) -> (i32)
%diff = "test.pureop"(%d, %e) : (i32, i32) -> (i32)
"test.op"(%same, %diff) : (i32, i32) -> ()

pdl.pattern : benefit(1) {
  %t = pdl.type
  %def = pdl.operation "test.op" -> (%t : !pdl.type)
  %r = pdl.result 0 of %def
  %o = pdl.operation "test.pureop" (%r, %r : !pdl.value, !pdl.value) -> (%t : !pdl.type)
  pdl.rewrite %o {
    pdl.replace %o with (%r : !pdl.value)
  }
}
