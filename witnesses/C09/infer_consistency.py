"""C09 witnesses: can_infer() is true but infer() raises / returns a value the constraint rejects.
Run with /venv/bin/python.  Proposed fix: /verif/.work/fixes/C09-infer-consistency.diff"""
from xdsl.dialects.builtin import ArrayAttr, ArrayOfConstraint, IntAttr, IntAttrConstraint, i32
from xdsl.irdl import (AllOf, AnyAttr, AnyInt, AtLeast, BaseAttr, ConstraintContext, EqAttrConstraint, IntSetConstraint,
                       IntVarConstraint, RangeLengthConstraint, RangeOf, RangeVarConstraint, SingleOf)

# (1) RangeLengthConstraint.infer(length=None) infers the length unconditionally
c = RangeLengthConstraint(SingleOf(EqAttrConstraint(i32)), AtLeast(1))
assert c.verifies((i32,))
assert c.can_infer(set(), length_known=False)
try:
    print("(1a) inferred", c.infer(ConstraintContext(), length=None))
except ValueError as e:
    print("(1a) can_infer=True but infer raised ValueError:", e)

c = RangeLengthConstraint(RangeVarConstraint("R", RangeOf(AnyAttr())), AtLeast(0))
ctx = ConstraintContext()
c.verify((i32, i32), ctx)
assert c.can_infer({"R"}, length_known=False)
try:
    print("(1b) inferred", c.infer(ctx, length=None))
except ValueError as e:
    print("(1b) can_infer=True but infer raised ValueError:", e)

# second symptom: IntSetConstraint.infer returns an arbitrary member -> wrong-length range
c = RangeLengthConstraint(SingleOf(EqAttrConstraint(i32)), IntSetConstraint(frozenset((0, 1))))
assert c.verifies((i32,)) and c.can_infer(set(), length_known=False)
r = c.infer(ConstraintContext(), length=None)
print("(1c) inferred", r, "verifies:", c.verifies(r))

# (2) AllOf.infer only looks at context.attr_variables
c = AllOf((IntAttrConstraint(IntVarConstraint("N", AnyInt())), BaseAttr(IntAttr)))
ctx = ConstraintContext()
c.verify(IntAttr(3), ctx)
assert c.can_infer({"N"})
try:
    print("(2a) inferred", c.infer(ctx))
except ValueError as e:
    print("(2a) can_infer=True but infer raised ValueError:", e)
c = AllOf((ArrayOfConstraint(RangeVarConstraint("R", RangeOf(AnyAttr()))), BaseAttr(ArrayAttr)))
ctx = ConstraintContext()
c.verify(ArrayAttr([i32]), ctx)
assert c.can_infer({"R"})
try:
    print("(2b) inferred", c.infer(ctx))
except ValueError as e:
    print("(2b) can_infer=True but infer raised ValueError:", e)
