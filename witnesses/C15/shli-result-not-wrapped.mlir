// MLIR: (64 << 2) mod 2^8 = 0.  xDSL interpreter returns 256, outside the signless range [-128, 256) of i8.
func.func @main() -> i8 {
  %a = arith.constant 64 : i8
  %b = arith.constant 2 : i8
  %r = arith.shli %a, %b : i8
  func.return %r : i8
}
