// MLIR: 0xFFFFFFFF <u 1 is false -> 0.  xDSL interpreter (Interpreter.call_op "main"): True.
func.func @main() -> i1 {
  %a = arith.constant -1 : i32
  %b = arith.constant 1 : i32
  %r = arith.cmpi ult, %a, %b : i32
  func.return %r : i1
}
