// f32: 1.0 + 1e-10 rounds to 1.0, so the comparison is true (and 3.0e38 * 10.0 is +inf).
// xDSL interpreter computes in binary64 without rounding to f32: %s = 1.0000000001, %r = False.
func.func @main() -> i1 {
  %one = arith.constant 1.0 : f32
  %eps = arith.constant 1.0e-10 : f32
  %s = arith.addf %one, %eps : f32
  %r = arith.cmpf oeq, %s, %one : f32
  func.return %r : i1
}
