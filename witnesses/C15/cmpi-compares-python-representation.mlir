// %c is true for every %x; comparing it with the constant true must give true.
// xDSL interpreter: cmpi returns python True (+1), arith.constant true is -1 (signed-canonical i1), and
// cmpi eq compares the raw python values -> False. Same root cause: `cmpi slt, %c, %false` gives False (MLIR: -1 < 0).
func.func @main(%x: i32) -> i1 {
  %t = arith.constant true
  %c = arith.cmpi eq, %x, %x : i32
  %r = arith.cmpi eq, %c, %t : i1
  func.return %r : i1
}
