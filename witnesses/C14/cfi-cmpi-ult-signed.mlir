// C14 witness: fold:constant-fold-interp:cmpi-unsigned-predicate-evaluated-as-signed
// pass: constant-fold-interp
func.func @main() -> i1 {
  %a = arith.constant -1 : i32
  %b = arith.constant 5 : i32
  %r = arith.cmpi ult, %a, %b : i32
  func.return %r : i1
}
