// C14 witness: raise:test-constant-folding:VerifyException:addi-sum-not-wrapped
// pass: test-constant-folding
func.func @main() -> i8 {
  %a = arith.constant -128 : i8
  %b = arith.constant -1 : i8
  %r = arith.addi %a, %b : i8
  func.return %r : i8
}
