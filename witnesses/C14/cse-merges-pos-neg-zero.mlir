// C14 witness: merge:cse:float-constants-pos-zero-and-neg-zero-merged
// pass: cse
func.func @main() -> (f32, f32) {
  %a = arith.constant 0.0 : f32
  %b = arith.constant -0.0 : f32
  func.return %a, %b : f32, f32
}
