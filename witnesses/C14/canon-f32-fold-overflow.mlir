// C14 witness: raise:canonicalize:OverflowError:float-fold-result-overflows-narrow-type
// pass: canonicalize
func.func @main() -> f32 {
  %a = arith.constant 3.4028235e+38 : f32
  %b = arith.constant 2.0 : f32
  %r = arith.mulf %a, %b : f32
  func.return %r : f32
}
