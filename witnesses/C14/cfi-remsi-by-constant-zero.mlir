// C14 witness: raise:constant-fold-interp:AssertionError:constant-division-by-zero
// pass: constant-fold-interp
func.func @main(%c: i1) -> i32 {
  %a = arith.constant 7 : i32
  %z = arith.constant 0 : i32
  %r = scf.if %c -> (i32) {
    %d = arith.remsi %a, %z : i32
    scf.yield %d : i32
  } else {
    scf.yield %a : i32
  }
  func.return %r : i32
}
