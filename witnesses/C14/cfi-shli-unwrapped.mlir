// C14 witness: raise:constant-fold-interp:VerifyException:shli-result-not-wrapped
// pass: constant-fold-interp
func.func @main() -> i8 {
  %a = arith.constant -100 : i8
  %s = arith.constant 1 : i8
  %r = arith.shli %a, %s : i8
  func.return %r : i8
}
