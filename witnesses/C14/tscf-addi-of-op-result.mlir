// C14 witness: raise:test-specialised-constant-folding:AssertionError:addi-with-non-constant-operand
// pass: test-specialised-constant-folding
%u = "test.op"() : () -> i32
%c = arith.constant 1 : i32
%r = arith.addi %u, %c : i32
"test.op"(%r) : (i32) -> ()
