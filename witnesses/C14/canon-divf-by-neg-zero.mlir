// C14 witness: fold:canonicalize:divf-by-zero-constant-ignores-divisor-sign-and-nan
// pass: canonicalize
func.func @main() -> (f32, f64) {
  %a = arith.constant 1.0 : f32
  %z = arith.constant -0.0 : f32
  %r = arith.divf %a, %z : f32
  %n = arith.constant 0x7FF8000000000000 : f64
  %p = arith.constant 0.0 : f64
  %q = arith.divf %n, %p : f64
  func.return %r, %q : f32, f64
}
