// C14 witness: verify:test-specialised-constant-folding:constant-attribute:integer-constant-out-of-range
// pass: test-specialised-constant-folding
%a = arith.constant -128 : i8
%b = arith.constant -1 : i8
%r = arith.addi %a, %b : i8
"test.op"(%r) : (i8) -> ()
