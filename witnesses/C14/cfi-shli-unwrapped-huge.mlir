// C14 witness: raise:constant-fold-interp:ValueError:shli-result-not-wrapped
// pass: constant-fold-interp
func.func @main() -> i32 {
  %a = arith.constant 1 : i32
  %s = arith.constant 1048576 : i32
  %r = arith.shli %a, %s : i32
  %k = arith.constant 1 : i32
  func.return %k : i32
}
