// C14 witness: raise:test-constant-folding:AssertionError:addi-with-non-constant-operand
// pass: test-constant-folding
func.func @main(%x: i32) -> i32 {
  %c = arith.constant 1 : i32
  %m = arith.muli %x, %c : i32
  %r = arith.addi %m, %c : i32
  func.return %r : i32
}
