// C14 witness: raise:constant-fold-interp:AssertionError:negative-shift-amount
// pass: constant-fold-interp
func.func @main() -> i32 {
  %a = arith.constant 7 : i32
  %s = arith.constant -1 : i32
  %r = arith.shrsi %a, %s : i32
  %k = arith.constant 1 : i32
  func.return %k : i32
}
