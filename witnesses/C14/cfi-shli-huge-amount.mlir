// C14 witness: raise:constant-fold-interp:MemoryError:huge-shift-amount
// pass: constant-fold-interp
func.func @main() -> i64 {
  %a = arith.constant 1 : i64
  %s = arith.constant 4611686018427387904 : i64
  %r = arith.shli %a, %s : i64
  %k = arith.constant 1 : i64
  func.return %k : i64
}
