// the pass never terminates (emits moves forever)
// xdsl-opt -p riscv-lower-parallel-mov
%0, %1, %2 = "test.op"() : () -> (!riscv.reg<t1>, !riscv.reg<zero>, !riscv.reg<s1>)
%3, %4, %5, %6 = riscv.parallel_mov %0, %1, %2, %0 [32, 32, 32, 32] {free_registers = [!riscv.reg<a0>]} : (!riscv.reg<t1>, !riscv.reg<zero>, !riscv.reg<s1>, !riscv.reg<t1>) -> (!riscv.reg<s1>, !riscv.reg<zero>, !riscv.reg<t1>, !riscv.reg<zero>)
"test.op"(%3, %4, %5, %6) : (!riscv.reg<s1>, !riscv.reg<zero>, !riscv.reg<t1>, !riscv.reg<zero>) -> ()
