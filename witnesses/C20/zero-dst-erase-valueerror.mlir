// ValueError: Attempting to delete SSA value that still has uses (a result slot is left None)
// xdsl-opt -p riscv-lower-parallel-mov
%0, %1 = "test.op"() : () -> (!riscv.reg<zero>, !riscv.reg<s1>)
%2, %3, %4 = riscv.parallel_mov %0, %1, %1 [32, 32, 32] : (!riscv.reg<zero>, !riscv.reg<s1>, !riscv.reg<s1>) -> (!riscv.reg<s1>, !riscv.reg<zero>, !riscv.reg<zero>)
"test.op"(%2, %3, %4) : (!riscv.reg<s1>, !riscv.reg<zero>, !riscv.reg<zero>) -> ()
