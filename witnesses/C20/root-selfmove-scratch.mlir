// mv s2<-s1; mv s1<-s4; mv s4<-s3; mv s3<-s1 : destination s1 (self-move) holds old s4, its user still reads the original value %0
// xdsl-opt -p riscv-lower-parallel-mov
%0, %1, %2 = "test.op"() : () -> (!riscv.reg<s1>, !riscv.reg<s4>, !riscv.reg<s3>)
%3, %4, %5, %6 = riscv.parallel_mov %0, %0, %1, %2 [32, 32, 32, 32] : (!riscv.reg<s1>, !riscv.reg<s1>, !riscv.reg<s4>, !riscv.reg<s3>) -> (!riscv.reg<s1>, !riscv.reg<s2>, !riscv.reg<s3>, !riscv.reg<s4>)
"test.op"(%3, %4, %5, %6) : (!riscv.reg<s1>, !riscv.reg<s2>, !riscv.reg<s3>, !riscv.reg<s4>) -> ()
