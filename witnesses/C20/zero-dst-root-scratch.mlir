// pseudo cycle zero<->s1 broken with tree root a5 as scratch: a5 becomes 0
// xdsl-opt -p riscv-lower-parallel-mov
%0, %1, %2 = "test.op"() : () -> (!riscv.reg<zero>, !riscv.reg<a5>, !riscv.reg<s1>)
%3, %4, %5 = riscv.parallel_mov %0, %1, %2 [32, 32, 32] : (!riscv.reg<zero>, !riscv.reg<a5>, !riscv.reg<s1>) -> (!riscv.reg<s1>, !riscv.reg<s2>, !riscv.reg<zero>)
"test.op"(%3, %4, %5) : (!riscv.reg<s1>, !riscv.reg<s2>, !riscv.reg<zero>) -> ()
"test.op"(%1) : (!riscv.reg<a5>) -> ()
