// KeyError in ParallelMovPattern.match_and_rewrite
// xdsl-opt -p riscv-lower-parallel-mov
%0, %1 = "test.op"() : () -> (!riscv.reg<s1>, !riscv.reg<zero>)
%2, %3 = riscv.parallel_mov %0, %1 [32, 32] : (!riscv.reg<s1>, !riscv.reg<zero>) -> (!riscv.reg<zero>, !riscv.reg<zero>)
"test.op"(%2, %3) : (!riscv.reg<zero>, !riscv.reg<zero>) -> ()
