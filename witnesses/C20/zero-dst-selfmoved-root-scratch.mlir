// pseudo cycle zero<->s3 broken with the self-moved destination s1 (root of the tree s1->s2) as scratch: s1 becomes 0
// xdsl-opt -p riscv-lower-parallel-mov
%v0, %v1, %v2 = "test.op"() : () -> (!riscv.reg<s1>, !riscv.reg<zero>, !riscv.reg<s3>)
%o0, %o1, %o2, %o3 = riscv.parallel_mov %v0, %v0, %v1, %v2 [32, 32, 32, 32] : (!riscv.reg<s1>, !riscv.reg<s1>, !riscv.reg<zero>, !riscv.reg<s3>) -> (!riscv.reg<s1>, !riscv.reg<s2>, !riscv.reg<s3>, !riscv.reg<zero>)
"test.op"(%o0, %o1, %o2, %o3) : (!riscv.reg<s1>, !riscv.reg<s2>, !riscv.reg<s3>, !riscv.reg<zero>) -> ()
