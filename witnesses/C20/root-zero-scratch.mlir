// x0 is taken as scratch register for the cycle s2<->s3: the saved value is discarded, one cycle register ends up 0
// xdsl-opt -p riscv-lower-parallel-mov
%0, %1, %2 = "test.op"() : () -> (!riscv.reg<zero>, !riscv.reg<s2>, !riscv.reg<s3>)
%3, %4, %5 = riscv.parallel_mov %0, %1, %2 [32, 32, 32] : (!riscv.reg<zero>, !riscv.reg<s2>, !riscv.reg<s3>) -> (!riscv.reg<s1>, !riscv.reg<s3>, !riscv.reg<s2>)
"test.op"(%3, %4, %5) : (!riscv.reg<s1>, !riscv.reg<s3>, !riscv.reg<s2>) -> ()
