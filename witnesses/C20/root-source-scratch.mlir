// mv s3<-a5; mv a5<-s2; mv s2<-s1; mv s1<-a5 : a5 (a source, not a destination, not a designated free register, still used afterwards) now holds old s2
// xdsl-opt -p riscv-lower-parallel-mov
%0, %1, %2 = "test.op"() : () -> (!riscv.reg<s2>, !riscv.reg<s1>, !riscv.reg<a5>)
%3, %4, %5 = riscv.parallel_mov %0, %1, %2 [32, 32, 32] : (!riscv.reg<s2>, !riscv.reg<s1>, !riscv.reg<a5>) -> (!riscv.reg<s1>, !riscv.reg<s2>, !riscv.reg<s3>)
"test.op"(%3, %4, %5) : (!riscv.reg<s1>, !riscv.reg<s2>, !riscv.reg<s3>) -> ()
"test.op"(%2) : (!riscv.reg<a5>) -> ()
