// AssertionError in ParallelMovPattern.match_and_rewrite (verifier accepts repeated zero destinations)
// xdsl-opt -p riscv-lower-parallel-mov
%0 = "test.op"() : () -> (!riscv.reg<s1>)
%1, %2 = riscv.parallel_mov %0, %0 [32, 32] : (!riscv.reg<s1>, !riscv.reg<s1>) -> (!riscv.reg<zero>, !riscv.reg<zero>)
"test.op"(%1, %2) : (!riscv.reg<zero>, !riscv.reg<zero>) -> ()
