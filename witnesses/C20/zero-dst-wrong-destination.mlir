// xor-swap of s1 with x0: s1 keeps its old value instead of becoming 0
// xdsl-opt -p riscv-lower-parallel-mov
%0, %1 = "test.op"() : () -> (!riscv.reg<zero>, !riscv.reg<s1>)
%2, %3 = riscv.parallel_mov %0, %1 [32, 32] : (!riscv.reg<zero>, !riscv.reg<s1>) -> (!riscv.reg<s1>, !riscv.reg<zero>)
"test.op"(%2, %3) : (!riscv.reg<s1>, !riscv.reg<zero>) -> ()
