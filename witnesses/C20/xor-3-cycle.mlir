// xor-swap(s3,s2) then xor-swap(s1,s2): s1=old s3, s2=old s1, s3=old s2 (inverse rotation); wanted s1=old s2, s2=old s3, s3=old s1
// xdsl-opt -p riscv-lower-parallel-mov
%0, %1, %2 = "test.op"() : () -> (!riscv.reg<s2>, !riscv.reg<s3>, !riscv.reg<s1>)
%3, %4, %5 = riscv.parallel_mov %0, %1, %2 [32, 32, 32] : (!riscv.reg<s2>, !riscv.reg<s3>, !riscv.reg<s1>) -> (!riscv.reg<s1>, !riscv.reg<s2>, !riscv.reg<s3>)
"test.op"(%3, %4, %5) : (!riscv.reg<s1>, !riscv.reg<s2>, !riscv.reg<s3>) -> ()
