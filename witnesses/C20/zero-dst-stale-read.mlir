// the pseudo cycle zero<->s1 is lowered twice; the second copy reads %1 (s1) after s1 was overwritten
// xdsl-opt -p riscv-lower-parallel-mov
%0, %1 = "test.op"() : () -> (!riscv.reg<zero>, !riscv.reg<s1>)
%2, %3, %4 = riscv.parallel_mov %0, %1, %1 [32, 32, 32] {free_registers = [!riscv.reg<s10>]} : (!riscv.reg<zero>, !riscv.reg<s1>, !riscv.reg<s1>) -> (!riscv.reg<s1>, !riscv.reg<zero>, !riscv.reg<zero>)
"test.op"(%2, %3, %4) : (!riscv.reg<s1>, !riscv.reg<zero>, !riscv.reg<zero>) -> ()
