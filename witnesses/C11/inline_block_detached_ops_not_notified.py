"""C11 witness: PatternRewriter.inline_block of a free-standing (never attached) block attaches its operations to the
IR, but no insertion notification is sent for them (Builder.insert of the same ops would notify)."""
from xdsl.dialects.builtin import ModuleOp, i32
from xdsl.dialects.test import TestOp
from xdsl.ir import Block
from xdsl.pattern_rewriter import PatternRewriteWalker, PatternRewriterListener, RewritePattern
from xdsl.rewriter import InsertPoint

anchor = TestOp.create()
module = ModuleOp([anchor])
events = []
listener = PatternRewriterListener(operation_insertion_handler=[lambda o: events.append(("ins", o))])
done = []


class InlineNew(RewritePattern):
    def match_and_rewrite(self, op, rw):
        if op is anchor and not done:
            done.append(1)
            new_op = TestOp.create(result_types=[i32])
            rw.inline_block(Block([new_op]), InsertPoint.before(op))


PatternRewriteWalker(InlineNew(), listener=listener).rewrite_module(module)
print(module)
print("ops in module:", len(list(module.body.walk())), "| insertion notifications:", len(events))
