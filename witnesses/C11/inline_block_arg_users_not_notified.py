"""C11 witness: PatternRewriter.inline_block(block, ip, arg_values) rewires the users of the block arguments
(operand %arg -> %v) but the registered listener receives no modification notification for the user.
Run: /venv/bin/python inline_block_arg_users_not_notified.py   (prints the events the listener saw)"""
from xdsl.dialects.builtin import ModuleOp, i32
from xdsl.dialects.test import TestOp
from xdsl.ir import Block, Region
from xdsl.pattern_rewriter import PatternRewriteWalker, PatternRewriterListener, RewritePattern
from xdsl.rewriter import InsertPoint

v = TestOp.create(result_types=[i32])
inner = Block(arg_types=[i32])
user = TestOp.create(operands=[inner.args[0]], result_types=[i32])
inner.add_op(user)
holder = TestOp.create(operands=[v.results[0]], regions=[Region(inner)])
module = ModuleOp([v, holder])
events = []
listener = PatternRewriterListener(
    operation_insertion_handler=[lambda o: events.append(("ins", o))],
    operation_removal_handler=[lambda o: events.append(("rem", o))],
    operation_modification_handler=[lambda o: events.append(("mod", o))],
    operation_replacement_handler=[lambda o, n: events.append(("rep", o))])


class Inline(RewritePattern):
    def match_and_rewrite(self, op, rw):
        if op is holder:
            rw.inline_block(inner, InsertPoint.before(op), [op.operands[0]])
            rw.erase(op)


PatternRewriteWalker(Inline(), listener=listener).rewrite_module(module)
print(module)
print("user operand is now v's result:", user.operands[0] is v.results[0])
print("events:", [(k, o.name, o is user) for k, o in events])
assert user.operands[0] is v.results[0]
print("modification notification for the user:", any(k == "mod" and o is user for k, o in events))
