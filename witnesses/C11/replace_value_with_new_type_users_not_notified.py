"""C11 witness: PatternRewriter.replace_value_with_new_type(val, ty) replaces `val` by a new SSA value in every user
(their operands change) but only the owner op is reported as modified; the users get no notification."""
from xdsl.dialects.builtin import ModuleOp, i32, i64
from xdsl.dialects.test import TestOp
from xdsl.pattern_rewriter import PatternRewriteWalker, PatternRewriterListener, RewritePattern

d = TestOp.create(result_types=[i32])
user = TestOp.create(operands=[d.results[0]])
module = ModuleOp([d, user])
events = []
listener = PatternRewriterListener(operation_modification_handler=[lambda o: events.append(("mod", o))])


class Retype(RewritePattern):
    def match_and_rewrite(self, op, rw):
        if op is d and op.results[0].type == i32:
            rw.replace_value_with_new_type(op.results[0], i64)


old = d.results[0]
PatternRewriteWalker(Retype(), listener=listener).rewrite_module(module)
print(module)
print("user operand replaced:", user.operands[0] is not old, "| events:", [(k, "user" if o is user else "owner") for k, o in events])
print("modification notification for the user:", any(o is user for _k, o in events))
