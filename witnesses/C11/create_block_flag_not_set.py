"""C11 witness: PatternRewriter.create_block (inherited from Builder) inserts a block into the IR but leaves
rewriter.has_done_action False; a pattern whose only action is create_block makes the walker return False although
the IR changed."""
from xdsl.dialects.builtin import ModuleOp, i32
from xdsl.dialects.test import TestOp
from xdsl.ir import Block, Region
from xdsl.pattern_rewriter import PatternRewriteWalker, RewritePattern
from xdsl.rewriter import BlockInsertPoint

op = TestOp.create(regions=[Region(Block())])
module = ModuleOp([op])
before = str(module)


class AddBlock(RewritePattern):
    def match_and_rewrite(self, o, rw):
        if o is op and len(o.regions[0].blocks) == 1:
            rw.create_block(BlockInsertPoint.at_end(o.regions[0]), [i32])
            print("has_done_action after create_block:", rw.has_done_action)


ret = PatternRewriteWalker(AddBlock()).rewrite_module(module)
print("rewrite_module returned", ret, "| IR changed:", str(module) != before)
print(module)
