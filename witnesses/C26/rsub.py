# C26 witness: int - AffineExpr goes through AffineExpr.__rsub__, which computes self - other.
from xdsl.ir.affine import AffineExpr
d0 = AffineExpr.dimension(0)
e = 3 - d0
print(e, e.eval([10], []))   # prints "(d0 + -3) 7"; intended 3 - 10 = -7
assert e.eval([10], []) == -7, "int - expr evaluates as expr - int"
