"""C03 witnesses on the unchanged tree (each line prints what is_structurally_equivalent answers / should answer)."""
from xdsl.context import Context
from xdsl.dialects import get_all_dialects
from xdsl.parser import Parser


def parse(t):
    c = Context(allow_unregistered=True)
    for n, f in get_all_dialects().items():
        c.register_dialect(n, f)
    return Parser(c, t).parse_module()


# 1. result types are ignored
a = parse('"test.op"() : () -> i32')
b = parse('"test.op"() : () -> i64')
print("1. () -> i32 vs () -> i64 equivalent:", a.is_structurally_equivalent(b), "(expected False)")

# 2. forward reference (graph region): IR is not equivalent to its own clone / to a second parse of the same text
t = '"test.op"() ({ "test.op"(%1) : (i32) -> ()\n %1 = "test.op"() : () -> i32 }) : () -> ()'
m = parse(t)
print("2. forward-ref module vs its clone:", m.is_structurally_equivalent(m.clone()), "(expected True)")
print("   forward-ref module vs re-parse :", m.is_structurally_equivalent(parse(t)), "(expected True)")

# 3. an op attached to a block is not even equivalent to itself
m = parse('%0 = "test.op"() : () -> i32')
op = m.body.block.first_op
print("3. attached op vs itself:", op.is_structurally_equivalent(op), "(expected True); vs its detached clone:",
      op.is_structurally_equivalent(op.clone()))

# 4. CSE: OperationInfo.__eq__ raises for twins with a different number of regions
from xdsl.transforms.common_subexpression_elimination import CommonSubexpressionElimination
m = parse('%0 = "test.pureop"() : () -> i32\n%1 = "test.pureop"() ({}) : () -> i32\n"test.op"(%0, %1) : (i32, i32) -> ()')
try:
    CommonSubexpressionElimination().apply(Context(), m)
    print("4. cse on twins with 0 / 1 regions: ok")
except ValueError as e:
    print("4. cse on twins with 0 / 1 regions raised ValueError:", e)

# 5. consequence of 1: CSE merges pure ops whose regions differ only in a nested result type
m = parse('%0 = "test.pureop"() ({ %x = "test.op"() : () -> i32 }) : () -> i32\n'
          '%1 = "test.pureop"() ({ %x = "test.op"() : () -> i64 }) : () -> i32\n'
          '"test.op"(%0, %1) : (i32, i32) -> ()')
CommonSubexpressionElimination().apply(Context(), m)
print("5. ops left after cse (expected 3):", len(list(m.body.block.ops)))
