// riscv-allocate-registers{force_infinite=true}: the carried tuple (%x, %a, %y, %ra) lives in a spill register,
// reserved while the body is allocated; freeing %y pushes it back anyway (RegisterStack.push ignores reservations
// of negative indices), so %d, defined while %a is live, receives the same spill register and clobbers %a.
riscv_func.func @f(%a0: !riscv.reg<a0>) -> !riscv.reg<a0> {
  %lb = rv32.li 1 : !riscv.reg
  %ub = rv32.li 3 : !riscv.reg
  %a = riscv.addi %a0, 1 : (!riscv.reg<a0>) -> !riscv.reg
  %d = rv32.li 9 : !riscv.reg
  riscv.sw %d, %d, 0 : (!riscv.reg, !riscv.reg) -> ()
  %ra = riscv_scf.for %i : !riscv.reg = %lb to %ub step 1 : si12 iter_args(%x = %a) -> (!riscv.reg) {
    %y = riscv.add %x, %x : (!riscv.reg, !riscv.reg) -> !riscv.reg
    riscv_scf.yield %y : !riscv.reg
  }
  %r = riscv.mv %ra : (!riscv.reg) -> !riscv.reg<a0>
  riscv_func.return %r : !riscv.reg<a0>
}
