// riscv-allocate-registers: pass-through yield of a loop-carried block argument.
// allocate_values_same_reg((%x, %a, %x, %ra)) replaces %x, then replaces the stale %x again: the body keeps using
// a block argument that is no longer attached (printed as %x_1, "values used but not defined" on re-parse).
riscv_func.func @f(%n: !riscv.reg<a0>) -> !riscv.reg<a0> {
  %lb = rv32.li 0 : !riscv.reg
  %one = rv32.li 1 : !riscv.reg
  %ub = rv32.li 3 : !riscv.reg
  %a = rv32.li 5 : !riscv.reg
  %ra = riscv_scf.for %i : !riscv.reg = %lb to %ub step %one iter_args(%x = %a) -> (!riscv.reg) {
    riscv.sw %x, %x, 0 : (!riscv.reg, !riscv.reg) -> ()
    riscv_scf.yield %x : !riscv.reg
  }
  %r = riscv.mv %ra : (!riscv.reg) -> !riscv.reg<a0>
  riscv_func.return %r : !riscv.reg<a0>
}
