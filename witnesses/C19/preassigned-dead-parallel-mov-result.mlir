// riscv-allocate-registers: %p is pre-assigned t0 and never read; riscv.parallel_mov carries no register effects,
// so all_used_registers does not see t0 and t0 is handed to %x, which is live across the parallel_mov that writes t0.
riscv_func.func @f(%a0: !riscv.reg<a0>) -> !riscv.reg<a0> {
  %x = riscv.addi %a0, 1 : (!riscv.reg<a0>) -> !riscv.reg
  %y = riscv.addi %a0, 2 : (!riscv.reg<a0>) -> !riscv.reg
  %p = riscv.parallel_mov %y [32] : (!riscv.reg) -> (!riscv.reg<t0>)
  %r = riscv.mv %x : (!riscv.reg) -> !riscv.reg<a0>
  riscv_func.return %r : !riscv.reg<a0>
}
