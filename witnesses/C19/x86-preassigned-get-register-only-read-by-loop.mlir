// x86 allocator, X86RegisterStack.get(allocatable_registers=['rbx', 'r9', 'r15', 'r10', 'rdx', 'r11', 'rax', 'rsi', 'r13', 'rcx', 'rdi', 'r14', 'r8'], allow_infinite=True):
// %in2 (rsi, from x86.get_register) is only read as iter_args of the last x86_scf.for; neither op has register effects, so
// all_used_registers does not exclude rsi and %c3, %iv5, %le7, ... are allocated to rsi while %in2 is live.
x86_func.func @f() {
  %in1 = x86.get_register : !x86.reg64<rdi>
  %in2 = x86.get_register : !x86.reg64<rsi>
  %c3 = x86.di.mov 0 : () -> !x86.reg64
  %c4 = x86.di.mov 2 : () -> !x86.reg64
  %le7, %lr8 = x86_scf.for %iv5 : !x86.reg64 = %c3 to 0 : si32 step %c4 iter_args(%ca6 = %in1) -> (!x86.reg64<rdi>) {
    %c9 = x86.di.mov 0 : () -> !x86.reg64
    %c10 = x86.di.mov 2147483647 : () -> !x86.reg64
    %c11 = x86.di.mov -2147483648 : () -> !x86.reg64
    %t12 = x86.r.not %ca6 : (!x86.reg64<rdi>) -> !x86.reg64<rdi>
    %m13 = x86.ds.mov %c4 : (!x86.reg64) -> !x86.reg64
    %m14 = x86.ds.mov %c4 : (!x86.reg64) -> !x86.reg64
    %t15 = x86.rs.and %m14, %c4 : (!x86.reg64, !x86.reg64) -> !x86.reg64
    %y16 = x86.ds.mov %c4 : (!x86.reg64) -> !x86.reg64<rdi>
    x86_scf.yield %y16 : !x86.reg64<rdi>
  }
  %m17 = x86.ds.mov %le7 : (!x86.reg64) -> !x86.reg64
  %m18 = x86.ds.mov %m17 : (!x86.reg64) -> !x86.reg64
  %p19 = x86.parallel_mov %m17 : (!x86.reg64) -> (!x86.reg64)
  %c20 = x86.di.mov 1 : () -> !x86.reg64
  %c21 = x86.di.mov 2 : () -> !x86.reg64
  %le24, %lr25 = x86_scf.for %iv22 : !x86.reg64 = %c20 to 5 : si32 step %c21 iter_args(%ca23 = %le7) -> (!x86.reg64) {
    %t26 = x86.rs.add %ca23, %ca23 : (!x86.reg64, !x86.reg64) -> !x86.reg64
    %m27 = x86.ds.mov %c21 : (!x86.reg64) -> !x86.reg64
    %t28 = x86.rs.imul %m27, %lr8 : (!x86.reg64, !x86.reg64<rdi>) -> !x86.reg64
    %c29 = x86.di.mov -1 : () -> !x86.reg64
    %t30 = x86.rs.or %c29, %c29 : (!x86.reg64, !x86.reg64) -> !x86.reg64
    %c31 = x86.di.mov 0 : () -> !x86.reg64
    %t32 = x86.r.not %t30 : (!x86.reg64) -> !x86.reg64
    %y33 = x86.ds.mov %m18 : (!x86.reg64) -> !x86.reg64
    x86_scf.yield %y33 : !x86.reg64
  }
  %c34 = x86.di.mov 0 : () -> !x86.reg64
  %c35 = x86.di.mov 4 : () -> !x86.reg64
  %c36 = x86.di.mov 2 : () -> !x86.reg64
  %le41, %lr42, %lr43, %lr44 = x86_scf.for %iv37 : !x86.reg64 = %c34 to %c35 step %c36 iter_args(%ca38 = %p19, %ca39 = %c21, %ca40 = %in2) -> (!x86.reg64, !x86.reg64, !x86.reg64<rsi>) {
    %t45 = x86.rs.and %ca38, %iv37 : (!x86.reg64, !x86.reg64) -> !x86.reg64
    %y46 = x86.ds.mov %c36 : (!x86.reg64) -> !x86.reg64
    %y47 = x86.ds.mov %ca39 : (!x86.reg64) -> !x86.reg64
    x86_scf.yield %y46, %y47, %ca40 : !x86.reg64, !x86.reg64, !x86.reg64<rsi>
  }
  %ret48 = x86.ds.mov %c36 : (!x86.reg64) -> !x86.reg64<rax>
  "test.allocatable"(%ret48) {operandSegmentSizes = array<i32: 1, 0>, resultSegmentSizes = array<i32: 0, 0>} : (!x86.reg64<rax>) -> ()
  x86_func.ret
}
