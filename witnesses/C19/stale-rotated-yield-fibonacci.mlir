// riscv-allocate-registers: fibonacci-style rotation `yield %y, %s`; the second tied tuple contains the stale %y.
riscv_func.func @f(%n: !riscv.reg<a0>) -> !riscv.reg<a0> {
  %lb = rv32.li 0 : !riscv.reg
  %one = rv32.li 1 : !riscv.reg
  %ub = rv32.li 3 : !riscv.reg
  %a0 = rv32.li 0 : !riscv.reg
  %a = riscv.mv %a0 : (!riscv.reg) -> !riscv.reg
  %b = rv32.li 1 : !riscv.reg
  %ra, %rb = riscv_scf.for %i : !riscv.reg = %lb to %ub step %one iter_args(%x = %a, %y = %b) -> (!riscv.reg, !riscv.reg) {
    %s = riscv.add %x, %y : (!riscv.reg, !riscv.reg) -> !riscv.reg
    riscv_scf.yield %y, %s : !riscv.reg, !riscv.reg
  }
  %r = riscv.mv %ra : (!riscv.reg) -> !riscv.reg<a0>
  riscv_func.return %r : !riscv.reg<a0>
}
