// riscv-allocate-registers: %v (the yielded next value) is computed while the carried %x is still needed.
// The tuple (%x, %a, %v, %ra) must share one register, so %v overwrites %x before `riscv.add %x, %v` reads it.
// No copy is inserted and no error is raised. (xDSL's own convert-scf-to-riscv-scf produces this shape.)
riscv_func.func @f(%n: !riscv.reg<a0>) -> !riscv.reg<a0> {
  %lb = rv32.li 0 : !riscv.reg
  %one = rv32.li 1 : !riscv.reg
  %ub = rv32.li 3 : !riscv.reg
  %a = rv32.li 5 : !riscv.reg
  %ra = riscv_scf.for %i : !riscv.reg = %lb to %ub step %one iter_args(%x = %a) -> (!riscv.reg) {
    %v = riscv.addi %x, 1 : (!riscv.reg) -> !riscv.reg
    %w = riscv.add %x, %v : (!riscv.reg, !riscv.reg) -> !riscv.reg
    riscv.sw %w, %w, 0 : (!riscv.reg, !riscv.reg) -> ()
    riscv_scf.yield %v : !riscv.reg
  }
  %r = riscv.mv %ra : (!riscv.reg) -> !riscv.reg<a0>
  riscv_func.return %r : !riscv.reg<a0>
}
