// riscv-allocate-registers: the induction variable is pre-assigned t0 but never read by an op with register
// effects, so t0 stays in the pool and is given to %x, which is live across the loop that counts in t0.
riscv_func.func @f(%a0: !riscv.reg<a0>) -> !riscv.reg<a0> {
  %x = riscv.addi %a0, 1 : (!riscv.reg<a0>) -> !riscv.reg
  %lb = rv32.li 0 : !riscv.reg
  %ub = rv32.li 3 : !riscv.reg
  riscv_scf.for %i : !riscv.reg<t0> = %lb to %ub step 1 : si12 {
    riscv.sw %ub, %ub, 0 : (!riscv.reg, !riscv.reg) -> ()
  }
  %r = riscv.mv %x : (!riscv.reg) -> !riscv.reg<a0>
  riscv_func.return %r : !riscv.reg<a0>
}
