// C24 witness: acyclic CFG ^bb0 -> {^bb1, ^bb2}, ^bb1 -> ^bb2.
// list(PostOrderIterator(^bb0)) == [^bb1, ^bb2, ^bb0]: ^bb1 is emitted before its successor ^bb2 although ^bb2 is not an
// ancestor of ^bb1 (no back edge), so the sequence is not a DFS post-order (reverse of it is not a topological order).
"test.op"() ({
^bb0:
  "test.termop"()[^bb1, ^bb2] : () -> ()
^bb1:
  "test.termop"()[^bb2] : () -> ()
^bb2:
  "test.termop"() : () -> ()
}) : () -> ()
