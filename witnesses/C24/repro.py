"""Reproduces the three C24 witnesses against the xdsl on sys.path:  /venv/bin/python repro.py"""
import os
from xdsl.context import Context
from xdsl.dialects import get_all_dialects
from xdsl.ir.post_order import PostOrderIterator
from xdsl.irdl.dominance import DominanceInfo
from xdsl.parser import Parser

here = os.path.dirname(os.path.abspath(__file__))


def load(name):
    ctx = Context()
    ctx.register_dialect("test", get_all_dialects()["test"])
    op = Parser(ctx, open(os.path.join(here, name)).read()).parse_op()
    return op, list(op.regions[0].blocks)


op, bb = load("dominance-unreachable-rootless-predecessor.mlir")
print("dominates(bb0, bb1) =", DominanceInfo(op.regions[0]).dominates(bb[0], bb[1]), "(path definition: True)")
op, bb = load("postorder-multi-edge-successor-yielded-twice.mlir")
print("post order:", [bb.index(b) for b in PostOrderIterator(bb[0])], "(definition: [1, 0])")
op, bb = load("postorder-successor-emitted-after-block.mlir")
print("post order:", [bb.index(b) for b in PostOrderIterator(bb[0])], "(definition: [2, 1, 0])")
