// C24 witness: the entry terminator names ^bb1 twice (like cf.cond_br %c, ^bb1, ^bb1).
// list(PostOrderIterator(^bb0)) == [^bb1, ^bb1, ^bb0]: ^bb1 is yielded twice (expected each reachable block once).
"test.op"() ({
^bb0:
  "test.termop"()[^bb1, ^bb1] : () -> ()
^bb1:
  "test.termop"() : () -> ()
}) : () -> ()
