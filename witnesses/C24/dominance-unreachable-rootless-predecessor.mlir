// C24 witness: ^bb2 is unreachable and has no predecessors, but is a predecessor of the reachable ^bb1.
// DominanceInfo(region).dominates(^bb0, ^bb1) answers False; every path entry -> ^bb1 passes through ^bb0 (expected True).
"test.op"() ({
^bb0:
  "test.termop"()[^bb1] : () -> ()
^bb1:
  "test.termop"() : () -> ()
^bb2:
  "test.termop"()[^bb1] : () -> ()
}) : () -> ()
