// C21 witness: 8 integer arguments (7th and 8th on the stack) and a body that needs callee-saved rbx.
// The prologue `push rbx` is inserted *before* the loads `mov rdx, [rsp+8]` / `mov rbx, [rsp+16]` whose offsets were
// computed for the entry rsp: the 7th argument is read from the return-address slot, the 8th from the 7th's slot.
// xdsl-opt -p convert-func-to-x86-func,convert-arith-to-x86,reconcile-unrealized-casts,canonicalize,dce,x86-allocate-registers,canonicalize,x86-prologue-epilogue-insertion -t x86-asm
func.func public @stackargs(%a: i64, %b: i64, %c: i64, %d: i64, %e: i64, %f: i64, %g: i64, %h: i64) -> i64 {
  %k = arith.constant 5 : i64
  %x = arith.addi %a, %h : i64
  %y = arith.muli %x, %g : i64
  %z = arith.addi %y, %k : i64
  func.return %z : i64
}
