// C21 witness: i32 code gets `ebx` from the allocator; x86-prologue-epilogue-insertion only recognises the
// 64-bit name `rbx` as callee-saved, so no push/pop is emitted and the caller's rbx is destroyed.
// xdsl-opt -p convert-func-to-x86-func,convert-arith-to-x86,reconcile-unrealized-casts,canonicalize,dce,x86-allocate-registers,canonicalize,x86-prologue-epilogue-insertion -t x86-asm
func.func public @alias(%a0: i32, %a1: i32, %a2: i32) -> i32 {
  %c = arith.constant -1 : i32
  %r = arith.muli %c, %a2 : i32
  func.return %r : i32
}
