// C21 witness: arith.muli on i8 is lowered to the two-operand imul with 8-bit registers (`imul cl, dl`), which has no
// encoding: the system assembler rejects the emitted file ("operand size mismatch for `imul'").
// xdsl-opt -p convert-func-to-x86-func,convert-arith-to-x86,reconcile-unrealized-casts,canonicalize,dce,x86-allocate-registers,canonicalize,x86-prologue-epilogue-insertion -t x86-asm
func.func public @mul8(%a: i8, %b: i8) -> i8 {
  %r = arith.muli %a, %b : i8
  func.return %r : i8
}
