"""C10 witness: AttrSized*Segments sizes are not required to sum to the list length nor to be non-negative.
Run: /venv/bin/python witnesses/C10/attr_sized_sum_and_sign.py  (prints what verify() and the accessors do)."""
from xdsl.dialects.builtin import DenseArrayBase, i32
from xdsl.dialects.test import TestOp
from xdsl.irdl import (AttrSizedOperandSegments, IRDLOperation, irdl_op_definition, operand_def, opt_operand_def,
                       var_operand_def)


@irdl_op_definition
class A(IRDLOperation):
    name = "t.a"
    a = operand_def()
    b = var_operand_def()
    c = opt_operand_def()
    irdl_options = (AttrSizedOperandSegments(),)


@irdl_op_definition
class B(IRDLOperation):
    name = "t.b"
    x = var_operand_def()
    y = var_operand_def()
    irdl_options = (AttrSizedOperandSegments(),)


v = TestOp(result_types=[i32] * 5).results
for cls, sizes, n in [(A, [1, 1, 1], 4), (A, [1, 5, 0], 4), (A, [1, 1, 1], 2), (B, [-1, 3], 2), (B, [-1, 1], 2)]:
    op = cls.create(operands=v[:n], attributes={"operandSegmentSizes": DenseArrayBase.from_list(i32, sizes)})
    try:
        op.verify()
        print(cls.name, sizes, "on", n, "operands: VERIFIES")
    except Exception as e:  # noqa: BLE001
        print(cls.name, sizes, "on", n, "operands:", type(e).__name__, str(e).splitlines()[-1][:90])
