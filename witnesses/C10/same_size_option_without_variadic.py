"""C10 witness: SameVariadic*Size on a list without variadic entries -> ZeroDivisionError in verify / accessor."""
from xdsl.dialects.builtin import i32
from xdsl.dialects.test import TestOp
from xdsl.irdl import IRDLOperation, SameVariadicOperandSize, irdl_op_definition, operand_def


@irdl_op_definition
class B(IRDLOperation):
    name = "t.b"
    a = operand_def()
    irdl_options = (SameVariadicOperandSize(),)


op = B(operands=[TestOp(result_types=[i32]).results[0]])
try:
    op.verify()
    print("verifies", op.a)
except Exception as e:  # noqa: BLE001
    print(type(e).__name__, e)
