// xdsl-opt -p dce (or canonicalize): %0, %1, %m, %n are unused and have no observable effect, but are kept;
// arith.extui / arith.remsi in the same position are removed.
func.func @f(%a: i32, %b: i8) -> i32 {
  %0 = arith.remui %a, %a : i32
  %1 = arith.extsi %b : i8 to i32
  %m = memref.alloc() : memref<4xi32>
  %n = memref.alloca() : memref<4xi32>
  func.return %a : i32
}
