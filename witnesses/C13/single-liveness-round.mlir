// xdsl-opt -p dce : %x stays although nothing uses it any more (a second `-p dce` removes it).
func.func @f(%a: i32, %c : i1) -> i32 {
  %x = arith.addi %a, %a : i32
  %r = scf.if %c -> (i32) {
    %q = arith.muli %x, %x : i32
    scf.yield %q : i32
  } else {
    scf.yield %a : i32
  }
  func.return %a : i32
}
