// C28 witness (independent of the constant-attribute defect: `0 : i32` appears only in the REWRITE section).
// Pipeline: eqsat-create-eclasses,convert-pdl-to-pdl-interp,convert-pdl-interp-to-eqsat-pdl-interp,
//   apply-eqsat-pdl-interp,eqsat-add-costs{default=1},eqsat-extract
// The sound rule x ^ x -> 0 creates `arith.constant 0`; hash-consing re-uses the identical constant %z that sits
// LATER in the block, so the class of %x is merged into the class of %z.  Extraction picks the (cheaper) constant and
// leaves `%r = arith.addi %a, %z` in front of the definition of %z: the extracted function uses a value before its
// definition (xDSL's verifier does not check dominance; the function cannot be executed in block order).
func.func @main(%a: i32) -> (i32, i32) {
  %m = arith.muli %a, %a : i32
  %x = arith.xori %m, %m : i32
  %r = arith.addi %a, %x : i32
  %z = arith.constant 0 : i32
  func.return %r, %z : i32, i32
}
pdl.pattern : benefit(1) {
  %t = pdl.type
  %v = pdl.operand
  %o = pdl.operation "arith.xori" (%v, %v : !pdl.value, !pdl.value) -> (%t : !pdl.type)
  pdl.rewrite %o {
    %na = pdl.attribute = 0 : i32
    %nc = pdl.operation "arith.constant" {"value" = %na} -> (%t : !pdl.type)
    pdl.replace %o with %nc
  }
}
