// C28 witness.  Pipeline: eqsat-create-eclasses,convert-pdl-to-pdl-interp,convert-pdl-interp-to-eqsat-pdl-interp,
//   apply-eqsat-pdl-interp,eqsat-add-costs{default=1},eqsat-extract
// The only rule is x + 0 -> x (sound); the function returns a + 1.  The compiled matcher has no check for the
// constant's value (0 : i32 is falsy), so the rule fires on `a + 1`, the classes of `a + 1` and `a` are merged and
// the extracted function returns a.
func.func @main(%a: i32) -> i32 {
  %c1 = arith.constant 1 : i32
  %r = arith.addi %a, %c1 : i32
  func.return %r : i32
}
pdl.pattern : benefit(1) {
  %t = pdl.type
  %x = pdl.operand
  %z = pdl.attribute = 0 : i32
  %c = pdl.operation "arith.constant" {"value" = %z} -> (%t : !pdl.type)
  %cr = pdl.result 0 of %c
  %a = pdl.operation "arith.addi" (%x, %cr : !pdl.value, !pdl.value) -> (%t : !pdl.type)
  pdl.rewrite %a {
    pdl.replace %a with (%x : !pdl.value)
  }
}
