"""C02 witness (corner): an op that uses its own result (graph region). clone() remaps the operand to the copy's
result, clone_without_regions() leaves it pointing at the SOURCE's result."""
from xdsl.dialects.builtin import i32
from xdsl.dialects.test import TestOp
from xdsl.utils.test_value import create_ssa_value

tmp = create_ssa_value(i32)
op = TestOp.create(operands=[tmp], result_types=[i32])
op.operands[0] = op.results[0]                       # %0 = "test.op"(%0)
a = op.clone()
b = op.clone_without_regions()
print("clone(): operand is own result:", a.operands[0] is a.results[0])
print("clone_without_regions(): operand is own result:", b.operands[0] is b.results[0], "| is source result:", b.operands[0] is op.results[0])
assert b.operands[0] is b.results[0], "C02 violated"
