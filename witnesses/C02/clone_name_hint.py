"""C02 witness (minor): clone copies name hints through the name_hint setter, which strips one more `_<digits>`
suffix: a value whose stored hint is "y_2" (set from "y_2_3") is cloned with hint "y"."""
from xdsl.dialects.builtin import i32
from xdsl.dialects.test import TestOp

op = TestOp.create(result_types=[i32])
op.results[0].name_hint = "y_2_3"
c = op.clone()
print("source hint:", op.results[0].name_hint, "copy hint:", c.results[0].name_hint)
assert c.results[0].name_hint == op.results[0].name_hint, "C02 (name hints) violated"
