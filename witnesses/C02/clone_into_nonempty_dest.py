"""C02 witness: Region.clone_into into a NON-EMPTY destination at index > 0.
The operand fix-up loop pairs source ops with dest.walk(), which starts at the pre-existing blocks:
the pre-existing op gets the (remapped) operands of the first source op, the cloned op keeps none."""
from xdsl.dialects.builtin import i32
from xdsl.dialects.test import TestOp
from xdsl.ir import Block, Region

src_block = Block(arg_types=[i32])
src_block.add_op(TestOp.create(operands=[src_block.args[0]]))          # "test.op"(%arg)
src = Region(src_block)

dest_block = Block()
pre = TestOp.create()                                                   # "test.op"() : pre-existing, no operands
dest_block.add_op(pre)
dest = Region(dest_block)

src.clone_into(dest, 1)                                                 # append after the pre-existing block
new_block = dest.blocks[1]
cloned = new_block.first_op
print("pre-existing op operands (expected 0):", len(pre.operands))
print("cloned op operands (expected 1, the new block argument):", len(cloned.operands))
assert len(pre.operands) == 0 and len(cloned.operands) == 1 and cloned.operands[0] is new_block.args[0], "C02 violated"
