"""C28 helpers: rewrite rules as expression pairs (rendered to PDL and validated with refsem on exhaustive i4
inputs), generator of pure arith DAG functions, the eqsat pipeline runner and an order-independent expression form.

Expressions: ("v", name) | ("c", int) | (opname, lhs, rhs) with opname in OPS.
"""
from __future__ import annotations

import itertools
import json
import os

OPS = {"add": "arith.addi", "mul": "arith.muli", "sub": "arith.subi", "shl": "arith.shli",
       "and": "arith.andi", "or": "arith.ori", "xor": "arith.xori", "divu": "arith.divui"}

X, Y, Z = ("v", "x"), ("v", "y"), ("v", "z")


def C(n):
    return ("c", n)


# name, lhs, rhs.  Both sound candidates and deliberately unsound ones: every rule is validated before use.
RULE_CANDIDATES = [
    ("add-zero", ("add", X, C(0)), X),
    ("mul-one", ("mul", X, C(1)), X),
    ("add-comm", ("add", X, Y), ("add", Y, X)),
    ("mul-comm", ("mul", X, Y), ("mul", Y, X)),
    ("mul-two-shl", ("mul", X, C(2)), ("shl", X, C(1))),
    ("mul-zero", ("mul", X, C(0)), C(0)),
    ("sub-self", ("sub", X, X), C(0)),
    ("sub-zero", ("sub", X, C(0)), X),
    ("add-self", ("add", X, X), ("mul", X, C(2))),
    ("add-assoc", ("add", ("add", X, Y), Z), ("add", X, ("add", Y, Z))),
    ("mul-assoc", ("mul", ("mul", X, Y), Z), ("mul", X, ("mul", Y, Z))),
    ("distrib", ("mul", X, ("add", Y, Z)), ("add", ("mul", X, Y), ("mul", X, Z))),
    ("factor", ("add", ("mul", X, Y), ("mul", X, Z)), ("mul", X, ("add", Y, Z))),
    ("and-self", ("and", X, X), X),
    ("or-zero", ("or", X, C(0)), X),
    ("xor-self", ("xor", X, X), C(0)),
    ("and-comm", ("and", X, Y), ("and", Y, X)),
    ("shl-zero", ("shl", X, C(0)), X),
    ("sub-add-cancel", ("sub", ("add", X, Y), Y), X),
    ("zero-add", ("add", C(0), X), X),
    ("one-mul", ("mul", C(1), X), X),
    # unsound on purpose (validator must reject them; they are never used in a pipeline)
    ("UNSOUND-sub-comm", ("sub", X, Y), ("sub", Y, X)),
    ("UNSOUND-add-one", ("add", X, C(1)), X),
    ("UNSOUND-mul2-div2", ("divu", ("mul", X, C(2)), C(2)), X),
    ("UNSOUND-div-self", ("divu", X, X), C(1)),
    ("UNSOUND-shl-one", ("shl", X, C(1)), X),
    ("UNSOUND-and-zero", ("and", X, C(0)), X),
    ("UNSOUND-mul-any-const", ("mul", X, C(2)), X),
]


def relaxed(rule):
    """Wrong-behaviour model of the known finding (falsy constant attribute constraints are dropped by the
    conversion): every `c 0` of the LHS becomes 'any constant' ("anyc", k)."""
    name, lhs, rhs = rule
    k = [0]

    def go(e):
        if e[0] == "c" and e[1] == 0:
            k[0] += 1
            return ("anyc", k[0])
        if e[0] in OPS:
            return (e[0], go(e[1]), go(e[2]))
        return e
    nl = go(lhs)
    return (name + "~relaxed", nl, rhs), k[0]


def expr_vars(e, acc=None):
    acc = [] if acc is None else acc
    if e[0] == "v":
        if e[1] not in acc:
            acc.append(e[1])
    elif e[0] in OPS:
        expr_vars(e[1], acc)
        expr_vars(e[2], acc)
    return acc


# ------------------------------------------------------------------------------------------------ rule -> func text
def expr_to_func_lines(e, ty, lines, env, n):
    """Emit arith ops computing e; returns ssa name."""
    if e[0] == "v":
        return env[e[1]]
    if e[0] == "c":
        n[0] += 1
        v = f"%k{n[0]}"
        lines.append(f"  {v} = arith.constant {e[1]} : {ty}")
        return v
    if e[0] == "anyc":
        return env[f"anyc{e[1]}"]
    a = expr_to_func_lines(e[1], ty, lines, env, n)
    b = expr_to_func_lines(e[2], ty, lines, env, n)
    n[0] += 1
    v = f"%k{n[0]}"
    lines.append(f"  {v} = {OPS[e[0]]} {a}, {b} : {ty}")
    return v


def rule_func_text(rule, ty="i4"):
    """`func @rule(vars...) -> (ty, ty)` returning (lhs, rhs); 'any constant' leaves of a relaxed rule are
    extra arguments (they range over all values)."""
    name, lhs, rhs = rule
    vs = expr_vars(lhs)
    for v in expr_vars(rhs):
        if v not in vs:
            vs.append(v)
    anyc = []

    def find(e):
        if e[0] == "anyc":
            anyc.append(f"anyc{e[1]}")
        elif e[0] in OPS:
            find(e[1])
            find(e[2])
    find(lhs)
    names = vs + anyc
    env = {v: f"%{v}" for v in names}
    lines: list[str] = []
    n = [0]
    a = expr_to_func_lines(lhs, ty, lines, env, n)
    b = expr_to_func_lines(rhs, ty, lines, env, n)
    sig = ", ".join(f"%{v}: {ty}" for v in names)
    return (f"func.func @rule({sig}) -> ({ty}, {ty}) {{\n" + "\n".join(lines) + f"\n  func.return {a}, {b} : {ty}, {ty}\n}}\n", len(names))


def validate_rule(rule, width=4):
    """Exhaustive check on i<width>: for every input LHS and RHS are both defined and equal, or both undefined.
    Returns (sound, number of inputs evaluated, first counterexample or None).  Oracle: xv.refsem only."""
    from xdsl.parser import Parser
    from xv import refsem
    from xv.corpus import new_ctx
    text, k = rule_func_text(rule, f"i{width}")
    m = Parser(new_ctx(), text).parse_module()
    n = 0
    for args in itertools.product(range(1 << width), repeat=k):
        n += 1
        # evaluate the two sides separately so that UB on one side only is seen
        try:
            res, _ = refsem.run(m, "rule", list(args))
        except refsem.Undefined:
            return False, n, list(args)
        if res[0] != res[1]:
            return False, n, list(args)
    return True, n, None


# ------------------------------------------------------------------------------------------------ rule -> PDL text
def rule_pdl(rule, ty, const_type_prob_rng=None, reuse_matched_const=True):
    """One `pdl.pattern` for the rule on programs of integer type `ty`."""
    name, lhs, rhs = rule
    rng = const_type_prob_rng
    lines = []
    n = [0]

    def fresh(p):
        n[0] += 1
        return f"%{p}{n[0]}"
    tconst = rng is not None and rng.random() < 0.3
    lines.append(f"  %t = pdl.type" + (f" : {ty}" if tconst else ""))
    venv: dict = {}
    matched: dict = {}  # lhs sub-expression -> value name (for reuse in the rhs)

    def m(e, is_root=False):
        if e[0] == "v":
            if e[1] not in venv:
                venv[e[1]] = fresh("x")
                lines.append(f"  {venv[e[1]]} = pdl.operand")
            return venv[e[1]]
        if e[0] in ("c", "anyc"):
            a, o, r = fresh("a"), fresh("c"), fresh("r")
            if e[0] == "c":
                lines.append(f"  {a} = pdl.attribute = {e[1]} : {ty}")
            else:
                lines.append(f"  {a} = pdl.attribute")
            lines.append(f'  {o} = pdl.operation "arith.constant" {{"value" = {a}}} -> (%t : !pdl.type)')
            lines.append(f"  {r} = pdl.result 0 of {o}")
            matched.setdefault(e, r)
            return r
        a = m(e[1])
        b = m(e[2])
        o = fresh("o")
        lines.append(f'  {o} = pdl.operation "{OPS[e[0]]}" ({a}, {b} : !pdl.value, !pdl.value) -> (%t : !pdl.type)')
        if is_root:
            return o
        r = fresh("r")
        lines.append(f"  {r} = pdl.result 0 of {o}")
        matched.setdefault(e, r)
        return r

    root = m(lhs, True)
    rw = []

    def b(e, top=False):
        """returns ('val', name) or ('op', name)"""
        if e[0] == "v":
            return ("val", venv[e[1]])
        if not top and e in matched and reuse_matched_const:
            return ("val", matched[e])
        if top and e in matched and reuse_matched_const:
            return ("val", matched[e])
        if e[0] == "c":
            a, o = fresh("na"), fresh("nc")
            rw.append(f"    {a} = pdl.attribute = {e[1]} : {ty}")
            rw.append(f'    {o} = pdl.operation "arith.constant" {{"value" = {a}}} -> (%t : !pdl.type)')
            if top:
                return ("op", o)
            r = fresh("nr")
            rw.append(f"    {r} = pdl.result 0 of {o}")
            return ("val", r)
        x = b(e[1])[1]
        y = b(e[2])[1]
        o = fresh("no")
        rw.append(f'    {o} = pdl.operation "{OPS[e[0]]}" ({x}, {y} : !pdl.value, !pdl.value) -> (%t : !pdl.type)')
        if top:
            return ("op", o)
        r = fresh("nr")
        rw.append(f"    {r} = pdl.result 0 of {o}")
        return ("val", r)

    kind, nm = b(rhs, True)
    if kind == "op":
        rw.append(f"    pdl.replace {root} with {nm}")
    else:
        rw.append(f"    pdl.replace {root} with ({nm} : !pdl.value)")
    return "pdl.pattern : benefit(1) {\n" + "\n".join(lines) + f"\n  pdl.rewrite {root} {{\n" + "\n".join(rw) + "\n  }\n}\n"


# ------------------------------------------------------------------------------------------------ programs
PROG_TYPES = ["i32", "i32", "i64", "i8", "i16"]
PROG_OPS = ["addi", "addi", "addi", "muli", "muli", "subi", "shli", "andi", "ori", "xori"]


def gen_func(rng, ty=None, ops=None):
    """Pure arith DAG `func @main`; returns (text, argtypes, number of ops, set of op kinds)."""
    ty = ty or rng.choice(PROG_TYPES)
    nargs = rng.randint(1, 3)
    env = [f"%a{i}" for i in range(nargs)]
    lines = []
    nops = rng.choice([2, 4, 4, 7, 7, 10, 14])
    consts = []
    ops = ops or PROG_OPS
    for j in range(nops):
        v = f"%v{j}"
        r = rng.random()
        if r < 0.28:
            c = rng.choice([0, 0, 0, 1, 1, 1, 2, 2, 3, -1])
            lines.append(f"{v} = arith.constant {c} : {ty}")
            consts.append(v)
        else:
            op = rng.choice(ops)
            a = rng.choice(env)
            if op == "shli":
                # shift amounts: mostly small constants so that few inputs are poison
                b = rng.choice(consts) if consts and rng.random() < 0.8 else rng.choice(env)
            else:
                b = rng.choice(env) if rng.random() < 0.85 else a
            lines.append(f"{v} = arith.{op} {a}, {b} : {ty}")
        env.append(v)
    nret = rng.choice([1, 1, 2, 3])
    # bias the returns to late values (deep expressions)
    rets = [rng.choice(env[-4:] if rng.random() < 0.7 else env) for _ in range(nret)]
    text = ("func.func @main(" + ", ".join(f"%a{i}: {ty}" for i in range(nargs)) + ") -> (" + ", ".join([ty] * nret) + ") {\n  "
            + "\n  ".join(lines) + f"\n  func.return {', '.join(rets)} : {', '.join([ty] * nret)}\n}}\n")
    return text, [ty] * nargs, nops, ty


# ------------------------------------------------------------------------------------------------ pipeline
def run_pipeline(text, with_rules, max_iterations=20, cost_mode=("default", 1), workdir=None, stages=None):
    """Parse `text` (func + patterns) and run the real passes.  Returns (ctx, module).  Exceptions propagate."""
    from xdsl.parser import Parser
    from xdsl.transforms.apply_eqsat_pdl_interp import ApplyEqsatPDLInterpPass
    from xdsl.transforms.convert_pdl_interp_to_eqsat_pdl_interp import ConvertPDLInterpToEqsatPDLInterpPass
    from xdsl.transforms.convert_pdl_to_pdl_interp.conversion import ConvertPDLToPDLInterpPass
    from xdsl.transforms.eqsat_add_costs import EqsatAddCostsPass
    from xdsl.transforms.eqsat_create_eclasses import EqsatCreateEclassesPass
    from xdsl.transforms.eqsat_extract import EqsatExtractPass
    from xv.corpus import new_ctx
    ctx = new_ctx()
    m = Parser(ctx, text).parse_module()
    st = stages if stages is not None else {}
    st["stage"] = "eqsat-create-eclasses"
    EqsatCreateEclassesPass().apply(ctx, m)
    st["eclasses_created"] = sum(1 for o in m.walk() if o.name == "equivalence.class")
    if with_rules:
        st["stage"] = "convert-pdl-to-pdl-interp"
        ConvertPDLToPDLInterpPass().apply(ctx, m)
        st["stage"] = "convert-pdl-interp-to-eqsat-pdl-interp"
        ConvertPDLInterpToEqsatPDLInterpPass().apply(ctx, m)
        st["stage"] = "apply-eqsat-pdl-interp"
        ApplyEqsatPDLInterpPass(max_iterations=max_iterations).apply(ctx, m)
        f = next(o for o in m.body.block.ops if o.name == "func.func")
        st["eclasses_after_saturation"] = sum(1 for o in f.walk() if o.name in ("equivalence.class", "equivalence.const_class"))
        st["enodes_after_saturation"] = sum(len(o.operands) for o in f.walk() if o.name in ("equivalence.class", "equivalence.const_class"))
        st["multi_node_classes"] = sum(1 for o in f.walk() if o.name in ("equivalence.class", "equivalence.const_class") and len(o.operands) > 1)
    st["stage"] = "eqsat-add-costs"
    if cost_mode[0] == "default":
        EqsatAddCostsPass(default=cost_mode[1]).apply(ctx, m)
    else:
        path = os.path.join(workdir, "costs.json")
        with open(path, "w") as fh:
            json.dump(cost_mode[1], fh)
        EqsatAddCostsPass(cost_file=path, default=cost_mode[2]).apply(ctx, m)
    st["stage"] = "eqsat-extract"
    EqsatExtractPass().apply(ctx, m)
    st["stage"] = "done"
    return ctx, m


def main_func(m):
    return next(o for o in m.body.block.ops if o.name == "func.func")


def expr_form(func_op):
    """Order-independent form of a single-block pure function: (tuple of returned expression trees, sorted
    multiset of the expression trees of all ops).  Attributes through xv.canon.canon_attr."""
    from xv.canon import canon_attr
    block = func_op.regions[0].blocks[0]
    memo: dict = {}
    keep = []

    def ex(v):
        if id(v) in memo:
            return memo[id(v)]
        keep.append(v)
        owner = v.owner
        if owner is block:
            r = ("arg", v.index)
        elif hasattr(owner, "operands") and hasattr(owner, "name"):
            r = ("op", owner.name, tuple(ex(o) for o in owner.operands),
                 tuple(sorted((k, canon_attr(a)) for k, a in owner.properties.items())),
                 tuple(sorted((k, canon_attr(a)) for k, a in owner.attributes.items())),
                 canon_attr(v.type), list(owner.results).index(v))
        else:
            r = ("ext", repr(type(owner)))
        memo[id(v)] = r
        return r
    rets = None
    allops = []
    for op in block.ops:
        if op.name == "func.return":
            rets = tuple(ex(o) for o in op.operands)
        else:
            allops.append(repr(tuple(ex(r) for r in op.results)))
    return rets, tuple(sorted(allops))
