"""C28 helpers: rewrite rules as expression pairs (rendered to PDL and validated with refsem on exhaustive i4
inputs), generator of pure arith DAG functions, the eqsat pipeline runner and an order-independent expression form.

Expressions: ("v", name) | ("c", int) | (opname, lhs, rhs) with opname in OPS.
"""
from __future__ import annotations

import itertools
import json
import os

OPS = {"add": "arith.addi", "mul": "arith.muli", "sub": "arith.subi", "shl": "arith.shli",
       "and": "arith.andi", "or": "arith.ori", "xor": "arith.xori", "divu": "arith.divui"}

X, Y, Z = ("v", "x"), ("v", "y"), ("v", "z")


def C(n):
    return ("c", n)


# name, lhs, rhs.  Both sound candidates and deliberately unsound ones: every rule is validated before use.
RULE_CANDIDATES = [
    ("add-zero", ("add", X, C(0)), X),
    ("mul-one", ("mul", X, C(1)), X),
    ("add-comm", ("add", X, Y), ("add", Y, X)),
    ("mul-comm", ("mul", X, Y), ("mul", Y, X)),
    ("mul-two-shl", ("mul", X, C(2)), ("shl", X, C(1))),
    ("mul-zero", ("mul", X, C(0)), C(0)),
    ("sub-self", ("sub", X, X), C(0)),
    ("sub-zero", ("sub", X, C(0)), X),
    ("add-self", ("add", X, X), ("mul", X, C(2))),
    ("add-assoc", ("add", ("add", X, Y), Z), ("add", X, ("add", Y, Z))),
    ("mul-assoc", ("mul", ("mul", X, Y), Z), ("mul", X, ("mul", Y, Z))),
    ("distrib", ("mul", X, ("add", Y, Z)), ("add", ("mul", X, Y), ("mul", X, Z))),
    ("factor", ("add", ("mul", X, Y), ("mul", X, Z)), ("mul", X, ("add", Y, Z))),
    ("and-self", ("and", X, X), X),
    ("or-zero", ("or", X, C(0)), X),
    ("xor-self", ("xor", X, X), C(0)),
    ("and-comm", ("and", X, Y), ("and", Y, X)),
    ("shl-zero", ("shl", X, C(0)), X),
    ("sub-add-cancel", ("sub", ("add", X, Y), Y), X),
    ("zero-add", ("add", C(0), X), X),
    ("one-mul", ("mul", C(1), X), X),
    # rules that MATERIALISE constants whose python hash collides with another constant (hash(-1) == hash(-2); on 64 bit
    # 3 / 2**63-1, -4 / -2**63, 0 / 2**61-1 are equal modulo 2**61-1): a hash-only equality in the hash-cons /
    # congruence tables merges the new constant with its partner (the generator plants the partner, see COLLIDING)
    ("sub-succ-minus-one", ("sub", X, ("add", X, C(1))), C(-1)),
    ("neg-pred-is-not", ("sub", ("sub", C(0), X), C(1)), ("xor", X, C(-1))),
    ("not-as-sub", ("xor", X, C(-1)), ("sub", C(-1), X)),
    ("sub-plus2-minus-two", ("sub", X, ("add", X, C(2))), C(-2)),
    ("add3-sub-three", ("sub", ("add", X, C(3)), X), C(3)),
    ("sub-plus4-minus-four", ("sub", X, ("add", X, C(4))), C(-4)),
    # unsound on purpose (validator must reject them; they are never used in a pipeline)
    ("UNSOUND-sub-comm", ("sub", X, Y), ("sub", Y, X)),
    ("UNSOUND-add-one", ("add", X, C(1)), X),
    ("UNSOUND-mul2-div2", ("divu", ("mul", X, C(2)), C(2)), X),
    ("UNSOUND-div-self", ("divu", X, X), C(1)),
    ("UNSOUND-shl-one", ("shl", X, C(1)), X),
    ("UNSOUND-and-zero", ("and", X, C(0)), X),
    ("UNSOUND-mul-any-const", ("mul", X, C(2)), X),
]


# rules whose right-hand side creates a constant that has a hash-colliding partner
MATERIALISING = ("sub-succ-minus-one", "neg-pred-is-not", "not-as-sub", "sub-plus2-minus-two", "add3-sub-three",
                 "sub-plus4-minus-four", "sub-self", "xor-self")


def relaxed(rule):
    """Wrong-behaviour model of the known finding (falsy constant attribute constraints are dropped by the
    conversion): every `c 0` of the LHS becomes 'any constant' ("anyc", k)."""
    name, lhs, rhs = rule
    k = [0]

    def go(e):
        if e[0] == "c" and e[1] == 0:
            k[0] += 1
            return ("anyc", k[0])
        if e[0] in OPS:
            return (e[0], go(e[1]), go(e[2]))
        return e
    nl = go(lhs)
    return (name + "~relaxed", nl, rhs), k[0]


def expr_vars(e, acc=None):
    acc = [] if acc is None else acc
    if e[0] == "v":
        if e[1] not in acc:
            acc.append(e[1])
    elif e[0] in OPS:
        expr_vars(e[1], acc)
        expr_vars(e[2], acc)
    return acc


# ------------------------------------------------------------------------------------------------ rule -> func text
def expr_to_func_lines(e, ty, lines, env, n):
    """Emit arith ops computing e; returns ssa name."""
    if e[0] == "v":
        return env[e[1]]
    if e[0] == "c":
        n[0] += 1
        v = f"%k{n[0]}"
        lines.append(f"  {v} = arith.constant {e[1]} : {ty}")
        return v
    if e[0] == "anyc":
        return env[f"anyc{e[1]}"]
    a = expr_to_func_lines(e[1], ty, lines, env, n)
    b = expr_to_func_lines(e[2], ty, lines, env, n)
    n[0] += 1
    v = f"%k{n[0]}"
    lines.append(f"  {v} = {OPS[e[0]]} {a}, {b} : {ty}")
    return v


def rule_func_text(rule, ty="i4"):
    """`func @rule(vars...) -> (ty, ty)` returning (lhs, rhs); 'any constant' leaves of a relaxed rule are
    extra arguments (they range over all values)."""
    name, lhs, rhs = rule
    vs = expr_vars(lhs)
    for v in expr_vars(rhs):
        if v not in vs:
            vs.append(v)
    anyc = []

    def find(e):
        if e[0] == "anyc":
            anyc.append(f"anyc{e[1]}")
        elif e[0] in OPS:
            find(e[1])
            find(e[2])
    find(lhs)
    names = vs + anyc
    env = {v: f"%{v}" for v in names}
    lines: list[str] = []
    n = [0]
    a = expr_to_func_lines(lhs, ty, lines, env, n)
    b = expr_to_func_lines(rhs, ty, lines, env, n)
    sig = ", ".join(f"%{v}: {ty}" for v in names)
    return (f"func.func @rule({sig}) -> ({ty}, {ty}) {{\n" + "\n".join(lines) + f"\n  func.return {a}, {b} : {ty}, {ty}\n}}\n", len(names))


def validate_rule(rule, width=4):
    """Exhaustive check on i<width>: for every input LHS and RHS are both defined and equal, or both undefined.
    Returns (sound, number of inputs evaluated, first counterexample or None).  Oracle: xv.refsem only."""
    from xdsl.parser import Parser
    from xv import refsem
    from xv.corpus import new_ctx
    text, k = rule_func_text(rule, f"i{width}")
    m = Parser(new_ctx(), text).parse_module()
    n = 0
    for args in itertools.product(range(1 << width), repeat=k):
        n += 1
        # evaluate the two sides separately so that UB on one side only is seen
        try:
            res, _ = refsem.run(m, "rule", list(args))
        except refsem.Undefined:
            return False, n, list(args)
        if res[0] != res[1]:
            return False, n, list(args)
    return True, n, None


# ------------------------------------------------------------------------------------------------ rule -> PDL text
def rule_pdl(rule, ty, const_type_prob_rng=None, reuse_matched_const=True):
    """One `pdl.pattern` for the rule on programs of integer type `ty`."""
    name, lhs, rhs = rule
    rng = const_type_prob_rng
    lines = []
    n = [0]

    def fresh(p):
        n[0] += 1
        return f"%{p}{n[0]}"
    tconst = rng is not None and rng.random() < 0.3
    lines.append(f"  %t = pdl.type" + (f" : {ty}" if tconst else ""))
    venv: dict = {}
    matched: dict = {}  # lhs sub-expression -> value name (for reuse in the rhs)

    def m(e, is_root=False):
        if e[0] == "v":
            if e[1] not in venv:
                venv[e[1]] = fresh("x")
                lines.append(f"  {venv[e[1]]} = pdl.operand")
            return venv[e[1]]
        if e[0] in ("c", "anyc"):
            a, o, r = fresh("a"), fresh("c"), fresh("r")
            if e[0] == "c":
                lines.append(f"  {a} = pdl.attribute = {e[1]} : {ty}")
            else:
                lines.append(f"  {a} = pdl.attribute")
            lines.append(f'  {o} = pdl.operation "arith.constant" {{"value" = {a}}} -> (%t : !pdl.type)')
            lines.append(f"  {r} = pdl.result 0 of {o}")
            matched.setdefault(e, r)
            if e[0] == "anyc":
                # a relaxed leaf stands for the `0` leaf of the original rule: an RHS that re-uses the matched
                # constant keeps re-using it (that is what the compiled rewriter does)
                matched.setdefault(("c", 0), r)
            return r
        a = m(e[1])
        b = m(e[2])
        o = fresh("o")
        lines.append(f'  {o} = pdl.operation "{OPS[e[0]]}" ({a}, {b} : !pdl.value, !pdl.value) -> (%t : !pdl.type)')
        if is_root:
            return o
        r = fresh("r")
        lines.append(f"  {r} = pdl.result 0 of {o}")
        matched.setdefault(e, r)
        return r

    root = m(lhs, True)
    rw = []

    def b(e, top=False):
        """returns ('val', name) or ('op', name)"""
        if e[0] == "v":
            return ("val", venv[e[1]])
        if not top and e in matched and reuse_matched_const:
            return ("val", matched[e])
        if top and e in matched and reuse_matched_const:
            return ("val", matched[e])
        if e[0] == "c":
            a, o = fresh("na"), fresh("nc")
            rw.append(f"    {a} = pdl.attribute = {e[1]} : {ty}")
            rw.append(f'    {o} = pdl.operation "arith.constant" {{"value" = {a}}} -> (%t : !pdl.type)')
            if top:
                return ("op", o)
            r = fresh("nr")
            rw.append(f"    {r} = pdl.result 0 of {o}")
            return ("val", r)
        x = b(e[1])[1]
        y = b(e[2])[1]
        o = fresh("no")
        rw.append(f'    {o} = pdl.operation "{OPS[e[0]]}" ({x}, {y} : !pdl.value, !pdl.value) -> (%t : !pdl.type)')
        if top:
            return ("op", o)
        r = fresh("nr")
        rw.append(f"    {r} = pdl.result 0 of {o}")
        return ("val", r)

    kind, nm = b(rhs, True)
    if kind == "op":
        rw.append(f"    pdl.replace {root} with {nm}")
    else:
        rw.append(f"    pdl.replace {root} with ({nm} : !pdl.value)")
    return "pdl.pattern : benefit(1) {\n" + "\n".join(lines) + f"\n  pdl.rewrite {root} {{\n" + "\n".join(rw) + "\n  }\n}\n"


# ------------------------------------------------------------------------------------------------ programs
PROG_TYPES = ["i32", "i32", "i64", "i8", "i16"]
M61 = 2 ** 61 - 1  # CPython: hash(int) is the value modulo 2**61-1 (and hash(-1) == -2)


def colliding(c, ty):
    """Constants of type ty whose python hash equals hash(c) although the value differs."""
    out = {-1: [-2], -2: [-1]}.get(c, [])
    if ty in ("i64", "index"):
        out = out + {3: [2 ** 63 - 1], 2 ** 63 - 1: [3], -4: [-2 ** 63], -2 ** 63: [-4], 0: [M61], M61: [0],
                     1: [M61 + 1], 2: [M61 + 2]}.get(c, [])
    return out


def expr_consts(e, acc=None):
    acc = [] if acc is None else acc
    if e[0] == "c":
        acc.append(e[1])
    elif e[0] in OPS:
        expr_consts(e[1], acc)
        expr_consts(e[2], acc)
    return acc
PROG_OPS = ["addi", "addi", "addi", "muli", "muli", "subi", "shli", "andi", "ori", "xori"]


def gen_func(rng, ty=None, ops=None, plant=(), name="main"):
    """Pure arith DAG `func @main`; returns (text, argtypes, number of ops, type).  `plant`: (lhs, rhs) expression pairs of rules whose
    left-hand sides are instantiated on random earlier values somewhere in the body, so that the rules have redexes
    (also near-redexes: a planted constant is sometimes replaced by a neighbouring constant)."""
    ty = ty or rng.choice(PROG_TYPES)
    nargs = rng.randint(1, 3)
    env = [f"%a{i}" for i in range(nargs)]
    lines = []
    nops = rng.choice([2, 4, 4, 7, 7, 10, 14])
    consts = []
    ops = ops or PROG_OPS
    cnt = [0]

    def fresh():
        cnt[0] += 1
        return f"%v{cnt[0]}"

    def emit_expr(e, venv):
        if e[0] == "v":
            if e[1] not in venv:
                venv[e[1]] = rng.choice(env)
            return venv[e[1]]
        if e[0] == "c":
            c = e[1] if rng.random() < 0.8 else rng.choice([0, 1, 2, 3])  # near-redex: neighbouring constant
            v = fresh()
            lines.append(f"{v} = arith.constant {c} : {ty}")
            return v
        a = emit_expr(e[1], venv)
        b = emit_expr(e[2], venv)
        v = fresh()
        lines.append(f"{v} = {OPS[e[0]]} {a}, {b} : {ty}")
        return v

    def plant_one(pr):
        lhs, rhs = pr
        venv: dict = {}
        v = emit_expr(lhs, venv)
        env.append(v)
        for c in set(expr_consts(rhs)):
            # hash-colliding partner of every constant the rule materialises, kept alive by an op (sometimes returned)
            for pc in colliding(c, ty):
                if rng.random() < 0.7:
                    k = fresh()
                    lines.append(f"{k} = arith.constant {pc} : {ty}")
                    consts.append(k)
                    if rng.random() < 0.6:
                        t = fresh()
                        lines.append(f"{t} = arith.{rng.choice(['addi', 'xori', 'subi'])} {rng.choice(env)}, {k} : {ty}")
                        env.append(t)
                    else:
                        env.append(k)
        if rng.random() < 0.8:
            # congruence twins: the same op applied to the redex and to what the rule says it is equal to; after the
            # rule merges the two classes the parents become identical and the rebuild step has to merge them too
            other = emit_expr(rhs, venv) if rhs[0] != "c" or rng.random() < 0.5 else None
            if other is not None:
                w = rng.choice(env)
                op = rng.choice(["addi", "muli", "subi", "xori"])
                for src in (v, other):
                    t = fresh()
                    lines.append(f"{t} = arith.{op} {src}, {w} : {ty}")
                    env.append(t)

    plant = list(plant)
    for j in range(nops):
        if plant and rng.random() < 0.35:
            plant_one(plant.pop(rng.randrange(len(plant))))
            continue
        v = fresh()
        r = rng.random()
        if r < 0.28:
            c = rng.choice([0, 0, 0, 1, 1, 1, 2, 2, 3, -1, -1, -2, -2, 4, -4])
            if ty in ("i64", "index") and rng.random() < 0.15:
                c = rng.choice([2 ** 63 - 1, -2 ** 63, M61, M61 + 1])
            lines.append(f"{v} = arith.constant {c} : {ty}")
            consts.append(v)
        else:
            op = rng.choice(ops)
            a = rng.choice(env)
            if op == "shli":
                # shift amounts: mostly small constants so that few inputs are poison
                b = rng.choice(consts) if consts and rng.random() < 0.8 else rng.choice(env)
            else:
                b = rng.choice(env) if rng.random() < 0.85 else a
            lines.append(f"{v} = arith.{op} {a}, {b} : {ty}")
        env.append(v)
    for pr in plant:
        if rng.random() < 0.6:
            plant_one(pr)
    nret = rng.choice([1, 1, 2, 3])
    # bias the returns to late values (deep expressions)
    rets = [rng.choice(env[-4:] if rng.random() < 0.7 else env) for _ in range(nret)]
    text = (f"func.func @{name}(" + ", ".join(f"%a{i}: {ty}" for i in range(nargs)) + ") -> (" + ", ".join([ty] * nret) + ") {\n  "
            + "\n  ".join(lines) + f"\n  func.return {', '.join(rets)} : {', '.join([ty] * nret)}\n}}\n")
    return text, [ty] * nargs, len(lines), ty


# ------------------------------------------------------------------------------------------------ pipeline
def run_pipeline(text, with_rules, max_iterations=20, cost_mode=("default", 1), workdir=None, stages=None, before_extract=None):
    """Parse `text` (func + patterns) and run the real passes.  Returns (ctx, module).  Exceptions propagate."""
    from xdsl.parser import Parser
    from xdsl.transforms.apply_eqsat_pdl_interp import ApplyEqsatPDLInterpPass
    from xdsl.transforms.convert_pdl_interp_to_eqsat_pdl_interp import ConvertPDLInterpToEqsatPDLInterpPass
    from xdsl.transforms.convert_pdl_to_pdl_interp.conversion import ConvertPDLToPDLInterpPass
    from xdsl.transforms.eqsat_add_costs import EqsatAddCostsPass
    from xdsl.transforms.eqsat_create_eclasses import EqsatCreateEclassesPass
    from xdsl.transforms.eqsat_extract import EqsatExtractPass
    from xv.corpus import new_ctx
    ctx = new_ctx()
    m = Parser(ctx, text).parse_module()
    st = stages if stages is not None else {}
    st["stage"] = "eqsat-create-eclasses"
    EqsatCreateEclassesPass().apply(ctx, m)
    st["eclasses_created"] = sum(1 for o in m.walk() if o.name == "equivalence.class")
    if with_rules:
        st["stage"] = "convert-pdl-to-pdl-interp"
        ConvertPDLToPDLInterpPass().apply(ctx, m)
        z = 0
        for o in m.walk():
            vals = []
            if o.name == "pdl_interp.check_attribute":
                vals = [o.constantValue]
            elif o.name == "pdl_interp.switch_attribute":
                vals = list(o.caseValues.data)
            z += sum(1 for v in vals if type(v).__name__ == "IntegerAttr" and v.value.data == 0)
        st["zero_attr_checks"] = z  # structural observation for the known finding: value checks for a constant 0
        st["stage"] = "convert-pdl-interp-to-eqsat-pdl-interp"
        ConvertPDLInterpToEqsatPDLInterpPass().apply(ctx, m)
        st["stage"] = "apply-eqsat-pdl-interp"
        ApplyEqsatPDLInterpPass(max_iterations=max_iterations).apply(ctx, m)
        cls = [o for f in funcs(m) for o in f.walk() if o.name in ("equivalence.class", "equivalence.const_class")]
        st["eclasses_after_saturation"] = len(cls)
        st["enodes_after_saturation"] = sum(len(o.operands) for o in cls)
        st["multi_node_classes"] = sum(1 for o in cls if len(o.operands) > 1)
    st["stage"] = "eqsat-add-costs"
    if cost_mode[0] == "default":
        EqsatAddCostsPass(default=cost_mode[1]).apply(ctx, m)
    else:
        path = os.path.join(workdir, "costs.json")
        with open(path, "w") as fh:
            json.dump(cost_mode[1], fh)
        EqsatAddCostsPass(cost_file=path, default=cost_mode[2]).apply(ctx, m)
    if before_extract is not None:
        st["stage"] = "egraph-snapshot"
        before_extract(m)
    st["stage"] = "eqsat-extract"
    EqsatExtractPass().apply(ctx, m)
    st["stage"] = "done"
    return ctx, m


def ir_text(op):
    """Generic-format text (witness material only; custom printers can choke on ill-formed IR)."""
    import io
    from xdsl.printer import Printer
    buf = io.StringIO()
    try:
        Printer(stream=buf, print_generic_format=True).print_op(op)
    except Exception as e:  # noqa: BLE001
        return buf.getvalue() + f"\n<unprintable: {type(e).__name__}>"
    return buf.getvalue()


RULES_BY_NAME: dict = {}


def funcs(m):
    """All top-level func.func ops with a body, in order."""
    return [o for o in m.body.block.ops if o.name == "func.func" and o.regions[0].blocks]


def funcs_text(m):
    return "\n".join(ir_text(f) for f in funcs(m))


def module_form(m, interner):
    """expr_form of every function: (tuple of per-function returned-expression tuples, sorted multiset of
    (function index, expression id) of all op results)."""
    rets, allops = [], []
    for i, f in enumerate(funcs(m)):
        r, a = expr_form(f, interner)
        rets.append(r)
        allops.extend((i, x) for x in a)
    return tuple(rets), tuple(sorted(allops))


def module_egraph_reference(m, cost_of, interner):
    out = {"problems": [], "returns": [], "classes": 0, "nodes": 0, "checked": 0}
    for f in funcs(m):
        r = egraph_reference(f, cost_of, interner)
        out["problems"] += r["problems"]
        for k in ("classes", "nodes", "checked"):
            out[k] += r[k]
        out["returns"].append(r["returns"])
    out["returns"] = None if any(r is None for r in out["returns"]) else tuple(out["returns"])
    return out


def main_func(m):
    return next(o for o in m.body.block.ops if o.name == "func.func")


class Interner:
    """Hash-consing table shared by all expression forms of one case: structurally equal expressions get the same
    small integer, so forms are flat tuples of ints (no exponential tuple comparison on DAGs)."""

    def __init__(self):
        self.ids: dict = {}

    def get(self, key):
        i = self.ids.get(key)
        if i is None:
            i = self.ids[key] = len(self.ids)
        return i


def is_acyclic(func_op):
    """True when the def-use graph of the single block has no cycle (an op using, directly or not, its own result)."""
    block = func_op.regions[0].blocks[0]
    state: dict = {}
    ops = list(block.ops)
    for root in ops:
        if id(root) in state:
            continue
        stack = [(root, iter(root.operands))]
        state[id(root)] = 1
        while stack:
            op, it = stack[-1]
            adv = False
            for v in it:
                o = v.owner
                if o is block or not hasattr(o, "operands"):
                    continue
                st = state.get(id(o))
                if st == 1:
                    return False
                if st is None:
                    state[id(o)] = 1
                    stack.append((o, iter(o.operands)))
                    adv = True
                    break
            if not adv:
                state[id(op)] = 2
                stack.pop()
    return True


def expr_form(func_op, interner):
    """Order-independent form of an ACYCLIC single-block pure function: (tuple of ids of the returned expressions,
    sorted multiset of the ids of the expressions of all op results).  Attributes through xv.canon.canon_attr."""
    from xv.canon import canon_attr
    block = func_op.regions[0].blocks[0]
    memo: dict = {}
    keep = []

    def ex(v):
        if id(v) in memo:
            return memo[id(v)]
        keep.append(v)
        owner = v.owner
        if owner is block:
            r = interner.get(("arg", v.index))
        elif hasattr(owner, "operands") and hasattr(owner, "name"):
            r = interner.get(("op", owner.name, tuple(ex(o) for o in owner.operands),
                              tuple(sorted((k, canon_attr(a)) for k, a in owner.properties.items())),
                              tuple(sorted((k, canon_attr(a)) for k, a in owner.attributes.items())),
                              canon_attr(v.type), list(owner.results).index(v)))
        else:
            r = interner.get(("ext", repr(type(owner))))
        memo[id(v)] = r
        return r
    rets = None
    allops = []
    for op in block.ops:
        if op.name == "func.return":
            rets = tuple(ex(o) for o in op.operands)
        else:
            allops.extend(ex(r) for r in op.results)
    return rets, tuple(sorted(allops))


# ------------------------------------------------------------------------------------------------ e-graph reference
CLASS_NAMES = ("equivalence.class", "equivalence.const_class")


def egraph_reference(func_op, cost_of, interner):
    """Independent reading of the e-graph embedded in `func_op` after eqsat-add-costs (before extraction).
    cost_of(op name) -> positive int is OUR cost table (the one the check handed to the pass).
    Returns a dict with
      problems:      list of (kind, text): min_cost_index missing / out of range / not of minimal total cost
      returns:       expected expression tree of every returned value when each class is replaced by the node its
                     min_cost_index designates (same shape as expr_form()[0]); None when the designation is cyclic
      classes, nodes, checked: sizes
    Total cost of a node = own cost + sum of the (minimal) costs of its operand classes; block arguments are free."""
    from xv.canon import canon_attr
    block = func_op.regions[0].blocks[0]
    classes = [o for o in block.ops if o.name in CLASS_NAMES]
    cls_of_value = {}
    keep = []
    for c in classes:
        cls_of_value[id(c.results[0])] = c
        keep.append(c.results[0])

    def children(node_op):
        return [cls_of_value.get(id(v)) for v in node_op.operands]

    INF = float("inf")
    best = {id(c): INF for c in classes}

    def node_cost(v):
        owner = v.owner
        if owner is block:
            return 0
        tot = cost_of(owner.name)
        for ch, opv in zip(children(owner), owner.operands):
            if ch is None:
                # operand that is not an e-class result: block argument (free) or a plain op (own cost)
                tot += 0 if opv.owner is block else cost_of(opv.owner.name)
            else:
                tot += best[id(ch)]
        return tot
    changed = True
    rounds = 0
    while changed and rounds < 10000:
        changed = False
        rounds += 1
        for c in classes:
            for v in c.operands:
                t = node_cost(v)
                if t < best[id(c)]:
                    best[id(c)] = t
                    changed = True
    problems = []
    chosen = {}
    checked = 0
    for c in classes:
        mci = c.attributes.get("min_cost_index")
        if mci is None:
            problems.append(("min-cost-index-missing", str(c)))
            continue
        i = mci.data
        if not (0 <= i < len(c.operands)):
            problems.append(("min-cost-index-out-of-range", str(c)))
            continue
        chosen[id(c)] = c.operands[i]
        checked += 1
        t = node_cost(c.operands[i])
        if t != best[id(c)]:
            problems.append(("min-cost-index-not-minimal", f"class of {len(c.operands)} nodes: designated node #{i} costs {t}, minimum is {best[id(c)]}"))
    # designated extraction
    memo: dict = {}
    onpath: set = set()
    cyclic = [False]

    def ex_value(v):
        c = cls_of_value.get(id(v))
        if c is not None:
            return ex_class(c)
        if v.owner is block:
            return interner.get(("arg", v.index))
        if getattr(v.owner, "parent", None) is not block:
            if not any(k == "value-from-another-block" for k, _ in problems):
                problems.append(("value-from-another-block", f"an e-node of this function uses {v.owner.name} of another block"))
            return interner.get(("foreign", v.owner.name))
        return ex_node(v)

    def ex_class(c):
        if id(c) in memo:
            return memo[id(c)]
        if id(c) in onpath or id(c) not in chosen:
            cyclic[0] = True
            return interner.get(("cycle",))
        onpath.add(id(c))
        v = chosen[id(c)]
        r = interner.get(("arg", v.index)) if v.owner is block else ex_node(v)
        onpath.discard(id(c))
        memo[id(c)] = r
        return r

    def ex_node(v):
        o = v.owner
        return interner.get(("op", o.name, tuple(ex_value(x) for x in o.operands),
                             tuple(sorted((k, canon_attr(a)) for k, a in o.properties.items())),
                             tuple(sorted((k, canon_attr(a)) for k, a in o.attributes.items() if k != "eqsat_cost")),
                             canon_attr(v.type), list(o.results).index(v)))
    rets = None
    for op in block.ops:
        if op.name == "func.return":
            rets = tuple(ex_value(x) for x in op.operands)
    return {"problems": problems, "returns": None if cyclic[0] else rets, "classes": len(classes),
            "nodes": sum(len(c.operands) for c in classes), "checked": checked}


def use_before_def(func_op):
    """Number of operands of the single-block function that are results of an op placed LATER in the block
    (our own dominance check: xDSL's verifier does not check dominance)."""
    block = func_op.regions[0].blocks[0]
    pos = {id(o): i for i, o in enumerate(block.ops)}
    keep = list(block.ops)
    n = 0
    for i, o in enumerate(keep):
        for v in o.operands:
            if v.owner is not block and id(v.owner) in pos and pos[id(v.owner)] >= i:
                n += 1
    return n


def toposort_block(func_op):
    """Reorder the ops of the single block into a definition-before-use order (stable; terminator last).
    Returns False when the use graph is cyclic (nothing is changed then)."""
    block = func_op.regions[0].blocks[0]
    ops = list(block.ops)
    inblock = {id(o) for o in ops}
    done: set = set()
    order = []
    pending = [o for o in ops if o.name != "func.return"]
    term = [o for o in ops if o.name == "func.return"]
    while pending:
        progressed = False
        rest = []
        for o in pending:
            if all(v.owner is block or id(v.owner) not in inblock or id(v.owner) in done for v in o.operands):
                order.append(o)
                done.add(id(o))
                progressed = True
            else:
                rest.append(o)
        pending = rest
        if not progressed:
            return False
    for o in ops:
        o.detach()
    for o in order + term:
        block.add_op(o)
    return True
