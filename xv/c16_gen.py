"""c16_gen - DIRECTED program generators for C16, one per pass, built so that the pass actually fires.
Text only (nothing of xDSL is imported). Each generator returns a case dict
  {"text": module text, "args": [[name, type, role], ...], "meta": {...}}
`gen_inputs16(rng, args, n)` draws argument rows by *role* (bound / factor / div / sidx / swidx / data / mem)."""
from __future__ import annotations

import random

from xv import genprog

W = genprog.W
M64 = (1 << 64) - 1


def u64(x):
    return x & M64


class PB:
    """Program builder: lines + fresh names + a genprog.Gen used for filler statements."""

    def __init__(self, rng, floats=False, filler_types=("i1", "i32", "i64", "index")):
        self.rng = rng
        self.lines: list[str] = []
        self.k = 0
        self.g = genprog.Gen(rng, allow_float=floats, allow_loops=True, effects=True, int_types=list(filler_types),
                             safe_div=0.9, ext_calls=True, flt_types=["f32"])

    def fresh(self, p="t"):
        self.k += 1
        return f"%{p}{self.k}"

    def emit(self, ind, s):
        self.lines.append("  " * ind + s)

    def const(self, ind, val, t="index"):
        v = self.fresh("c")
        if t == "i1":
            self.emit(ind, f"{v} = arith.constant {'true' if val else 'false'}")
        else:
            self.emit(ind, f"{v} = arith.constant {val} : {t}")
        return v

    def pick(self, env, t, ind):
        return self.g.pick(env, t, self.lines, "  " * ind)

    def filler(self, env, ind, n, depth=2):
        for _ in range(n):
            self.g.stmt(env, self.lines, "  " * ind, depth)

    def effect(self, env, ind, val=None):
        """An ordered, observable effect on a value."""
        if val is None:
            cands = [(v, t) for v, t in env if t in W]
            if not cands:
                cands = [(self.const(ind, 7, "i32"), "i32")]
            val = self.rng.choice(cands)
        v, t = val
        r = self.rng.random()
        if r < 0.5 or t != "i32":
            self.emit(ind, f'"test.op"({v}) : ({t}) -> ()')
        elif r < 0.8:
            self.emit(ind, f'"test.op_with_memwrite"({v}) : ({t}) -> ()')
        else:
            o = self.fresh("e")
            self.emit(ind, f"{o} = func.call @ext_i32({v}) : (i32) -> i32")
            env.append((o, "i32"))

    def binop(self, env, ind, t, a, b, ops=("addi", "subi", "muli", "xori", "andi", "ori")):
        v = self.fresh()
        self.emit(ind, f"{v} = arith.{self.rng.choice(ops)} {a}, {b} : {t}")
        env.append((v, t))
        return v

    def pos_step(self, env, ind, src):
        """symbolic step in {1,3,5,7} derived from an index value"""
        c3, c1 = self.const(ind, 6), self.const(ind, 1)
        a = self.fresh()
        self.emit(ind, f"{a} = arith.andi {src}, {c3} : index")
        b = self.fresh()
        self.emit(ind, f"{b} = arith.ori {a}, {c1} : index")
        return b

    def masked(self, ind, src, mask=7):
        c = self.const(ind, mask)
        a = self.fresh()
        self.emit(ind, f"{a} = arith.andi {src}, {c} : index")
        return a

    def module(self, args, rets):
        sig = ", ".join(f"{a}: {t}" for a, t, _ in args)
        rt = ", ".join(t for _, t in rets)
        rv = ", ".join(v for v, _ in rets)
        body = "\n".join(self.lines)
        head = f"func.func @main({sig}) -> ({rt}) {{\n" if rets else f"func.func @main({sig}) {{\n"
        tail = f"\n  func.return {rv} : {rt}\n}}\n" if rets else "\n  func.return\n}\n"
        return "func.func private @ext_i32(i32) -> i32\n" + head + body + tail

    def choose_rets(self, env, prefer=(), n=None):
        rng = self.rng
        cands = [(v, t) for v, t in env if not t.startswith("memref")]
        rets = [p for p in prefer if p in cands]
        want = n or rng.randint(1, 3)
        while len(rets) < want and cands:
            rets.append(rng.choice(cands))
        if not rets:
            rets = [(self.const(1, 0, "i32"), "i32")]
        return rets[:4]


def env_of(args):
    return [(a, t) for a, t, _ in args]


# ------------------------------------------------------------------------------------------ inputs
BOUND_VALS = [0, 1, 2, 3, 4, 5, 6, 7, 8, 9, 0, 1, 2, 3, -1, -3]
FACTOR_VALS = [-1, 0, 1, 2, 3, 4, -2, 5, 7, 1, 2, 3, 1 << 62, (1 << 63) - 1, -(1 << 63)]
DIV_VALS = [0, 1, -1, 2, 3, -2, 5, 0, 1, 7]


def gen_inputs16(rng, args, n, meta=None):
    rows = []
    for _ in range(n):
        row = []
        for _a, t, role in args:
            if role == "mem":
                shape = [int(x) for x in t[len("memref<"):-1].split("x")[:-1]]
                size = 1
                for d in shape:
                    size *= d
                row.append(["memref", shape, [rng.choice([0, 1, 2, 5, 0xFFFFFFFF, rng.getrandbits(32)]) for _ in range(size)]])
                continue
            w = W[t]
            mask = (1 << w) - 1
            if role == "bound":
                v = rng.choice(BOUND_VALS) if rng.random() < 0.93 else rng.choice([(1 << 63) - 1, -(1 << 63), rng.getrandbits(64)])
            elif role == "factor":
                v = rng.choice(FACTOR_VALS) if rng.random() < 0.9 else rng.getrandbits(64)
            elif role == "div":
                v = rng.choice(DIV_VALS) if rng.random() < 0.85 else rng.getrandbits(w)
            elif role == "sidx":
                v = rng.randint(-9, 9)
            elif role == "swidx":
                cs = (meta or {}).get("switch_cases") or [0, 1, 2]
                v = rng.choice(cs + [-1, 7, 4, rng.choice(cs)]) if rng.random() < 0.88 else rng.choice([c + (1 << 32) for c in cs] + [1 << 40])
            else:
                v = genprog.gen_inputs(rng, [t], 1)[0][0]
            row.append(v & mask)
        rows.append(row)
    return rows


# ------------------------------------------------------------------------------------------ convert-scf-to-cf
class Scf2Cf:
    def __init__(self, rng):
        self.rng = rng
        self.pb = PB(rng, floats=rng.random() < 0.3)
        self.cases: list[int] = []
        self.has_while_nested = False
        self.n_struct = 0

    def for_bounds(self, env, ind):
        rng, pb = self.rng, self.pb
        r = rng.random()
        idx = [v for v, t in env if t == "index"]
        lb = pb.const(ind, rng.choice([0, 0, 0, 1, 2, -1, -2, 5])) if r < 0.75 or not idx else rng.choice(idx)
        r = rng.random()
        if r < 0.5 or not idx:
            ub = pb.const(ind, rng.choice([0, 1, 3, 4, 5, 6, -1, 2]))
        elif r < 0.8:
            ub = rng.choice(idx)
        else:
            ub = pb.masked(ind, rng.choice(idx), 7)
        r = rng.random()
        st = pb.const(ind, rng.choice([1, 1, 1, 2, 3, 4])) if r < 0.75 or not idx else pb.pos_step(env, ind, rng.choice(idx))
        return lb, ub, st

    def block(self, env, ind, depth, n=None, in_while=False):
        rng, pb = self.rng, self.pb
        for _ in range(n or rng.randint(1, 4)):
            r = rng.random()
            if r < 0.25:
                pb.filler(env, ind, 1, depth=2)
            elif r < 0.40:
                pb.effect(env, ind)
            elif depth >= 2:
                pb.filler(env, ind, 1, depth=2)
            elif r < 0.52:
                self.if_noresult(env, ind, depth, in_while)
            elif r < 0.66:
                self.if_result(env, ind, depth, in_while)
            elif r < 0.90:
                self.for_(env, ind, depth, in_while)
            elif r < 0.935 and depth <= 1 and not in_while:
                self.while_(env, ind, depth)
            else:
                self.switch(env, ind, depth, in_while)

    def mark(self, in_while):
        self.n_struct += 1
        if in_while:
            self.has_while_nested = True

    def if_noresult(self, env, ind, depth, in_while):
        pb = self.pb
        self.mark(in_while)
        c = pb.pick(env, "i1", ind)
        pb.emit(ind, f"scf.if {c} {{")
        e2 = list(env)
        self.block(e2, ind + 1, depth + 1, in_while=in_while)
        pb.effect(e2, ind + 1)
        if self.rng.random() < 0.5:
            pb.emit(ind, "} else {")
            e3 = list(env)
            self.block(e3, ind + 1, depth + 1, in_while=in_while)
        pb.emit(ind, "}")

    def if_result(self, env, ind, depth, in_while):
        rng, pb = self.rng, self.pb
        self.mark(in_while)
        c = pb.pick(env, "i1", ind)
        nres = rng.choice([1, 1, 2])
        types = [rng.choice(["i32", "index", "i64"]) for _ in range(nres)]
        outs = [pb.fresh("r") for _ in range(nres)]
        pb.emit(ind, f"{', '.join(outs)} = scf.if {c} -> ({', '.join(types)}) {{")
        for br in range(2):
            e2 = list(env)
            self.block(e2, ind + 1, depth + 1, n=rng.randint(0, 2), in_while=in_while)
            ys = [pb.pick(e2, t, ind + 1) for t in types]
            pb.emit(ind + 1, f"scf.yield {', '.join(ys)} : {', '.join(types)}")
            if br == 0:
                pb.emit(ind, "} else {")
        pb.emit(ind, "}")
        env.extend(zip(outs, types))

    def for_(self, env, ind, depth, in_while):
        rng, pb = self.rng, self.pb
        self.mark(in_while)
        lb, ub, st = self.for_bounds(env, ind)
        nit = rng.choice([0, 1, 1, 2])
        types = [rng.choice(["i32", "index", "i64"]) for _ in range(nit)]
        inits = [pb.pick(env, t, ind) for t in types]
        iv = pb.fresh("i")
        accs = [pb.fresh("a") for _ in range(nit)]
        outs = [pb.fresh("r") for _ in range(nit)]
        if nit:
            ia = ", ".join(f"{a} = {i}" for a, i in zip(accs, inits))
            pb.emit(ind, f"{', '.join(outs)} = scf.for {iv} = {lb} to {ub} step {st} iter_args({ia}) -> ({', '.join(types)}) {{")
        else:
            pb.emit(ind, f"scf.for {iv} = {lb} to {ub} step {st} {{")
        e2 = list(env) + [(iv, "index")] + list(zip(accs, types))
        news = []
        for a, t in zip(accs, types):
            other = iv if t == "index" else pb.pick(e2, t, ind + 1)
            news.append(pb.binop(e2, ind + 1, t, a, other, ops=("addi", "addi", "xori", "muli", "subi")))
        self.block(e2, ind + 1, depth + 1, n=rng.randint(0, 3), in_while=in_while)
        if nit == 0 or rng.random() < 0.5:
            pb.effect(e2, ind + 1, (iv, "index") if rng.random() < 0.5 else None)
        if nit:
            ys = [nv if rng.random() < 0.8 else pb.pick(e2, t, ind + 1) for nv, t in zip(news, types)]
            pb.emit(ind + 1, f"scf.yield {', '.join(ys)} : {', '.join(types)}")
        pb.emit(ind, "}")
        env.extend(zip(outs, types))

    def while_(self, env, ind, depth):
        rng, pb = self.rng, self.pb
        self.n_struct += 1
        idx = [v for v, t in env if t == "index"]
        init = pb.masked(ind, rng.choice(idx), 7) if idx else pb.const(ind, 3)
        t = rng.choice(["i32", "i64", "index"])
        a0 = pb.pick(env, t, ind)
        c0, c1 = pb.const(ind, 0), pb.const(ind, 1)
        i, acc, i2, acc2, r0, r1 = (pb.fresh(p) for p in ("w", "w", "w", "w", "r", "r"))
        pb.emit(ind, f"{r0}, {r1} = scf.while ({i} = {init}, {acc} = {a0}) : (index, {t}) -> (index, {t}) {{")
        cnd = pb.fresh()
        pb.emit(ind + 1, f"{cnd} = arith.cmpi sgt, {i}, {c0} : index")
        pb.emit(ind + 1, f"scf.condition({cnd}) {i}, {acc} : index, {t}")
        pb.emit(ind, "} do {")
        pb.emit(ind, f"^bb0({i2}: index, {acc2}: {t}):")
        e2 = list(env) + [(i2, "index"), (acc2, t)]
        nv = pb.binop(e2, ind + 1, t, acc2, i2 if t == "index" else pb.pick(e2, t, ind + 1), ops=("addi", "xori", "muli"))
        if rng.random() < 0.35:
            self.block(e2, ind + 1, depth + 1, n=rng.randint(1, 2), in_while=True)
        else:
            pb.filler(e2, ind + 1, rng.randint(0, 2), depth=2)
            pb.effect(e2, ind + 1)
        i3 = pb.fresh()
        pb.emit(ind + 1, f"{i3} = arith.subi {i2}, {c1} : index")
        pb.emit(ind + 1, f"scf.yield {i3}, {nv} : index, {t}")
        pb.emit(ind, "}")
        env.extend([(r0, "index"), (r1, t)])

    def switch(self, env, ind, depth, in_while):
        rng, pb = self.rng, self.pb
        self.mark(in_while)
        arg = "%sw" if rng.random() < 0.7 else pb.pick(env, "index", ind)
        ncase = rng.randint(1, 3)
        cases = rng.sample([0, 1, 2, 3, 5, 8, -1, 100], ncase)
        self.cases.extend(cases)
        t = rng.choice(["i32", "index", None])
        out = pb.fresh("r")
        pb.emit(ind, f"{out} = scf.index_switch {arg} -> {t}" if t else f"scf.index_switch {arg}")
        for c in cases + [None]:
            pb.emit(ind, f"case {c} {{" if c is not None else "default {")
            e2 = list(env)
            self.block(e2, ind + 1, depth + 1, n=rng.randint(0, 2), in_while=in_while)
            if t:
                pb.emit(ind + 1, f"scf.yield {pb.pick(e2, t, ind + 1)} : {t}")
            else:
                pb.effect(e2, ind + 1)
                pb.emit(ind + 1, "scf.yield")
            pb.emit(ind, "}")
        if t:
            env.append((out, t))


def gen_scf2cf(rng):
    g = Scf2Cf(rng)
    args = [["%n", "index", "bound"], ["%k", "index", "bound"], ["%x", "i32", "data"], ["%y", "i64", "data"],
            ["%b", "i1", "data"], ["%sw", "index", "swidx"]]
    env = env_of(args)
    while g.n_struct == 0:
        g.block(env, 1, 0, n=rng.randint(2, 5))
    text = g.pb.module(args, g.pb.choose_rets(env[len(args):] or env))
    return {"text": text, "args": args, "meta": {"switch_cases": sorted(set(g.cases)), "while_nested": g.has_while_nested}}


# ------------------------------------------------------------------------------------------ scf-for-loop-unroll
def gen_unroll(rng):
    pb = PB(rng, floats=rng.random() < 0.3)
    args = [["%n", "index", "bound"], ["%x", "i32", "data"], ["%y", "i64", "data"], ["%z", "i32", "data"]]
    env = env_of(args)
    state = {"const_loops": 0}

    def loop(env, ind, depth, force_const):
        ity = "index" if rng.random() < 0.8 else "i32"
        const = force_const or rng.random() < 0.8
        if const:
            lbv = rng.choice([0, 0, 0, 1, 2, -1, -3, 4])
            ubv = lbv + rng.choice([0, 1, 2, 3, 4, 5, 7, -1, -4]) if rng.random() < 0.85 else rng.choice([0, 3, 6])
            stv = rng.choice([1, 1, 1, 2, 3, 4])
            lb, ub, st = pb.const(ind, lbv, ity), pb.const(ind, ubv, ity), pb.const(ind, stv, ity)
            state["const_loops"] += 1
        else:
            lb = pb.const(ind, rng.choice([0, 1]), ity)
            st = pb.const(ind, rng.choice([1, 2]), ity)
            if ity == "index":
                ub = pb.masked(ind, "%n", 7)
            else:
                c7 = pb.const(ind, 7, "i32")
                ub = pb.fresh()
                pb.emit(ind, f"{ub} = arith.andi %x, {c7} : i32")
        nit = rng.choice([0, 1, 1, 2])
        types = [rng.choice(["i32", "index", "i64"]) for _ in range(nit)]
        inits = [pb.pick(env, t, ind) for t in types]
        iv = pb.fresh("i")
        accs = [pb.fresh("a") for _ in range(nit)]
        outs = [pb.fresh("r") for _ in range(nit)]
        suffix = "" if ity == "index" else f" : {ity}"
        if nit:
            ia = ", ".join(f"{a} = {i}" for a, i in zip(accs, inits))
            pb.emit(ind, f"{', '.join(outs)} = scf.for {iv} = {lb} to {ub} step {st} iter_args({ia}) -> ({', '.join(types)}){suffix} {{")
        else:
            pb.emit(ind, f"scf.for {iv} = {lb} to {ub} step {st}{suffix} {{")
        e2 = list(env) + [(iv, ity)] + list(zip(accs, types))
        news = []
        for a, t in zip(accs, types):
            other = iv if t == ity else pb.pick(e2, t, ind + 1)
            news.append(pb.binop(e2, ind + 1, t, a, other, ops=("addi", "addi", "xori", "muli", "subi")))
        for _ in range(rng.randint(0, 3)):
            r = rng.random()
            if r < 0.5:
                pb.filler(e2, ind + 1, 1, depth=1 if depth < 1 else 2)
            elif r < 0.8:
                pb.effect(e2, ind + 1, (iv, ity) if rng.random() < 0.5 else None)
            elif depth < 1:
                loop(e2, ind + 1, depth + 1, rng.random() < 0.7)
        if nit == 0:
            pb.effect(e2, ind + 1, (iv, ity) if rng.random() < 0.6 else None)
        if nit:
            ys = []
            for nv, a, t in zip(news, accs, types):
                r = rng.random()
                ys.append(nv if r < 0.7 else a if r < 0.8 else iv if (r < 0.9 and t == ity) else pb.pick(e2, t, ind + 1))
            pb.emit(ind + 1, f"scf.yield {', '.join(ys)} : {', '.join(types)}")
        pb.emit(ind, "}")
        env.extend(zip(outs, types))

    pb.filler(env, 1, rng.randint(0, 2))
    for k in range(rng.randint(1, 3)):
        loop(env, 1, 0, k == 0 and rng.random() < 0.9)
        pb.filler(env, 1, rng.randint(0, 1))
    text = pb.module(args, pb.choose_rets(env[len(args):] or env))
    return {"text": text, "args": args, "meta": {"const_loops": state["const_loops"]}}
