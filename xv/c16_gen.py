"""c16_gen - DIRECTED program generators for C16, one per pass, built so that the pass actually fires.
Text only (nothing of xDSL is imported). Each generator returns a case dict
  {"text": module text, "args": [[name, type, role], ...], "meta": {...}}
`gen_inputs16(rng, args, n)` draws argument rows by *role* (bound / factor / div / sidx / swidx / data / mem)."""
from __future__ import annotations

import random

from xv import genprog

W = genprog.W
M64 = (1 << 64) - 1


def u64(x):
    return x & M64


class PB:
    """Program builder: lines + fresh names + a genprog.Gen used for filler statements."""

    def __init__(self, rng, floats=False, filler_types=("i1", "i32", "i64", "index"), ext=True):
        self.rng = rng
        self.ext = ext
        self.lines: list[str] = []
        self.k = 0
        self.g = genprog.Gen(rng, allow_float=floats, allow_loops=True, effects=True, int_types=list(filler_types),
                             safe_div=0.9, ext_calls=ext, flt_types=["f32"])

    def fresh(self, p="t"):
        self.k += 1
        return f"%{p}{self.k}"

    def emit(self, ind, s):
        self.lines.append("  " * ind + s)

    def const(self, ind, val, t="index"):
        v = self.fresh("c")
        if t == "i1":
            self.emit(ind, f"{v} = arith.constant {'true' if val else 'false'}")
        else:
            self.emit(ind, f"{v} = arith.constant {val} : {t}")
        return v

    def pick(self, env, t, ind):
        return self.g.pick(env, t, self.lines, "  " * ind)

    def filler(self, env, ind, n, depth=2):
        for _ in range(n):
            self.g.stmt(env, self.lines, "  " * ind, depth)

    def effect(self, env, ind, val=None):
        """An ordered, observable effect on a value."""
        if val is None:
            cands = [(v, t) for v, t in env if t in W]
            if not cands:
                cands = [(self.const(ind, 7, "i32"), "i32")]
            val = self.rng.choice(cands)
        v, t = val
        r = self.rng.random()
        if r < 0.5 or t != "i32":
            self.emit(ind, f'"test.op"({v}) : ({t}) -> ()')
        elif r < 0.8 or not self.ext:
            self.emit(ind, f'"test.op_with_memwrite"({v}) : ({t}) -> ()')
        else:
            o = self.fresh("e")
            self.emit(ind, f"{o} = func.call @ext_i32({v}) : (i32) -> i32")
            env.append((o, "i32"))

    def binop(self, env, ind, t, a, b, ops=("addi", "subi", "muli", "xori", "andi", "ori")):
        v = self.fresh()
        self.emit(ind, f"{v} = arith.{self.rng.choice(ops)} {a}, {b} : {t}")
        env.append((v, t))
        return v

    def pos_step(self, env, ind, src):
        """symbolic step in {1,3,5,7} derived from an index value"""
        c3, c1 = self.const(ind, 6), self.const(ind, 1)
        a = self.fresh()
        self.emit(ind, f"{a} = arith.andi {src}, {c3} : index")
        b = self.fresh()
        self.emit(ind, f"{b} = arith.ori {a}, {c1} : index")
        return b

    def masked(self, ind, src, mask=7):
        c = self.const(ind, mask)
        a = self.fresh()
        self.emit(ind, f"{a} = arith.andi {src}, {c} : index")
        return a

    def module(self, args, rets):
        sig = ", ".join(f"{a}: {t}" for a, t, _ in args)
        rt = ", ".join(t for _, t in rets)
        rv = ", ".join(v for v, _ in rets)
        body = "\n".join(self.lines)
        head = f"func.func @main({sig}) -> ({rt}) {{\n" if rets else f"func.func @main({sig}) {{\n"
        tail = f"\n  func.return {rv} : {rt}\n}}\n" if rets else "\n  func.return\n}\n"
        return ("func.func private @ext_i32(i32) -> i32\n" if self.ext else "") + head + body + tail

    def choose_rets(self, env, prefer=(), n=None):
        rng = self.rng
        cands = [(v, t) for v, t in env if not t.startswith("memref")]
        rets = [p for p in prefer if p in cands]
        want = n or rng.randint(1, 3)
        while len(rets) < want and cands:
            rets.append(rng.choice(cands))
        if not rets:
            rets = [(self.const(1, 0, "i32"), "i32")]
        return rets[:4]


def carried_types(rng, pool=("i32", "index", "i64"), weights=(0, 1, 1, 2, 2, 3)):
    """Types of the loop-carried values: mostly REPEATED types, so that yields can permute / rotate them."""
    nit = rng.choice(weights)
    if nit <= 1 or rng.random() < 0.3:
        return [rng.choice(pool) for _ in range(nit)]
    base = rng.choice(pool)
    return [base if rng.random() < 0.85 else rng.choice(pool) for _ in range(nit)]


def carried_yield(pb, rng, e2, ind, accs, types, news, iv=None, ivtype="index", invariant=()):
    """Operands of the loop terminator. Besides the usual `new value per position` this produces the shapes in
    which the carried values must be re-bound SIMULTANEOUSLY: swap / rotation / shift register of the block
    arguments, the same value at two positions, a block argument passed through unchanged, an outer
    loop-invariant value, the induction variable (cast when the types differ)."""
    n = len(accs)
    ys = list(news)
    if n == 0:
        return ys
    same = {}
    for k, t in enumerate(types):
        same.setdefault(t, []).append(k)
    groups = [g for g in same.values() if len(g) >= 2]
    r = rng.random()
    if groups and r < 0.45:
        g = rng.choice(groups)
        mode = rng.choice(["swap", "rotate", "shift", "dup", "mixed"])
        if mode == "swap":
            a, b = rng.sample(g, 2)
            ys[a], ys[b] = accs[b], accs[a]
        elif mode == "rotate":
            sh = rng.choice([1, len(g) - 1])
            for j, k in enumerate(g):
                ys[k] = accs[g[(j + sh) % len(g)]]
        elif mode == "shift":       # yield %new, %x, %y
            for j in range(len(g) - 1, 0, -1):
                ys[g[j]] = accs[g[j - 1]]
            ys[g[0]] = news[g[0]]
        elif mode == "dup":         # the same value in two positions
            v = rng.choice([news[g[0]], accs[g[-1]], accs[g[0]]])
            a, b = rng.sample(g, 2)
            ys[a] = ys[b] = v
        else:                       # an earlier block argument at a later position, a new value at the earlier one
            a, b = sorted(rng.sample(g, 2))
            ys[b] = accs[a]
            ys[a] = news[b] if rng.random() < 0.5 else news[a]
    for k, t in enumerate(types):
        r = rng.random()
        if r < 0.08:
            ys[k] = accs[k]                                  # pass-through
        elif r < 0.14:
            inv = [v for v, tt in invariant if tt == t]
            if inv:
                ys[k] = rng.choice(inv)                      # outer loop-invariant value
        elif r < 0.20 and iv is not None:
            if t == ivtype:
                ys[k] = iv
            elif {t, ivtype} == {"index", "i32"} or {t, ivtype} == {"index", "i64"}:
                c = pb.fresh("t")
                pb.emit(ind, f"{c} = arith.index_cast {iv} : {ivtype} to {t}")
                ys[k] = c
    return ys


def observe_results(pb, rng, ind, outs, types, p=0.6):
    """Make every loop result observable in the effect log (the returned values are a random subset)."""
    if outs and rng.random() < p:
        pb.emit(ind, f'"test.op"({", ".join(outs)}) : ({", ".join(types)}) -> ()')


def env_of(args):
    return [(a, t) for a, t, _ in args]


# ------------------------------------------------------------------------------------------ inputs
BOUND_VALS = [0, 1, 2, 3, 4, 5, 6, 7, 8, 9, 0, 1, 2, 3, -1, -3]
FACTOR_VALS = [1, 2, 3, 4, 5, 7, 1, 2, 3, 6, 2, 3, 4, 1, 2, 3, 5, 8, -1, 0, -2, 1 << 62, (1 << 63) - 1, -(1 << 63)]
DIV_VALS = [0, 1, -1, 2, 3, -2, 5, 0, 1, 7]


def gen_inputs16(rng, args, n, meta=None):
    rows = []
    for _ in range(n):
        row = []
        for _a, t, role in args:
            if role == "mem":
                shape = [int(x) for x in t[len("memref<"):-1].split("x")[:-1]]
                size = 1
                for d in shape:
                    size *= d
                row.append(["memref", shape, [rng.getrandbits(32) if rng.random() < 0.7 else rng.choice([0, 1, 2, 5, 0xFFFFFFFF])
                                              for _ in range(size)]])
                continue
            w = W[t]
            mask = (1 << w) - 1
            if role == "bound":
                v = rng.choice(BOUND_VALS) if rng.random() < 0.93 else rng.choice([(1 << 63) - 1, -(1 << 63), rng.getrandbits(64)])
            elif role == "factor":
                r = rng.random()
                v = rng.randint(1, 8) if r < 0.8 else rng.choice([0, -1, -2, -7]) if r < 0.88 else \
                    rng.choice([1 << 62, (1 << 63) - 1, -(1 << 63), 1 << 32]) if r < 0.94 else rng.getrandbits(64)
            elif role == "div":
                v = rng.choice(DIV_VALS) if rng.random() < 0.85 else rng.getrandbits(w)
            elif role == "sidx":
                v = rng.randint(0, 9) if rng.random() < 0.85 else rng.randint(-9, -1)
            elif role == "swidx":
                cs = (meta or {}).get("switch_cases") or [0, 1, 2]
                v = rng.choice(cs + [-1, 7, 4, rng.choice(cs)]) if rng.random() < 0.88 else rng.choice([c + (1 << 32) for c in cs] + [1 << 40])
            else:
                v = genprog.gen_inputs(rng, [t], 1)[0][0]
            row.append(v & mask)
        rows.append(row)
    return rows


# ------------------------------------------------------------------------------------------ convert-scf-to-cf
class Scf2Cf:
    def __init__(self, rng):
        self.rng = rng
        self.pb = PB(rng, floats=rng.random() < 0.3)
        self.cases: list[int] = []
        self.has_while_nested = False
        self.n_struct = 0

    def for_bounds(self, env, ind):
        rng, pb = self.rng, self.pb
        r = rng.random()
        idx = [v for v, t in env if t == "index"]
        lb = pb.const(ind, rng.choice([0, 0, 0, 1, 2, -1, -2, 5])) if r < 0.75 or not idx else rng.choice(idx)
        r = rng.random()
        if r < 0.5 or not idx:
            ub = pb.const(ind, rng.choice([0, 1, 3, 4, 5, 6, -1, 2]))
        elif r < 0.8:
            ub = rng.choice(idx)
        else:
            ub = pb.masked(ind, rng.choice(idx), 7)
        r = rng.random()
        st = pb.const(ind, rng.choice([1, 1, 1, 2, 3, 4])) if r < 0.75 or not idx else pb.pos_step(env, ind, rng.choice(idx))
        return lb, ub, st

    def block(self, env, ind, depth, n=None, in_while=False):
        rng, pb = self.rng, self.pb
        for _ in range(n or rng.randint(1, 4)):
            r = rng.random()
            if r < 0.25:
                pb.filler(env, ind, 1, depth=2)
            elif r < 0.40:
                pb.effect(env, ind)
            elif depth >= 2:
                pb.filler(env, ind, 1, depth=2)
            elif r < 0.52:
                self.if_noresult(env, ind, depth, in_while)
            elif r < 0.66:
                self.if_result(env, ind, depth, in_while)
            elif r < 0.90:
                self.for_(env, ind, depth, in_while)
            elif r < 0.935 and depth <= 1 and not in_while:
                self.while_(env, ind, depth)
            else:
                self.switch(env, ind, depth, in_while)

    def mark(self, in_while):
        self.n_struct += 1
        if in_while:
            self.has_while_nested = True

    def if_noresult(self, env, ind, depth, in_while):
        pb = self.pb
        self.mark(in_while)
        c = pb.pick(env, "i1", ind)
        pb.emit(ind, f"scf.if {c} {{")
        e2 = list(env)
        self.block(e2, ind + 1, depth + 1, in_while=in_while)
        pb.effect(e2, ind + 1)
        if self.rng.random() < 0.5:
            pb.emit(ind, "} else {")
            e3 = list(env)
            self.block(e3, ind + 1, depth + 1, in_while=in_while)
        pb.emit(ind, "}")

    def if_result(self, env, ind, depth, in_while):
        rng, pb = self.rng, self.pb
        self.mark(in_while)
        c = pb.pick(env, "i1", ind)
        nres = rng.choice([1, 1, 2])
        types = [rng.choice(["i32", "index", "i64"]) for _ in range(nres)]
        outs = [pb.fresh("r") for _ in range(nres)]
        pb.emit(ind, f"{', '.join(outs)} = scf.if {c} -> ({', '.join(types)}) {{")
        for br in range(2):
            e2 = list(env)
            self.block(e2, ind + 1, depth + 1, n=rng.randint(0, 2), in_while=in_while)
            ys = [pb.pick(e2, t, ind + 1) for t in types]
            pb.emit(ind + 1, f"scf.yield {', '.join(ys)} : {', '.join(types)}")
            if br == 0:
                pb.emit(ind, "} else {")
        pb.emit(ind, "}")
        env.extend(zip(outs, types))

    def for_(self, env, ind, depth, in_while):
        rng, pb = self.rng, self.pb
        self.mark(in_while)
        lb, ub, st = self.for_bounds(env, ind)
        types = carried_types(rng)
        nit = len(types)
        inits = [pb.pick(env, t, ind) for t in types]
        iv = pb.fresh("i")
        accs = [pb.fresh("a") for _ in range(nit)]
        outs = [pb.fresh("r") for _ in range(nit)]
        if nit:
            ia = ", ".join(f"{a} = {i}" for a, i in zip(accs, inits))
            pb.emit(ind, f"{', '.join(outs)} = scf.for {iv} = {lb} to {ub} step {st} iter_args({ia}) -> ({', '.join(types)}) {{")
        else:
            pb.emit(ind, f"scf.for {iv} = {lb} to {ub} step {st} {{")
        e2 = list(env) + [(iv, "index")] + list(zip(accs, types))
        news = []
        for a, t in zip(accs, types):
            other = iv if t == "index" else pb.pick(e2, t, ind + 1)
            news.append(pb.binop(e2, ind + 1, t, a, other, ops=("addi", "addi", "xori", "muli", "subi")))
        self.block(e2, ind + 1, depth + 1, n=rng.randint(0, 3), in_while=in_while)
        if nit == 0 or rng.random() < 0.5:
            pb.effect(e2, ind + 1, (iv, "index") if rng.random() < 0.5 else None)
        if nit:
            ys = carried_yield(pb, rng, e2, ind + 1, accs, types, news, iv, "index", env)
            pb.emit(ind + 1, f"scf.yield {', '.join(ys)} : {', '.join(types)}")
        pb.emit(ind, "}")
        observe_results(pb, rng, ind, outs, types)
        env.extend(zip(outs, types))

    def while_(self, env, ind, depth):
        rng, pb = self.rng, self.pb
        self.n_struct += 1
        idx = [v for v, t in env if t == "index"]
        init = pb.masked(ind, rng.choice(idx), 7) if idx else pb.const(ind, 3)
        t = rng.choice(["i32", "i64", "index"])
        a0 = pb.pick(env, t, ind)
        c0, c1 = pb.const(ind, 0), pb.const(ind, 1)
        i, acc, i2, acc2, r0, r1 = (pb.fresh(p) for p in ("w", "w", "w", "w", "r", "r"))
        pb.emit(ind, f"{r0}, {r1} = scf.while ({i} = {init}, {acc} = {a0}) : (index, {t}) -> (index, {t}) {{")
        cnd = pb.fresh()
        pb.emit(ind + 1, f"{cnd} = arith.cmpi sgt, {i}, {c0} : index")
        pb.emit(ind + 1, f"scf.condition({cnd}) {i}, {acc} : index, {t}")
        pb.emit(ind, "} do {")
        pb.emit(ind, f"^bb0({i2}: index, {acc2}: {t}):")
        e2 = list(env) + [(i2, "index"), (acc2, t)]
        nv = pb.binop(e2, ind + 1, t, acc2, i2 if t == "index" else pb.pick(e2, t, ind + 1), ops=("addi", "xori", "muli"))
        if rng.random() < 0.35:
            self.block(e2, ind + 1, depth + 1, n=rng.randint(1, 2), in_while=True)
        else:
            pb.filler(e2, ind + 1, rng.randint(0, 2), depth=2)
            pb.effect(e2, ind + 1)
        i3 = pb.fresh()
        pb.emit(ind + 1, f"{i3} = arith.subi {i2}, {c1} : index")
        pb.emit(ind + 1, f"scf.yield {i3}, {nv} : index, {t}")
        pb.emit(ind, "}")
        env.extend([(r0, "index"), (r1, t)])

    def switch(self, env, ind, depth, in_while):
        rng, pb = self.rng, self.pb
        self.mark(in_while)
        arg = "%sw" if rng.random() < 0.7 else pb.pick(env, "index", ind)
        ncase = rng.randint(1, 3)
        cases = rng.sample([0, 1, 2, 3, 5, 8, -1, 100], ncase)
        self.cases.extend(cases)
        t = rng.choice(["i32", "index", None])
        out = pb.fresh("r")
        pb.emit(ind, f"{out} = scf.index_switch {arg} -> {t}" if t else f"scf.index_switch {arg}")
        for c in cases + [None]:
            pb.emit(ind, f"case {c} {{" if c is not None else "default {")
            e2 = list(env)
            self.block(e2, ind + 1, depth + 1, n=rng.randint(0, 2), in_while=in_while)
            if t:
                pb.emit(ind + 1, f"scf.yield {pb.pick(e2, t, ind + 1)} : {t}")
            else:
                pb.effect(e2, ind + 1)
                pb.emit(ind + 1, "scf.yield")
            pb.emit(ind, "}")
        if t:
            env.append((out, t))


def gen_scf2cf(rng):
    g = Scf2Cf(rng)
    args = [["%n", "index", "bound"], ["%k", "index", "bound"], ["%x", "i32", "data"], ["%y", "i64", "data"],
            ["%b", "i1", "data"], ["%sw", "index", "swidx"]]
    env = env_of(args)
    while g.n_struct == 0:
        g.block(env, 1, 0, n=rng.randint(2, 5))
    text = g.pb.module(args, g.pb.choose_rets(env[len(args):] or env))
    return {"text": text, "args": args, "meta": {"switch_cases": sorted(set(g.cases)), "while_nested": g.has_while_nested}}


# ------------------------------------------------------------------------------------------ scf-for-loop-unroll
def gen_unroll(rng):
    pb = PB(rng, floats=rng.random() < 0.3)
    args = [["%n", "index", "bound"], ["%x", "i32", "data"], ["%y", "i64", "data"], ["%z", "i32", "data"]]
    env = env_of(args)
    state = {"const_loops": 0}

    def loop(env, ind, depth, force_const):
        ity = "index" if rng.random() < 0.8 else "i32"
        const = force_const or rng.random() < 0.8
        if const:
            lbv = rng.choice([0, 0, 0, 1, 2, -1, -3, 4])
            ubv = lbv + rng.choice([0, 1, 2, 3, 4, 5, 7, -1, -4]) if rng.random() < 0.85 else rng.choice([0, 3, 6])
            stv = rng.choice([1, 1, 1, 2, 3, 4])
            lb, ub, st = pb.const(ind, lbv, ity), pb.const(ind, ubv, ity), pb.const(ind, stv, ity)
            state["const_loops"] += 1
        else:
            lb = pb.const(ind, rng.choice([0, 1]), ity)
            st = pb.const(ind, rng.choice([1, 2]), ity)
            if ity == "index":
                ub = pb.masked(ind, "%n", 7)
            else:
                c7 = pb.const(ind, 7, "i32")
                ub = pb.fresh()
                pb.emit(ind, f"{ub} = arith.andi %x, {c7} : i32")
        types = carried_types(rng)
        nit = len(types)
        inits = [pb.pick(env, t, ind) for t in types]
        iv = pb.fresh("i")
        accs = [pb.fresh("a") for _ in range(nit)]
        outs = [pb.fresh("r") for _ in range(nit)]
        suffix = "" if ity == "index" else f" : {ity}"
        if nit:
            ia = ", ".join(f"{a} = {i}" for a, i in zip(accs, inits))
            pb.emit(ind, f"{', '.join(outs)} = scf.for {iv} = {lb} to {ub} step {st} iter_args({ia}) -> ({', '.join(types)}){suffix} {{")
        else:
            pb.emit(ind, f"scf.for {iv} = {lb} to {ub} step {st}{suffix} {{")
        e2 = list(env) + [(iv, ity)] + list(zip(accs, types))
        news = []
        for a, t in zip(accs, types):
            other = iv if t == ity else pb.pick(e2, t, ind + 1)
            news.append(pb.binop(e2, ind + 1, t, a, other, ops=("addi", "addi", "xori", "muli", "subi")))
        for _ in range(rng.randint(0, 3)):
            r = rng.random()
            if r < 0.5:
                pb.filler(e2, ind + 1, 1, depth=1 if depth < 1 else 2)
            elif r < 0.8:
                pb.effect(e2, ind + 1, (iv, ity) if rng.random() < 0.5 else None)
            elif depth < 1:
                loop(e2, ind + 1, depth + 1, rng.random() < 0.7)
        if nit == 0:
            pb.effect(e2, ind + 1, (iv, ity) if rng.random() < 0.6 else None)
        if nit:
            ys = carried_yield(pb, rng, e2, ind + 1, accs, types, news, iv, ity, env)
            pb.emit(ind + 1, f"scf.yield {', '.join(ys)} : {', '.join(types)}")
        pb.emit(ind, "}")
        observe_results(pb, rng, ind, outs, types)
        env.extend(zip(outs, types))

    pb.filler(env, 1, rng.randint(0, 2))
    for k in range(rng.randint(1, 3)):
        loop(env, 1, 0, k == 0 and rng.random() < 0.9)
        pb.filler(env, 1, rng.randint(0, 1))
    text = pb.module(args, pb.choose_rets(env[len(args):] or env))
    return {"text": text, "args": args, "meta": {"const_loops": state["const_loops"]}}


# ------------------------------------------------------------------------------------------ lower-affine
def _amap(dims, syms, results):
    d = ", ".join(f"d{i}" for i in range(dims))
    s = f"[{', '.join(f's{i}' for i in range(syms))}]" if syms else ""
    return f"affine_map<({d}){s} -> ({', '.join(results)})>"


def _aexpr(rng, terms, depth=0):
    """random affine expression text over the given dim/sym names"""
    r = rng.random()
    if depth >= 2 or r < 0.3:
        return rng.choice(terms) if rng.random() < 0.8 else str(rng.choice([0, 1, 2, 3, 5, -1, -4]))
    a = _aexpr(rng, terms, depth + 1)
    if r < 0.55:
        return f"({a} + {_aexpr(rng, terms, depth + 1)})"
    if r < 0.65:
        return f"({a} * {rng.choice([2, 3, -1, 4])})"
    op = rng.choice(["floordiv", "mod", "ceildiv", "mod"])
    return f"({a} {op} {rng.choice([2, 3, 4, 5, 8, 1])})"


def gen_lower_affine(rng):
    pb = PB(rng, floats=rng.random() < 0.3)
    two_d = rng.random() < 0.65
    shape2 = rng.choice([[4, 4], [3, 5], [5, 2], [2, 6], [4, 4], [6, 3]])  # square and non-square buffers
    mt = f"memref<{shape2[0]}x{shape2[1]}xi32>" if two_d else "memref<8xi32>"
    args = [["%m", mt, "mem"], ["%p", "index", "sidx"], ["%q", "index", "sidx"], ["%x", "i32", "data"],
            ["%n", "index", "bound"]]
    env = [(a, t) for a, t, _ in args if not t.startswith("memref")]
    st = {"sites": 0}

    def apply_(env, ind, dims_pool):
        nd = rng.randint(1, min(2, len(dims_pool)))
        ns = rng.choice([0, 0, 1])
        ds = [rng.choice(dims_pool) for _ in range(nd)]
        ss = [rng.choice(dims_pool) for _ in range(ns)]
        e = _aexpr(rng, [f"d{i}" for i in range(nd)] + [f"s{i}" for i in range(ns)])
        v = pb.fresh("ap")
        ops = ", ".join(ds + ss)
        tys = ", ".join(["index"] * (nd + ns))
        pb.emit(ind, f'{v} = "affine.apply"({ops}) <{{map = {_amap(nd, ns, [e])}}}> : ({tys}) -> index')
        env.append((v, "index"))
        st["sites"] += 1
        return v

    def idx_expr(d, size):
        """in-bounds (for d >= 0) index expression over one dim"""
        r = rng.random()
        if r < 0.45:
            return f"{d} mod {size}"
        if r < 0.6:
            return f"({d} + {rng.choice([1, 2, 3])}) mod {size}"
        if r < 0.75:
            return f"({d} floordiv 2) mod {size}"
        if r < 0.85:
            return f"({d} * {rng.choice([2, 3])}) mod {size}"
        if r < 0.93:
            return f"({d} ceildiv 3) mod {size}"
        return d  # may be out of bounds -> source undefined for such inputs

    def bounded(ind, pool, k):
        """an index value in [0, k): a constant or `x remui k` of any index value (in bounds by construction)"""
        if rng.random() < 0.3 or not pool:
            return pb.const(ind, rng.randrange(k))
        c = pb.const(ind, k)
        v = pb.fresh("b")
        pb.emit(ind, f"{v} = arith.remui {rng.choice(pool)}, {c} : index")
        return v

    def access_dimonly(env, ind, ivs, store):
        """affine.load / affine.store whose map consists of bare dimensions only, mostly NOT the identity:
        permutations `(d0, d1) -> (d1, d0)`, repeated dims `(d0, d1) -> (d0, d0)`, projections out of three dims.
        Every operand is bounded so that the access is in bounds for the map as written (also on non-square
        buffers), and operands that the map does not use are made different from the used ones."""
        sizes = shape2
        nd = rng.choice([2, 2, 2, 3])
        r = rng.random()
        if nd == 2:
            perm = [1, 0] if r < 0.45 else [0, 0] if r < 0.65 else [1, 1] if r < 0.85 else [0, 1]
        else:
            perm = [rng.randrange(3), rng.randrange(3)]
        pool = list(ivs) + ["%p", "%q", "%n"]
        ops = []
        for d in range(nd):
            lim = [sizes[pos] for pos in range(2) if perm[pos] == d]
            # an unused dim may be anything below 7 (out of bounds if it were wrongly used on a small buffer)
            ops.append(bounded(ind, pool, min(lim) if lim else 7))
        m = _amap(nd, 0, [f"d{k}" for k in perm])
        tys = ", ".join([mt] + ["index"] * nd)
        st["sites"] += 1
        if store:
            val = pb.pick(env, "i32", ind)
            pb.emit(ind, f'"affine.store"({val}, {", ".join(["%m"] + ops)}) <{{map = {m}}}> : (i32, {tys}) -> ()')
        else:
            v = pb.fresh("ld")
            pb.emit(ind, f'{v} = "affine.load"({", ".join(["%m"] + ops)}) <{{map = {m}}}> : ({tys}) -> i32')
            env.append((v, "i32"))
            pb.emit(ind, f'"test.op"({v}) : (i32) -> ()')

    def access(env, ind, ivs, store):
        """affine.load / affine.store on %m with maps over induction variables (or constants)"""
        if two_d and rng.random() < 0.45:
            return access_dimonly(env, ind, ivs, store)
        sizes = shape2 if two_d else [8]
        if not ivs or rng.random() < 0.15:
            res = [str(rng.randrange(s)) for s in sizes]
            ops, nd = [], 0
        else:
            nd = rng.randint(1, min(2, len(ivs)))
            ops = [rng.choice(ivs) for _ in range(nd)]
            res = [idx_expr(f"d{rng.randrange(nd)}", s) for s in sizes]
        m = _amap(nd, 0, res)
        tys = ", ".join([mt] + ["index"] * nd)
        st["sites"] += 1
        if store:
            val = pb.pick(env, "i32", ind)
            pb.emit(ind, f'"affine.store"({val}, {", ".join(["%m"] + ops)}) <{{map = {m}}}> : (i32, {tys}) -> ()')
        else:
            v = pb.fresh("ld")
            pb.emit(ind, f'{v} = "affine.load"({", ".join(["%m"] + ops)}) <{{map = {m}}}> : ({tys}) -> i32')
            env.append((v, "i32"))

    def afor(env, ind, depth, ivs):
        lbv = rng.choice([0, 0, 0, 1, 2, -1, -2, 3])
        ubv = lbv + rng.choice([0, 1, 2, 3, 4, 5, 6, -2])
        stepv = rng.choice([1, 1, 1, 2, 3])
        types = carried_types(rng, pool=("i32", "index"))
        nit = len(types)
        inits = [pb.pick(env, t, ind) for t in types]
        iv = pb.fresh("i")
        accs = [pb.fresh("a") for _ in range(nit)]
        outs = [pb.fresh("r") for _ in range(nit)]
        symbolic = rng.random() < 0.06  # bounds with operands: the pass has no support (it raises) - kept rare
        if symbolic:
            lbm, ubm, bops, seg = "affine_map<() -> (0)>", "affine_map<()[s0] -> (s0)>", ["%n"], [0, 1, nit]
        else:
            lbm, ubm, bops, seg = f"affine_map<() -> ({lbv})>", f"affine_map<() -> ({ubv})>", [], [0, 0, nit]
        head = f'{", ".join(outs)} = ' if nit else ""
        pb.emit(ind, f'{head}"affine.for"({", ".join(bops + inits)}) <{{lowerBoundMap = {lbm}, upperBoundMap = {ubm}, '
                     f'step = {stepv} : index, operandSegmentSizes = array<i32: {seg[0]}, {seg[1]}, {seg[2]}>}}> ({{')
        pb.emit(ind, f"^bb0({', '.join([f'{iv}: index'] + [f'{a}: {t}' for a, t in zip(accs, types)])}):")
        e2 = list(env) + [(iv, "index")] + list(zip(accs, types))
        ivs2 = ivs + [iv]
        news = []
        for a, t in zip(accs, types):
            other = iv if t == "index" else pb.pick(e2, t, ind + 1)
            news.append(pb.binop(e2, ind + 1, t, a, other, ops=("addi", "addi", "xori", "muli")))
        for _ in range(rng.randint(1, 4)):
            r = rng.random()
            if r < 0.3:
                access(e2, ind + 1, ivs2, store=False)
            elif r < 0.55:
                access(e2, ind + 1, ivs2, store=True)
            elif r < 0.7:
                v = apply_(e2, ind + 1, ivs2 + ["%p", "%q"])
                if rng.random() < 0.6:
                    pb.effect(e2, ind + 1, (v, "index"))
            elif r < 0.8 and depth < 1:
                afor(e2, ind + 1, depth + 1, ivs2)
            elif r < 0.9:
                pb.filler(e2, ind + 1, 1, depth=2)
            else:
                pb.effect(e2, ind + 1)
        ys = carried_yield(pb, rng, e2, ind + 1, accs, types, news, iv, "index", env)
        pb.emit(ind + 1, f'"affine.yield"({", ".join(ys)}) : ({", ".join(types)}) -> ()')
        ft = f'({", ".join(["index"] * len(bops) + types)}) -> ({", ".join(types)})' if nit else \
            f'({", ".join(["index"] * len(bops))}) -> ()'
        pb.emit(ind, f"}}) : {ft}")
        observe_results(pb, rng, ind, outs, types)
        env.extend(zip(outs, types))
        st["sites"] += 1

    for _ in range(rng.randint(2, 5)):
        r = rng.random()
        if r < 0.35:
            afor(env, 1, 0, [])
        elif r < 0.6:
            v = apply_(env, 1, ["%p", "%q", "%n"] + [v for v, t in env if t == "index"][:3])
            if rng.random() < 0.5:
                pb.effect(env, 1, (v, "index"))
        elif r < 0.75:
            access(env, 1, [], store=rng.random() < 0.5)
        else:
            pb.filler(env, 1, 1, depth=1)
    if st["sites"] == 0:
        afor(env, 1, 0, [])
    text = pb.module(args, pb.choose_rets(env[4:] or env))
    return {"text": text, "args": args, "meta": {}}


# ------------------------------------------------------------------------------------------ range folding
def gen_range_folding(rng):
    pb = PB(rng, floats=False)
    args = [["%n", "index", "bound"], ["%k", "index", "factor"], ["%j", "index", "factor"], ["%x", "i32", "data"],
            ["%lo", "index", "bound"]]
    env = env_of(args)

    def factor(env, ind, outer_vals):
        r = rng.random()
        if r < 0.35:
            return rng.choice(["%k", "%j"])
        if r < 0.65:
            return pb.const(ind, rng.choice([2, 3, 1, 4, 5, 7, 2, 3, 6, 2, 3, 4, 1, 2, 3, 5, 2, 3, 4, 8, 0, -1]))
        if r < 0.8 and outer_vals:
            return rng.choice(outer_vals)
        c = pb.const(ind, rng.choice([1, 2, 3]))
        v = pb.fresh("f")
        pb.emit(ind, f"{v} = arith.{rng.choice(['addi', 'ori', 'ori'])} {rng.choice(['%k', '%j'])}, {c} : index")
        return v

    def floop(env, ind, depth, outer_vals):
        # folding factors must be defined OUTSIDE the loop to be foldable
        trigger = rng.random() < 0.85
        nchain = rng.choice([1, 1, 2, 3]) if trigger else 1
        kinds = [rng.choice(["addi", "muli", "muli"]) for _ in range(nchain)]
        facs = [factor(env, ind, outer_vals) for _ in range(nchain)]
        lb = pb.const(ind, rng.choice([0, 0, 1, 2, -1])) if rng.random() < 0.7 else "%lo"
        r = rng.random()
        ub = pb.const(ind, rng.choice([0, 1, 3, 4, 5, 6])) if r < 0.45 else "%n" if r < 0.85 else pb.masked(ind, "%n", 7)
        st = pb.const(ind, rng.choice([1, 1, 2, 3])) if rng.random() < 0.8 else pb.pos_step(env, ind, "%lo")
        nit = rng.choice([0, 1, 1, 2, 3])
        inits = [pb.pick(env, "index", ind) for _ in range(nit)]
        iv = pb.fresh("i")
        accs = [pb.fresh("a") for _ in range(nit)]
        outs = [pb.fresh("r") for _ in range(nit)]
        if nit:
            ia = ", ".join(f"{a} = {i}" for a, i in zip(accs, inits))
            pb.emit(ind, f"{', '.join(outs)} = scf.for {iv} = {lb} to {ub} step {st} iter_args({ia}) -> "
                         f"({', '.join(['index'] * nit)}) {{")
        else:
            pb.emit(ind, f"scf.for {iv} = {lb} to {ub} step {st} {{")
        e2 = list(env) + [(iv, "index")] + [(a, "index") for a in accs]
        cur = iv
        mode = rng.random()
        in_if = trigger and mode < 0.12
        ind2 = ind + 1
        if in_if:
            c = pb.pick(env, "i1", ind + 1)
            pb.emit(ind + 1, f"scf.if {c} {{")
            ind2 = ind + 2
        for kd, f in zip(kinds, facs):
            v = pb.fresh("u")
            a, b = (cur, f) if rng.random() < 0.6 else (f, cur)
            pb.emit(ind2, f"{v} = arith.{kd} {a}, {b} : index")
            cur = v
        if not trigger:
            r = rng.random()
            if r < 0.4:  # second use of the induction variable
                pb.emit(ind2, f'"test.op"({iv}) : (index) -> ()')
            elif r < 0.7:  # factor defined inside the loop
                c = pb.const(ind2, 3)
                v = pb.fresh("u")
                pb.emit(ind2, f"{v} = arith.muli {cur}, {c} : index")
                cur = v
            else:
                v = pb.fresh("u")
                pb.emit(ind2, f"{v} = arith.subi {cur}, %k : index")
                cur = v
        pb.emit(ind2, f'"test.op"({cur}) : (index) -> ()')
        if in_if:
            pb.emit(ind + 1, "}")
            cur_outer = None
        else:
            cur_outer = cur
            e2.append((cur, "index"))
        if depth < 1 and rng.random() < 0.35 and cur_outer:
            # inner loop: may start at the folded value (like the upstream test) or fold by outer-loop values
            floop(e2, ind + 1, depth + 1, [cur_outer] if rng.random() < 0.5 else [])
        if rng.random() < 0.4:
            pb.filler(e2, ind + 1, 1, depth=2)
        if nit:
            news = []
            for acc in accs:
                nv = pb.fresh("t")
                src = cur_outer or pb.pick(e2, "index", ind + 1)
                pb.emit(ind + 1, f"{nv} = arith.{rng.choice(['addi', 'xori'])} {acc}, {src} : index")
                news.append(nv)
            # (the induction variable itself is never yielded here: a second use would switch the folding off)
            ys = carried_yield(pb, rng, e2, ind + 1, accs, ["index"] * nit, news, None, "index", env)
            pb.emit(ind + 1, f"scf.yield {', '.join(ys)} : {', '.join(['index'] * nit)}")
        pb.emit(ind, "}")
        observe_results(pb, rng, ind, outs, ["index"] * nit)
        env.extend((o, "index") for o in outs)

    pb.filler(env, 1, rng.randint(0, 2))
    for _ in range(rng.randint(1, 2)):
        floop(env, 1, 0, [])
    pb.filler(env, 1, rng.randint(0, 1))
    text = pb.module(args, pb.choose_rets(env[len(args):] or env))
    return {"text": text, "args": args, "meta": {}}


# ------------------------------------------------------------------------------------------ flatten
def gen_flatten(rng):
    pb = PB(rng, floats=rng.random() < 0.2)
    args = [["%n", "index", "bound"], ["%lo", "index", "bound"], ["%x", "i32", "data"], ["%y", "index", "data"]]
    env = env_of(args)
    meta = {"nests": []}

    def body_effects(e, ind, vals):
        for _ in range(rng.randint(1, 2)):
            r = rng.random()
            if r < 0.6 and vals:
                pb.effect(e, ind, rng.choice(vals))
            elif r < 0.8:
                pb.effect(e, ind)
            else:
                pb.filler(e, ind, 1, depth=2)

    def nest(env, ind):
        used = rng.random() < 0.45
        sound = rng.random() < 0.6
        iters = rng.random() < 0.4
        triple = (not used) and rng.random() < 0.15
        mism = rng.random() < 0.12   # shape the pass must not match
        if used:
            ost = rng.choice([2, 3, 4, 4, 6, 8])
            ist = rng.choice([d for d in (1, 2, 3, 4) if ost % d == 0]) if rng.random() < 0.85 else rng.choice([3, 5])
            ilb, iub = 0, ost
            if rng.random() < 0.08:
                ilb, iub = rng.choice([(1, ost), (0, ost + 1), (0, ost - 1)])
            r = rng.random()
            if r < 0.5:   # constant outer range, multiple of the step when `sound`
                olbv = rng.choice([0, 0, 1, 3, -2])
                trips = rng.choice([0, 1, 2, 3])
                oubv = olbv + trips * ost + (0 if sound else rng.randint(1, ost - 1))
                olb, oub = pb.const(ind, olbv), pb.const(ind, oubv)
            else:
                olb = pb.const(ind, rng.choice([0, 0, 1, 2])) if rng.random() < 0.6 else "%lo"
                oub = "%n"
        else:
            ost = 1 if (sound or rng.random() < 0.5) else rng.choice([2, 3, 5])
            ist = rng.choice([1, 1, 2, 3])
            ilb = rng.choice([0, 0, 0, 1, 2])
            iub = ilb + ist * rng.choice([0, 1, 2, 3, 4]) if sound else ilb + rng.choice([-2, 1, 2, 3, 4, 5, 7])
            olb = pb.const(ind, 0) if rng.random() < 0.9 else rng.choice([pb.const(ind, 1), "%lo"])
            oub = "%n" if rng.random() < 0.6 else pb.const(ind, rng.choice([0, 1, 2, 3, 4, 5, -2]))
        c_ost, c_ilb, c_iub, c_ist = pb.const(ind, ost), pb.const(ind, ilb), pb.const(ind, iub), pb.const(ind, ist)
        if rng.random() < 0.06:
            c_ist = pb.pos_step(env, ind, "%lo")  # non-constant inner step: must not flatten
        meta["nests"].append({"used": used, "ost": ost, "ilb": ilb, "iub": iub, "ist": ist})
        oi, ii = pb.fresh("i"), pb.fresh("j")
        if iters:
            t = rng.choice(["index", "i32"])
            nc = rng.choice([1, 1, 2, 2, 3])
            tys = ", ".join([t] * nc)
            inits = [pb.pick(env, t, ind) for _ in range(nc)]
            oas, ias = [pb.fresh("a") for _ in range(nc)], [pb.fresh("b") for _ in range(nc)]
            orrs, irrs = [pb.fresh("r") for _ in range(nc)], [pb.fresh("q") for _ in range(nc)]
            pb.emit(ind, f"{', '.join(orrs)} = scf.for {oi} = {olb} to {oub} step {c_ost} iter_args("
                         f"{', '.join(f'{a} = {i}' for a, i in zip(oas, inits))}) -> ({tys}) {{")
            if mism and rng.random() < 0.5:
                pb.emit(ind + 1, f'"test.op"({oas[0]}) : ({t}) -> ()')
            pb.emit(ind + 1, f"{', '.join(irrs)} = scf.for {ii} = {c_ilb} to {c_iub} step {c_ist} iter_args("
                             f"{', '.join(f'{b} = {a}' for b, a in zip(ias, oas))}) -> ({tys}) {{")
            e2 = list(env) + [(b, t) for b in ias]
            ind3 = ind + 2
        else:
            pb.emit(ind, f"scf.for {oi} = {olb} to {oub} step {c_ost} {{")
            if mism and rng.random() < 0.5:
                pb.emit(ind + 1, f'"test.op"(%x) : (i32) -> ()')
            pb.emit(ind + 1, f"scf.for {ii} = {c_ilb} to {c_iub} step {c_ist} {{")
            e2 = list(env)
            ind3 = ind + 2
        vals = []
        if triple:
            ki = pb.fresh("l")
            tl, tu, ts = pb.const(ind3, 0), pb.const(ind3, rng.choice([2, 3, 4, 5])), pb.const(ind3, rng.choice([1, 2]))
            pb.emit(ind3, f"scf.for {ki} = {tl} to {tu} step {ts} {{")
            body_effects(list(e2), ind3 + 1, [("%x", "i32")])
            pb.emit(ind3, "}")
        elif used:
            s = pb.fresh("s")
            a, b = (oi, ii) if rng.random() < 0.6 else (ii, oi)
            opn = "addi" if not (mism and rng.random() < 0.5) else rng.choice(["muli", "subi"])
            pb.emit(ind3, f"{s} = arith.{opn} {a}, {b} : index")
            vals = [(s, "index")]
            e2.append((s, "index"))
            if mism and rng.random() < 0.5:
                pb.emit(ind3, f'"test.op"({rng.choice([oi, ii])}) : (index) -> ()')
            body_effects(e2, ind3, vals)
        else:
            if mism and rng.random() < 0.7:
                pb.emit(ind3, f'"test.op"({rng.choice([oi, ii])}) : (index) -> ()')
            body_effects(e2, ind3, [("%x", "i32"), ("%y", "index")])
        if iters:
            news = []
            for ia in ias:
                nv = pb.fresh("t")
                other = vals[0][0] if (vals and t == "index") else pb.pick(e2, t, ind3)
                pb.emit(ind3, f"{nv} = arith.{rng.choice(['addi', 'xori', 'muli'])} {ia}, {other} : {t}")
                news.append(nv)
            # permuted / rotated / duplicated / pass-through carried values (never an induction variable: its uses
            # decide whether the pass fires)
            ys = carried_yield(pb, rng, e2, ind3, ias, [t] * nc, news, None, "index", env)
            pb.emit(ind3, f"scf.yield {', '.join(ys)} : {tys}")
            pb.emit(ind + 1, "}")
            oy = list(irrs)
            if nc > 1 and rng.random() < 0.1:
                oy.reverse()   # outer yield does not forward in order: the pass must leave the nest alone
            pb.emit(ind + 1, f"scf.yield {', '.join(oy)} : {tys}")
            pb.emit(ind, "}")
            observe_results(pb, rng, ind, orrs, [t] * nc)
            env.extend((o, t) for o in orrs)
        else:
            pb.emit(ind + 1, "}")
            if mism and rng.random() < 0.3:
                pb.emit(ind + 1, f'"test.op"(%x) : (i32) -> ()')
            pb.emit(ind, "}")

    pb.filler(env, 1, rng.randint(0, 2))
    for _ in range(rng.randint(1, 2)):
        r = rng.random()
        if r < 0.15:
            c = pb.pick(env, "i1", 1)
            pb.emit(1, f"scf.if {c} {{")
            nest(list(env), 2)
            pb.emit(1, "}")
        elif r < 0.3:
            c0, c2, c1 = pb.const(1, 0), pb.const(1, rng.choice([1, 2, 3])), pb.const(1, 1)
            w = pb.fresh("w")
            pb.emit(1, f"scf.for {w} = {c0} to {c2} step {c1} {{")
            pb.emit(2, f'"test.op"({w}) : (index) -> ()')
            nest(list(env), 2)
            pb.emit(1, "}")
        else:
            nest(env, 1)
    pb.filler(env, 1, rng.randint(0, 1))
    text = pb.module(args, pb.choose_rets(env[len(args):] or env))
    return {"text": text, "args": args, "meta": meta}


# ------------------------------------------------------------------------------------------ licm / control-flow-hoist
PURE_BIN = ("addi", "subi", "muli", "xori", "andi", "ori", "maxsi", "minui", "shli", "shrui")
TRAP_BIN = ("divsi", "divui", "remsi", "remui", "floordivsi", "ceildivsi", "ceildivui")


def _pure_stmt(pb, rng, env, ind, pool, trap_p=0.25, divs=()):
    """One side-effect-free statement whose operands come from `pool` (typed values); returns (name, type).
    With probability trap_p a trapping division whose divisor is an argument (role div), a constant, or a
    value made non-zero."""
    ints = [(v, t) for v, t in pool if t in ("i32", "index", "i64")]
    a, t = rng.choice(ints)
    same = [v for v, tt in ints if tt == t]
    r = rng.random()
    v = pb.fresh("p")
    if r < trap_p:
        opn = rng.choice(TRAP_BIN)
        dv = [d for d, dt in divs if dt == t]
        rr = rng.random()
        if dv and rr < 0.6:
            b = rng.choice(dv)
        elif rr < 0.8:
            b = pb.const(ind, rng.choice([1, 2, 3, -1, 0, 5]), t)
        else:
            b = rng.choice(same)
        pb.emit(ind, f"{v} = arith.{opn} {a}, {b} : {t}")
    elif r < 0.75:
        b = rng.choice(same) if rng.random() < 0.7 else pb.const(ind, rng.choice([0, 1, 2, 3, 7, -1]), t)
        pb.emit(ind, f"{v} = arith.{rng.choice(PURE_BIN)} {a}, {b} : {t}")
    elif r < 0.85:
        b = rng.choice(same)
        pb.emit(ind, f"{v} = arith.cmpi {rng.choice(genprog.PRED)}, {a}, {b} : {t}")
        t = "i1"
    elif r < 0.93:
        pb.emit(ind, f'{v} = "test.pureop"({a}) : ({t}) -> {t}')
    else:
        if t == "i32":
            pb.emit(ind, f"{v} = arith.index_cast {a} : i32 to index")
            t = "index"
        elif t == "index":
            pb.emit(ind, f"{v} = arith.index_cast {a} : index to i32")
            t = "i32"
        else:
            pb.emit(ind, f"{v} = arith.trunci {a} : i64 to i32")
            t = "i32"
    return v, t


def gen_licm(rng):
    pb = PB(rng, floats=False)
    args = [["%n", "index", "bound"], ["%a", "i32", "data"], ["%d", "i32", "div"], ["%e", "index", "div"],
            ["%x", "i64", "data"], ["%g", "i64", "div"], ["%m", "memref<8xi32>", "mem"]]
    env = [(a, t) for a, t, _ in args if not t.startswith("memref")]
    divs = [("%d", "i32"), ("%e", "index"), ("%g", "i64")]

    def loop(env, ind, depth):
        r = rng.random()
        lb = pb.const(ind, rng.choice([0, 0, 1, 2]))
        ub = "%n" if r < 0.55 else pb.const(ind, rng.choice([0, 0, 1, 3, 4, -1])) if r < 0.9 else pb.masked(ind, "%n", 3)
        st = pb.const(ind, rng.choice([1, 1, 2]))
        types = carried_types(rng)
        nit = len(types)
        inits = [pb.pick(env, t, ind) for t in types]
        iv = pb.fresh("i")
        accs = [pb.fresh("a") for _ in range(nit)]
        outs = [pb.fresh("r") for _ in range(nit)]
        if nit:
            ia = ", ".join(f"{a} = {i}" for a, i in zip(accs, inits))
            pb.emit(ind, f"{', '.join(outs)} = scf.for {iv} = {lb} to {ub} step {st} iter_args({ia}) -> ({', '.join(types)}) {{")
        else:
            pb.emit(ind, f"scf.for {iv} = {lb} to {ub} step {st} {{")
        outer = [(v, t) for v, t in env]
        inv = list(outer)              # values invariant w.r.t. this loop
        var = [(iv, "index")] + list(zip(accs, types))
        e2 = list(env) + var
        for _ in range(rng.randint(2, 6)):
            r = rng.random()
            if r < 0.45:      # invariant op (possibly chained on a previous invariant)
                v, t = _pure_stmt(pb, rng, e2, ind + 1, inv, trap_p=0.3, divs=divs)
                inv.append((v, t)); e2.append((v, t))
            elif r < 0.6:     # variant op
                v, t = _pure_stmt(pb, rng, e2, ind + 1, var + inv[-2:], trap_p=0.1, divs=divs)
                e2.append((v, t)); var.append((v, t))
            elif r < 0.7:     # invariant guarded region
                c = [v for v, t in inv if t == "i1"]
                if not c:
                    z = pb.const(ind + 1, 0, "i32")
                    cv = pb.fresh("p")
                    pb.emit(ind + 1, f"{cv} = arith.cmpi ne, %d, {z} : i32")
                    inv.append((cv, "i1")); e2.append((cv, "i1"))
                    c = [cv]
                o = pb.fresh("g")
                pb.emit(ind + 1, f"{o} = scf.if {rng.choice(c)} -> (i32) {{")
                e3 = list(e2)
                v, t = _pure_stmt(pb, rng, e3, ind + 2, [(x, tt) for x, tt in inv if tt == "i32"] or [("%a", "i32")],
                                  trap_p=0.6, divs=divs)
                if rng.random() < 0.2:
                    pb.effect(e3, ind + 2)
                y = v if t == "i32" else "%a"
                pb.emit(ind + 2, f"scf.yield {y} : i32")
                pb.emit(ind + 1, "} else {")
                pb.emit(ind + 2, "scf.yield %a : i32")
                pb.emit(ind + 1, "}")
                inv.append((o, "i32")); e2.append((o, "i32"))
            elif r < 0.78:    # memory traffic: load (invariant address!) and store
                k = pb.const(ind + 1, rng.randrange(8))
                if rng.random() < 0.5:
                    v = pb.fresh("l")
                    pb.emit(ind + 1, f"{v} = memref.load %m[{k}] : memref<8xi32>")
                    e2.append((v, "i32")); var.append((v, "i32"))
                else:
                    c7 = pb.const(ind + 1, 7)
                    ix = pb.fresh("x")
                    pb.emit(ind + 1, f"{ix} = arith.andi {iv}, {c7} : index")
                    val = pb.pick(e2, "i32", ind + 1)
                    pb.emit(ind + 1, f"memref.store {val}, %m[{ix if rng.random() < 0.6 else k}] : memref<8xi32>")
            elif r < 0.9:
                pb.effect(e2, ind + 1, rng.choice([x for x in e2 if x[1] in W]))
            elif depth < 1:
                loop(e2, ind + 1, depth + 1)
            else:
                pb.filler(e2, ind + 1, 1, depth=2)
        if nit:
            ys = []
            for a, t in zip(accs, types):
                c = [v for v, tt in e2 if tt == t and v != a]
                nv = pb.fresh("t")
                pb.emit(ind + 1, f"{nv} = arith.{rng.choice(['addi', 'xori'])} {a}, {rng.choice(c) if c else a} : {t}")
                ys.append(nv)
            # invariant values (hoisted by the pass) may be yielded too
            ys = carried_yield(pb, rng, e2, ind + 1, accs, types, ys, iv, "index", inv)
            pb.emit(ind + 1, f"scf.yield {', '.join(ys)} : {', '.join(types)}")
        else:
            pb.effect(e2, ind + 1, rng.choice([x for x in e2 if x[1] in W]))
        pb.emit(ind, "}")
        observe_results(pb, rng, ind, outs, types)
        env.extend(zip(outs, types))

    pb.filler(env, 1, rng.randint(0, 2))
    for _ in range(rng.randint(1, 2)):
        if rng.random() < 0.15:
            z = pb.const(1, 0)
            c = pb.fresh("p")
            pb.emit(1, f"{c} = arith.cmpi sgt, %n, {z} : index")
            pb.emit(1, f"scf.if {c} {{")
            loop(list(env), 2, 0)
            pb.emit(1, "}")
        else:
            loop(env, 1, 0)
    text = pb.module(args, pb.choose_rets(env[6:] or env))
    return {"text": text, "args": args, "meta": {}}


def gen_hoist(rng):
    pb = PB(rng, floats=False)
    args = [["%n", "index", "sidx"], ["%a", "i32", "data"], ["%b", "i32", "data"], ["%d", "i32", "div"],
            ["%e", "index", "div"], ["%c", "i1", "data"]]
    env = env_of(args)
    divs = [("%d", "i32"), ("%e", "index")]

    def cond(env, ind):
        r = rng.random()
        if r < 0.3:
            return "%c"
        v = pb.fresh("p")
        if r < 0.6:
            z = pb.const(ind, 0, "i32")
            pb.emit(ind, f"{v} = arith.cmpi {rng.choice(['ne', 'sgt', 'eq'])}, %d, {z} : i32")
        elif r < 0.8:
            z = pb.const(ind, 0)
            pb.emit(ind, f"{v} = arith.cmpi {rng.choice(['ne', 'sgt'])}, %e, {z} : index")
        else:
            pb.emit(ind, f"{v} = arith.cmpi {rng.choice(genprog.PRED)}, %a, %b : i32")
        return v

    def branch(env, ind, depth, t, pure, shared):
        e2 = list(env)
        local = list(env)
        for s in shared:   # identical expression in both branches (CSE after hoisting)
            v = pb.fresh("p")
            pb.emit(ind, f"{v} = arith.{s[0]} {s[1]}, {s[2]} : {s[3]}")
            e2.append((v, s[3])); local.append((v, s[3]))
        for _ in range(rng.randint(0, 3)):
            r = rng.random()
            if r < 0.75 or depth >= 2:
                v, tt = _pure_stmt(pb, rng, e2, ind, local, trap_p=0.3, divs=divs)
                e2.append((v, tt)); local.append((v, tt))
            elif r < 0.9:
                if_(e2, ind, depth + 1, pure)
                local = list(e2)
            elif not pure:
                pb.effect(e2, ind)
        if not pure and rng.random() < 0.7:
            pb.effect(e2, ind)
        if t:
            c = [v for v, tt in e2 if tt == t]
            return rng.choice(c[-3:]) if c else pb.pick(e2, t, ind)
        return None

    def if_(env, ind, depth, pure_parent=True):
        pure = rng.random() < 0.8 if pure_parent else False
        t = rng.choice(["i32", "i32", "index", None])
        has_else = t is not None or rng.random() < 0.5
        shared = []
        if has_else and rng.random() < 0.3:
            shared = [(rng.choice(["addi", "muli", "xori"]), "%a", "%b", "i32")]
        affine = rng.random() < 0.2
        out = pb.fresh("h")
        if affine:
            cs = rng.choice(["(d0) : (d0 - 2 >= 0)", "(d0) : (d0 == 0)", "(d0)[s0] : (d0 + s0 - 3 >= 0, d0 >= 0)",
                             "(d0) : (-d0 + 4 >= 0)", "(d0)[s0] : (d0 - s0 == 0)"])
            nops = 2 if "s0" in cs else 1
            ops = ", ".join(["%n", "%e"][:nops])
            head = f"{out} = " if t else ""
            pb.emit(ind, f'{head}"affine.if"({ops}) <{{condition = affine_set<{cs}>}}> ({{')
            y = branch(env, ind + 1, depth, t, pure, shared)
            pb.emit(ind + 1, f'"affine.yield"({y}) : ({t}) -> ()' if t else '"affine.yield"() : () -> ()')
            pb.emit(ind, "}, {")
            if has_else:
                y = branch(env, ind + 1, depth, t, pure, shared)
                pb.emit(ind + 1, f'"affine.yield"({y}) : ({t}) -> ()' if t else '"affine.yield"() : () -> ()')
            pb.emit(ind, f'}}) : ({", ".join(["index"] * nops)}) -> {t if t else "()"}')
        else:
            c = cond(env, ind)
            pb.emit(ind, f"{out} = scf.if {c} -> ({t}) {{" if t else f"scf.if {c} {{")
            y = branch(env, ind + 1, depth, t, pure, shared)
            if t:
                pb.emit(ind + 1, f"scf.yield {y} : {t}")
            if has_else:
                pb.emit(ind, "} else {")
                y = branch(env, ind + 1, depth, t, pure, shared)
                if t:
                    pb.emit(ind + 1, f"scf.yield {y} : {t}")
            pb.emit(ind, "}")
        if t:
            env.append((out, t))

    pb.filler(env, 1, rng.randint(0, 2))
    for _ in range(rng.randint(1, 3)):
        if rng.random() < 0.15:
            c0, c2, c1 = pb.const(1, 0), pb.const(1, rng.choice([0, 1, 3])), pb.const(1, 1)
            w = pb.fresh("w")
            pb.emit(1, f"scf.for {w} = {c0} to {c2} step {c1} {{")
            e2 = list(env) + [(w, "index")]
            if_(e2, 2, 1)
            pb.effect(e2, 2)
            pb.emit(1, "}")
        else:
            if_(env, 1, 0)
    pb.filler(env, 1, rng.randint(0, 1))
    text = pb.module(args, pb.choose_rets(env[len(args):] or env))
    return {"text": text, "args": args, "meta": {}}


# ------------------------------------------------------------------------------------------ frontend-desymrefy
def gen_desymrefy(rng):
    pb = PB(rng, floats=False, ext=False)  # a declaration has an empty region, which the pass refuses
    args = [["%n", "index", "bound"], ["%x", "i32", "data"], ["%y", "i32", "data"], ["%c", "i1", "data"]]
    env = env_of(args)
    st = {"sym": 0, "nested": False}

    ext_syms = [(f"g{k}", rng.choice(["i32", "index"])) for k in range(rng.choice([0, 0, 1, 1, 2]))]

    def ext_block(env, ind):
        """read-write-read(-write) interleavings on ONE symbol that no block of the module declares (it belongs to
        an enclosing scope): every later read must see the closest preceding write; all reads are observable."""
        name, t = rng.choice(ext_syms)
        for k in range(rng.randint(3, 6)):
            if k % 2 == 0 or rng.random() < 0.3:
                v = pb.fresh("f")
                pb.emit(ind, f"{v} = symref.fetch @{name} : {t}")
                env.append((v, t))
                pb.emit(ind, f'"test.op"({v}) : ({t}) -> ()')
            else:
                c = pb.const(ind, rng.randint(1, 99), t)
                nv = pb.fresh("t")
                src = [x for x, tt in env if tt == t]
                pb.emit(ind, f"{nv} = arith.addi {rng.choice(src)}, {c} : {t}")
                env.append((nv, t))
                pb.emit(ind, f"symref.update @{name} = {nv} : {t}")
            if rng.random() < 0.3:
                pb.filler(env, ind, 1, depth=2)

    def block(env, ind, depth, outer_syms):
        """straight-line symref code; `outer_syms` = symbols declared in enclosing blocks (using them here is the
        nested-use shape the pass does not promote)."""
        if ext_syms and rng.random() < (0.8 if depth == 0 else 0.5):
            ext_block(env, ind)
        syms = []
        for _ in range(rng.randint(1, 3) if depth == 0 else rng.randint(0, 2)):
            st["sym"] += 1
            name, t = f"s{st['sym']}", rng.choice(["i32", "i32", "index"])
            pb.emit(ind, f'symref.declare "{name}"')
            pb.emit(ind, f"symref.update @{name} = {pb.pick(env, t, ind)} : {t}")
            syms.append((name, t))
        for _ in range(rng.randint(2, 7)):
            r = rng.random()
            pool = syms if (not outer_syms or rng.random() < 0.5) else outer_syms
            if r < 0.3 and pool:
                name, t = rng.choice(pool)
                if pool is outer_syms:
                    st["nested"] = True
                v = pb.fresh("f")
                pb.emit(ind, f"{v} = symref.fetch @{name} : {t}")
                env.append((v, t))
            elif r < 0.55 and pool:
                name, t = rng.choice(pool)
                if pool is outer_syms:
                    st["nested"] = True
                pb.emit(ind, f"symref.update @{name} = {pb.pick(env, t, ind)} : {t}")
            elif r < 0.7:
                pb.filler(env, ind, 1, depth=2)
            elif r < 0.8:
                pb.effect(env, ind)
            elif depth < 2:
                nested_ok = rng.random() < 0.15
                osy = (outer_syms + syms) if nested_ok else []
                if rng.random() < 0.5:
                    c0, c2, c1 = pb.const(ind, 0), "%n" if rng.random() < 0.5 else pb.const(ind, rng.choice([0, 2, 3])), pb.const(ind, 1)
                    w = pb.fresh("w")
                    pb.emit(ind, f"scf.for {w} = {c0} to {c2} step {c1} {{")
                    e2 = list(env) + [(w, "index")]
                    block(e2, ind + 1, depth + 1, osy)
                    pb.effect(e2, ind + 1)
                    pb.emit(ind, "}")
                else:
                    pb.emit(ind, f"scf.if {pb.pick(env, 'i1', ind)} {{")
                    e2 = list(env)
                    block(e2, ind + 1, depth + 1, osy)
                    pb.effect(e2, ind + 1)
                    pb.emit(ind, "} else {")   # an absent else region (0 blocks) is refused by the pass
                    pb.effect(list(env), ind + 1)
                    pb.emit(ind, "}")
        # make the final state of the local symbols observable
        for name, t in syms:
            if rng.random() < 0.7:
                v = pb.fresh("f")
                pb.emit(ind, f"{v} = symref.fetch @{name} : {t}")
                env.append((v, t))
                if rng.random() < 0.5:
                    pb.emit(ind, f'"test.op"({v}) : ({t}) -> ()')

    block(env, 1, 0, [])
    text = pb.module(args, pb.choose_rets(env[len(args):] or env))
    return {"text": text, "args": args, "meta": {"nested_use": st["nested"]}}
