"""C10 - IRDL operation verification matches the operation definition.

Reference-model differential monitor.  Three workloads, one oracle (xv/c10_ref.py, pure python):

* gen  : operation classes are generated at run time (type(...) + irdl_op_definition) from JSON specs mixing
         single/optional/variadic operands, results, regions, successors, the segment options (SameVariadic*Size,
         AttrSized*Segments as attribute or as property), properties/attributes (required, optional, defaults,
         renamed) and shared attribute / range / int variables.  Per definition: instances through the generated
         constructor (__init__ / build) from admissible and inadmissible arguments, raw Operation.create instances
         (valid ones and perturbed ones: list lengths, segment vectors, element types, variables, regions,
         properties).  verify_() verdict == ref_verify verdict; accessors of accepted ops == reference segments.
* reg  : every operation class of every registered dialect: raw instances whose list lengths / segment vectors are
         admissible (accessors vs reference segments) or inadmissible (the definition's verifier must not accept).
* corpus : every IRDL operation of every verified corpus module: its lists must segment by the reference and the
         accessors must return those segments.
"""
from __future__ import annotations

import copy
import json
import random
import struct

from xv import c10_ref as R
from xv.harness import shash

ID = "C10"
LEVEL = "exploration"
RULE = ("gen: a case is (generated IRDL definition, instance) where the instance is built by the generated constructor "
        "or raw via Operation.create (valid or perturbed: list lengths, segment-size vectors, element types, shared "
        "variables, regions, properties/attributes); non-trivial iff the definition has >= 2 variadic/optional entries "
        "in one of its lists or a variable shared by >= 2 places; distinct = distinct (definition spec, flat instance) "
        "pairs by structural hash.  reg/corpus cases (registered op class x size vector, corpus op) are counted in "
        "evaluations only")
LEVEL_TEXT = ("Every generated definition/instance pair is decided by an independent reference (segmenter + constraint "
              "evaluator over symbolic values) and compared with the real verify_() verdict; every accessor of every "
              "accepted generated op, of every admissibly sized instance of every registered op class and of every op "
              "of the verified corpus is compared element-by-identity with the reference segments; held = no "
              "disagreement on the cases explored.")
LEVEL_NOTE = ("trusts xv/c10_ref.py (ref_segment / ref_verify, ~250 lines, no xDSL imports), the hand-written pool tag "
              "table (asserted against python isinstance at start-up), python slicing and CPython")
TECHNIQUE = "reference-model differential monitor (verdict and accessor comparison per generated / registered / corpus op)"
ENGINES = ["harness", "corpus", "models"]
ASSUMPTIONS = [
    "reference segmenter and constraint evaluator (xv/c10_ref.py) implement the property statement",
    "constraint vocabulary of generated definitions: Any, base class, equality, disjoint unions of those, shared "
    "VarConstraint / RangeVarConstraint / IntVarConstraint, range length constraints; richer constraints are C09's",
    "a definition carrying both SameVariadic*Size and AttrSized*Segments for one list is outside the property (never generated; skipped for registered ops)",
    "entry-argument constraints of a region are only meaningful when the region has a block",
    "registered-dialect and corpus ops: only segmentation and accessors are judged (their constraints are arbitrary)",
]
JOB_TIMEOUT = {"quick": 600, "thorough": 3600}

KNOWN_SUM = "attr-sized-segments:sizes-not-summing-accepted"
KNOWN_NEG = "attr-sized-segments:negative-size-accepted"
KNOWN_ZDIV = "same-size-option-without-variadic:ZeroDivisionError"

CONSTRUCTS = R.CONSTRUCTS
SEG_ATTR = R.SEG_ATTR

# ------------------------------------------------------------------ real objects for symbolic values
_real_cache: dict = {}
_X: dict = {}


def X():
    """Lazy import of everything needed from xDSL (workers only)."""
    if _X:
        return _X
    import xdsl.dialects.builtin as b
    import xdsl.irdl as irdl
    import xdsl.irdl.operations as ops
    from xdsl.ir import Attribute, Block, Region, TypeAttribute
    from xdsl.utils.exceptions import PyRDLError, PyRDLOpDefinitionError, VerifyException
    _X.update(b=b, irdl=irdl, ops=ops, Attribute=Attribute, Block=Block, Region=Region, TypeAttribute=TypeAttribute,
              PyRDLError=PyRDLError, PyRDLOpDefinitionError=PyRDLOpDefinitionError, VerifyException=VerifyException)
    return _X


def _elt(name):
    b = X()["b"]
    return {"i32": lambda: b.i32, "i64": lambda: b.i64, "i16": lambda: b.IntegerType(16),
            "si32": lambda: b.IntegerType(32, b.Signedness.SIGNED)}[name]()


def real(v):
    k = R.vkey(v)
    if k in _real_cache:
        return _real_cache[k]
    b = X()["b"]
    if isinstance(v, str):
        mk = {
            "i1": lambda: b.i1, "i32": lambda: b.i32, "i64": lambda: b.i64,
            "si32": lambda: b.IntegerType(32, b.Signedness.SIGNED), "index": lambda: b.IndexType(),
            "f32": lambda: b.f32, "f64": lambda: b.f64, "t2xi32": lambda: b.TensorType(b.i32, [2]),
            "int5": lambda: b.IntegerAttr(5, b.i32), "int7": lambda: b.IntegerAttr(7, b.i64),
            "str_a": lambda: b.StringAttr("a"), "str_b": lambda: b.StringAttr("b"), "unit": lambda: b.UnitAttr(),
            "arr": lambda: b.ArrayAttr([b.i32, b.StringAttr("a")]),
        }[v]
        r = mk()
    else:
        r = b.DenseArrayBase.from_list(_elt(v[1]), list(v[2]))
    _real_cache[k] = r
    return r


def real_base(name):
    x = X()
    if name == "Attribute":
        return x["Attribute"]
    if name == "TypeAttribute":
        return x["TypeAttribute"]
    return getattr(x["b"], name)


def pool_sanity():
    """The hand-written tag table must agree with python's class hierarchy; distinct names are distinct objects."""
    names = list(R.POOL_TAGS)
    for n in names:
        for base in R.BASES:
            assert isinstance(real(n), real_base(base)) == (base in R.POOL_TAGS[n]), (n, base)
    d = real(["dense", "i32", [1, 2]])
    for base in R.BASES:
        assert isinstance(d, real_base(base)) == (base in R.DENSE_TAGS), base
    keys = {repr(real(n)) for n in names}
    assert len(keys) == len(names)


def decode_real_sizes(attr):
    """Independent decoding of a segment-size attribute (no get_values): list of ints or a reason string."""
    if attr is None:
        return "missing"
    if type(attr).__name__ != "DenseArrayBase":
        return "not-dense"
    elt, data = attr.parameters
    if type(elt).__name__ != "IntegerType":
        return "elt:" + type(elt).__name__
    width, sign = elt.parameters
    if width.data != 32 or sign.data.name != "SIGNLESS":
        return f"elt:{sign.data.name}{width.data}"
    raw = data.data
    if len(raw) % 4:
        return "not-dense"
    return list(struct.unpack("<%di" % (len(raw) // 4), raw))


# ------------------------------------------------------------------ constraint construction (generator side)
def build_int(tree, rng):
    c = X()["irdl"]
    t = tree[0]
    if t == "iany":
        return c.AnyInt()
    if t == "ieq":
        return tree[1] if rng.random() < .5 else c.EqIntConstraint(tree[1])
    if t == "ige":
        return c.AtLeast(tree[1])
    if t == "ile":
        return c.AtMost(tree[1])
    if t == "ivar":
        return c.IntVarConstraint(tree[1], c.AnyInt())
    raise ValueError(tree)


def build_elem(tree, spec, rng, explicit=False):
    """explicit=True always returns an AttrConstraint object (needed inside other constraints)."""
    c = X()["irdl"]
    t = tree[0]
    r = rng.random()
    if t == "any":
        if explicit or r < .5:
            return c.AnyAttr()
        return X()["Attribute"]
    if t == "base":
        cls = real_base(tree[1])
        if tree[1] == "Attribute":
            return c.AnyAttr() if explicit else cls
        if explicit or r < .4:
            return c.BaseAttr(cls)
        return cls if r < .8 else c.base(cls)
    if t == "eq":
        a = real(tree[1])
        if explicit or r < .4:
            return c.EqAttrConstraint(a)
        return a if r < .8 else c.eq(a)
    if t == "anyof":
        kids = [build_elem(k, spec, rng, explicit=True) for k in tree[1]]
        if r < .5:
            return c.AnyOf.get(*kids)
        out = kids[0]
        for k in kids[1:]:
            out = out | k
        return out
    if t == "var":
        inner = build_elem(spec["vars"][tree[1]], spec, rng, explicit=True)
        return c.VarConstraint(tree[1], inner) if r < .5 else c.VarConstraint.get(tree[1], inner)
    raise ValueError(tree)


def build_range(tree, spec, rng):
    c = X()["irdl"]
    t = tree[0]
    if t == "rangeof":
        if rng.random() < .5:
            return build_elem(tree[1], spec, rng)          # coerced by var_*_def
        return c.RangeOf(build_elem(tree[1], spec, rng, explicit=True))
    if t == "rangevar":
        return c.RangeVarConstraint(tree[1], c.RangeOf(build_elem(spec["rvars"][tree[1]], spec, rng, explicit=True)))
    if t == "rangelen":
        inner = c.RangeOf(build_elem(tree[1][1], spec, rng, explicit=True))
        i = build_int(tree[2], rng)
        if rng.random() < .5 or isinstance(i, int):
            return inner.of_length(i)
        return c.RangeLengthConstraint(inner, i)
    raise ValueError(tree)


# ------------------------------------------------------------------ definition generator
CONCRETE = {"IntegerType": ["i1", "i32", "i64", "si32"], "IndexType": ["index"], "Float32Type": ["f32"],
            "Float64Type": ["f64"], "TensorType": ["t2xi32"], "IntegerAttr": ["int5", "int7"],
            "StringAttr": ["str_a", "str_b"], "UnitAttr": ["unit"]}
TYPE_BASES = ["IntegerType", "IndexType", "Float32Type", "Float64Type", "_FloatType", "FixedBitwidthType",
              "TensorType", "TypeAttribute"]
ATTR_BASES = ["IntegerAttr", "StringAttr", "UnitAttr", "ArrayAttr", "Attribute", "TypeAttribute", "IntegerType"]
KIND_W = ["single"] * 9 + ["opt"] * 5 + ["var"] * 6


def gen_elem(rng, vars_, types=True, allow_var=True):
    r = rng.random()
    if vars_ and allow_var and r < .3:
        return ["var", rng.choice(vars_)]
    if r < .45:
        return ["any"]
    if r < .72:
        return ["base", rng.choice(TYPE_BASES if types else ATTR_BASES)]
    if r < .88:
        return ["eq", rng.choice(R.TYPE_NAMES if types or rng.random() < .3 else R.ATTR_NAMES)]
    classes = rng.sample(sorted(CONCRETE) if not types else ["IntegerType", "IndexType", "Float32Type", "Float64Type",
                                                               "TensorType", "StringAttr"], rng.choice([2, 2, 3]))
    return ["anyof", [["base", k] if rng.random() < .6 else ["eq", rng.choice(CONCRETE[k])] for k in classes]]


def gen_int(rng, ivars, kind):
    r = rng.random()
    if ivars and r < .6:
        return ["ivar", rng.choice(ivars)]
    if r < .6:
        return ["ieq", rng.choice([0, 1] if kind == "opt" else [0, 1, 2, 2, 3])]
    if r < .8:
        return ["ige", rng.choice([0, 1] if kind == "opt" else [0, 1, 2])]
    return ["ile", rng.choice([0, 1, 2, 3])]


def gen_range(rng, vars_, rvars, ivars, kind, plain=.6):
    r = rng.random()
    if rvars or ivars:
        plain -= .15
    if r < plain:
        return ["rangeof", gen_elem(rng, vars_)]
    if rvars and r < plain + .18:
        return ["rangevar", rng.choice(rvars)]
    if r < plain + .36:
        return ["rangelen", ["rangeof", gen_elem(rng, vars_)], gen_int(rng, ivars, kind)]
    return ["rangeof", gen_elem(rng, vars_)]


def gen_mode(rng, kinds):
    nvar = sum(1 for k in kinds if k != "single")
    r = rng.random()
    if nvar >= 2:
        return "same" if r < .34 else "attr" if r < .64 else "prop" if r < .95 else "none"
    if r < .68:
        return "none"
    m = "same" if r < .8 else "attr" if r < .9 else "prop"
    if m == "same" and nvar == 0 and rng.random() < .7:
        return "none"
    return m


def gen_spec(rng, idx):
    vars_ = [f"T{i}" for i in range(rng.choice([0, 1, 1, 2]))]
    rvars = [f"R{i}" for i in range(rng.choice([0, 1, 1]))]
    ivars = [f"N{i}" for i in range(rng.choice([0, 1, 1]))]
    spec = {"name": f"c10.op{idx}", "vars": {}, "rvars": {}}
    for v in vars_:
        spec["vars"][v] = gen_elem(rng, [], allow_var=False) if rng.random() < .6 else ["any"]
    for v in rvars:
        spec["rvars"][v] = gen_elem(rng, vars_)
    counts = {"operand": [0, 1, 2, 2, 3, 3, 4, 5], "result": [0, 1, 1, 2, 3, 4], "region": [0, 0, 0, 1, 2, 3],
              "successor": [0, 0, 0, 1, 2, 3]}
    for c in CONSTRUCTS:
        kinds = [rng.choice(KIND_W) for _ in range(rng.choice(counts[c]))]
        defs = []
        for i, k in enumerate(kinds):
            name = f"{c[0] if c != 'region' else 'g'}{i}"
            if c in ("operand", "result"):
                tree = gen_elem(rng, vars_) if k == "single" else gen_range(rng, vars_, rvars, ivars, k)
                defs.append([name, k, tree])
            elif c == "region":
                defs.append([name, k, rng.random() < .35, gen_range(rng, vars_, rvars, ivars, "var", plain=.8)
                             if rng.random() < .5 else ["rangeof", ["any"]]])
            else:
                defs.append([name, k])
        spec[c] = {"mode": gen_mode(rng, kinds), "defs": defs}
    # make declared range / int variables really shared (>= 2 occurrences) most of the time
    slots = [(c, i) for c in ("operand", "result") for i, x in enumerate(spec[c]["defs"]) if x[1] == "var"] + \
            [("region", i) for i, x in enumerate(spec["region"]["defs"])]
    for names, mk in ((ivars, lambda n, old: ["rangelen", ["rangeof", _elem_tree(old) or ["any"]], ["ivar", n]]),
                      (rvars, lambda n, old: ["rangevar", n])):
        for n in names:
            if rng.random() < .75 and len(slots) >= 2:
                for c, i in rng.sample(slots, 2):
                    x = spec[c]["defs"][i]
                    k = 3 if c == "region" else 2
                    x[k] = mk(n, x[k])
    for which, pre in (("props", "p"), ("attrs", "a")):
        out = []
        for i in range(rng.choice([0, 1, 1, 2, 3])):
            py = f"{pre}{i}"
            ir = py if rng.random() < .75 else f"{py}.ir"
            kind = "req" if rng.random() < .6 else "opt"
            tree = gen_elem(rng, vars_, types=rng.random() < .35)
            default = None
            if rng.random() < .35 and tree[0] != "var":
                cs = [n for n in R.POOL_TAGS if R.eval_elem(tree, n, {}, spec)]
                if cs:
                    default = rng.choice(cs)
            out.append([py, ir, kind, tree, default])
        spec[which] = out
    if rng.random() < .25:
        spec["inherit"] = {c: rng.randint(0, len(spec[c]["defs"])) for c in CONSTRUCTS}
        spec["inherit"]["fields"] = [x[0] for which in ("props", "attrs") for x in spec[which] if rng.random() < .5]
        spec["inherit"]["options_in_parent"] = rng.random() < .3
    return spec


def nontrivial_def(spec):
    multi = any(sum(1 for x in spec[c]["defs"] if x[1] != "single") >= 2 for c in CONSTRUCTS)
    return multi or bool(R.shared_vars(spec))


OPTION_CLS = {"operand": ("SameVariadicOperandSize", "AttrSizedOperandSegments"),
              "result": ("SameVariadicResultSize", "AttrSizedResultSegments"),
              "region": ("SameVariadicRegionSize", "AttrSizedRegionSegments"),
              "successor": ("SameVariadicSuccessorSize", "AttrSizedSuccessorSegments")}


def build_class(spec, rng):
    """The real class for a spec (may raise PyRDLOpDefinitionError / PyRDLError)."""
    o = X()["ops"]
    fields = {c: [] for c in CONSTRUCTS}
    for name, kind, tree in spec["operand"]["defs"]:
        f = {"single": o.operand_def, "opt": o.opt_operand_def, "var": o.var_operand_def}[kind]
        fields["operand"].append((name, f(build_elem(tree, spec, rng) if kind == "single" else build_range(tree, spec, rng))))
    for name, kind, tree in spec["result"]["defs"]:
        f = {"single": o.result_def, "opt": o.opt_result_def, "var": o.var_result_def}[kind]
        fields["result"].append((name, f(build_elem(tree, spec, rng) if kind == "single" else build_range(tree, spec, rng))))
    for name, kind, single_block, tree in spec["region"]["defs"]:
        f = {"single": o.region_def, "opt": o.opt_region_def, "var": o.var_region_def}[kind]
        kw = {}
        if tree != ["rangeof", ["any"]] or rng.random() < .3:
            kw["entry_args"] = build_range(tree, spec, rng)
        fields["region"].append((name, f("single_block", **kw) if single_block else f(**kw)))
    for name, kind in spec["successor"]["defs"]:
        f = {"single": o.successor_def, "opt": o.opt_successor_def, "var": o.var_successor_def}[kind]
        fields["successor"].append((name, f()))
    pa = []
    for which in ("props", "attrs"):
        for py, ir, kind, tree, default in spec[which]:
            f = {("props", "req"): o.prop_def, ("props", "opt"): o.opt_prop_def,
                 ("attrs", "req"): o.attr_def, ("attrs", "opt"): o.opt_attr_def}[(which, kind)]
            kw = {}
            if default is not None:
                kw["default_value"] = real(default)
            if ir != py:
                kw["prop_name" if which == "props" else "attr_name"] = ir
            pa.append((py, f(build_elem(tree, spec, rng), **kw)))
    options = []
    for c in CONSTRUCTS:
        m = spec[c]["mode"]
        same, attr = OPTION_CLS[c]
        if m == "same":
            options.append(getattr(o, same)())
        elif m == "attr":
            options.append(getattr(o, attr)() if rng.random() < .5 else getattr(o, attr)(as_property=False))
        elif m == "prop":
            options.append(getattr(o, attr)(as_property=True))
    rng.shuffle(options)
    # interleave the field groups, keeping the relative order inside each list
    groups = [list(v) for v in fields.values() if v] + ([pa] if pa else [])
    merged = []
    while groups:
        g = rng.choice(groups)
        merged.append(g.pop(0))
        if not g:
            groups.remove(g)
    d = {"name": spec["name"]}
    pos = rng.randrange(len(merged) + 1)
    for i, (k, v) in enumerate(merged):
        if i == pos and options:
            d["irdl_options"] = tuple(options)
        d[k] = v
    if options and "irdl_options" not in d:
        d["irdl_options"] = tuple(options)
    parent = o.IRDLOperation
    if spec.get("inherit"):
        # a tail of every list (and some properties/attributes) is declared in an undecorated parent class;
        # from_pyrdl walks the MRO subclass-first, so the declaration order of the spec is preserved
        in_parent = set()
        for c in CONSTRUCTS:
            names = [x[0] for x in spec[c]["defs"]]
            in_parent.update(names[spec["inherit"][c]:])
        in_parent.update(x[0] for which in ("props", "attrs") for x in spec[which] if x[0] in spec["inherit"]["fields"])
        pd = {k: v for k, v in d.items() if k in in_parent}
        if spec["inherit"]["options_in_parent"] and "irdl_options" in d:
            pd["irdl_options"] = d.pop("irdl_options")
        d = {k: v for k, v in d.items() if k not in in_parent}
        parent = type("C10Base_" + spec["name"].split(".")[1], (o.IRDLOperation,), pd)
    cls = type("C10Op_" + spec["name"].split(".")[1], (parent,), d)
    return o.irdl_op_definition(cls)


# ------------------------------------------------------------------ instance generator
def _cands(tree, spec, env, names):
    return [n for n in names if R.eval_elem(tree, n, dict(env), spec)]


def _sample_elem(tree, spec, env, rng, types=True):
    names = R.TYPE_NAMES if types and rng.random() < .93 else list(R.POOL_TAGS)
    cs = _cands(tree, spec, env, names) or _cands(tree, spec, env, list(R.POOL_TAGS))
    if not cs:
        return rng.choice(R.TYPE_NAMES)
    v = rng.choice(cs)
    R.eval_elem(tree, v, env, spec)
    return v


def _forced_len(tree, env, rng):
    """(forced length or None, preset tuple or None) for a range tree under the pre-assigned variables."""
    t = tree[0]
    if t == "rangevar":
        return len(env["r:" + tree[1]]), list(env["r:" + tree[1]])
    if t == "rangelen":
        i = tree[2]
        if i[0] == "ieq":
            return i[1], None
        if i[0] == "ige":
            return i[1] + rng.choice([0, 0, 1]), None
        if i[0] == "ile":
            return rng.randint(0, i[1]), None
        if i[0] == "ivar":
            return env["i:" + i[1]], None
    return None, None


def _elem_tree(tree):
    return tree[1] if tree[0] == "rangeof" else tree[1][1] if tree[0] == "rangelen" else None


def sample_instance(spec, rng):
    """A flat instance that is LIKELY valid (guided sampling; the reference decides afterwards)."""
    env: dict = {}
    for name, inner in spec["vars"].items():
        env["a:" + name] = rng.choice(_cands(inner, spec, {}, R.TYPE_NAMES) or R.TYPE_NAMES)
    for c in ("operand", "result", "region"):
        for x in spec[c]["defs"]:
            tr = x[2] if c != "region" else x[3]
            if isinstance(tr, list) and tr[0] == "rangelen" and tr[2][0] == "ivar" and "i:" + tr[2][1] not in env:
                env["i:" + tr[2][1]] = rng.choice([0, 1, 1, 2])
    for name, inner in spec["rvars"].items():
        env["r:" + name] = [_sample_elem(inner, spec, env, rng) for _ in range(rng.choice([0, 1, 1, 2]))]
    genv = {k: v for k, v in env.items() if k.startswith("a:")}
    inst = {"props": {}, "attrs": {}}
    sizes_of = {}
    for c in CONSTRUCTS:
        d = spec[c]
        mode = R.seg_mode(d["mode"])
        forced = []
        for x in d["defs"]:
            tr = x[2] if c in ("operand", "result") else x[3] if c == "region" else None
            forced.append(_forced_len(tr, env, rng) if (tr and x[1] != "single") else (None, None))
        common = None
        if mode == "same":
            fs = [f[0] for f, x in zip(forced, d["defs"]) if x[1] != "single" and f[0] is not None]
            common = fs[0] if fs else (rng.choice([0, 1]) if any(x[1] == "opt" for x in d["defs"]) else rng.choice([0, 1, 2, 3]))
        sizes = []
        for (fl, _), x in zip(forced, d["defs"]):
            k = x[1]
            if k == "single":
                sizes.append(1)
            elif common is not None:
                sizes.append(common)
            elif fl is not None:
                sizes.append(fl)
            else:
                sizes.append(rng.choice([0, 1]) if k == "opt" else rng.choice([0, 1, 1, 2, 3]))
        sizes_of[c] = sizes
        if c in ("operand", "result"):
            flat = []
            for (fl, preset), x, s in zip(forced, d["defs"], sizes):
                tree = x[2]
                if x[1] == "single":
                    flat.append(_sample_elem(tree, spec, genv, rng))
                elif preset is not None and len(preset) == s:
                    flat.extend(preset)
                else:
                    et = _elem_tree(tree) or spec["rvars"][tree[1]]
                    flat.extend(_sample_elem(et, spec, genv, rng) for _ in range(s))
            inst[c] = flat
        elif c == "region":
            regs = []
            for (fl, preset), x, s in zip(forced, d["defs"], sizes):
                tree = x[3]
                for _ in range(s):
                    nb = 1 if x[2] else rng.choice([0, 1, 1, 2])
                    blocks = []
                    for bi in range(nb):
                        if bi == 0:
                            if tree[0] == "rangevar":
                                args = list(env["r:" + tree[1]])
                            else:
                                n_args = fl if (x[1] == "single" and fl is not None) else None
                                f2, _p = _forced_len(tree, env, rng)
                                n_args = f2 if f2 is not None else rng.choice([0, 1, 2])
                                args = [_sample_elem(_elem_tree(tree), spec, genv, rng) for _ in range(n_args)]
                        else:
                            args = [rng.choice(R.TYPE_NAMES) for _ in range(rng.choice([0, 1]))]
                        blocks.append(args)
                    regs.append(blocks)
            inst[c] = regs
        else:
            inst[c] = sum(sizes)
        if mode == "attr":
            (inst["props"] if d["mode"] == "prop" else inst["attrs"])[SEG_ATTR[c]] = ["dense", "i32", list(sizes)]
    for which in ("props", "attrs"):
        for py, ir, kind, tree, default in spec[which]:
            if kind == "opt" and rng.random() < .4:
                continue
            if default is not None and rng.random() < .5:
                inst[which][ir] = default
            else:
                inst[which][ir] = _sample_elem(tree, spec, genv, rng, types=False)
    if rng.random() < .15:
        inst["attrs"]["extra.undeclared"] = rng.choice(list(R.POOL_TAGS))
    return inst, sizes_of


SIZE_ELTS = ["i64", "si32", "i16"]


def perturb(spec, inst, rng):
    """One random hostile edit of a flat instance; returns (new instance, edit name)."""
    inst = copy.deepcopy(inst)
    seg_cs = [c for c in CONSTRUCTS if R.seg_mode(spec[c]["mode"]) == "attr"]
    choices = ["add", "remove", "retype", "prop", "attr", "region"]
    if seg_cs:
        choices += ["segvec"] * 7
    if spec["vars"] or spec["rvars"]:
        choices += ["retype"] * 2
    if any(x[1] != "single" for c in ("operand", "result") for x in spec[c]["defs"]):
        choices += ["resize-seg"] * 4
    what = rng.choice(choices)
    if what == "resize-seg":
        # grow / shrink ONE variadic segment and keep the segment vector in step: only shared int / range
        # variables, length constraints, optional-ness and same-size rules can object
        c = rng.choice([c for c in ("operand", "result") if any(x[1] != "single" for x in spec[c]["defs"])])
        st = R.ref_verify(spec, inst)["segs"].get(c)
        if st is None:
            return inst, "resize-seg-skipped"
        j = rng.choice([j for j, x in enumerate(spec[c]["defs"]) if x[1] != "single"])
        seg = st[j]
        grow = rng.random() < .6 or not seg
        pos = (seg[-1] + 1) if seg else sum(len(x) for x in st[:j])
        if grow:
            inst[c].insert(pos, inst[c][seg[-1]] if seg and rng.random() < .7 else rng.choice(R.TYPE_NAMES))
        else:
            inst[c].pop(pos - 1)
        if R.seg_mode(spec[c]["mode"]) == "attr":
            v = (inst["props"] if spec[c]["mode"] == "prop" else inst["attrs"]).get(SEG_ATTR[c])
            if isinstance(v, list) and len(v[2]) > j:
                v[2][j] += 1 if grow else -1
        return inst, "resize-seg:" + c
    if what in ("add", "remove"):
        c = rng.choice([c for c in CONSTRUCTS if spec[c]["defs"]] or list(CONSTRUCTS))
        if c == "successor":
            inst[c] = max(0, inst[c] + (1 if what == "add" else -1))
        else:
            lst = inst[c]
            if what == "add":
                new = [[rng.choice(R.TYPE_NAMES)] for _ in range(rng.choice([0, 1, 1, 2]))] if c == "region" else \
                    (rng.choice(lst) if lst and rng.random() < .6 else rng.choice(R.TYPE_NAMES))
                lst.insert(rng.randint(0, len(lst)), new)
            elif lst:
                lst.pop(rng.randrange(len(lst)))
        # keep the segment vector in step half of the time (then only constraints / kinds can object)
        if c in seg_cs and rng.random() < .5:
            cont = inst["props"] if spec[c]["mode"] == "prop" else inst["attrs"]
            v = cont.get(SEG_ATTR[c])
            if isinstance(v, list) and v[2]:
                j = rng.randrange(len(v[2]))
                v[2][j] += 1 if what == "add" else -1
        return inst, what + ":" + c
    if what == "retype":
        c = rng.choice(["operand", "result"])
        if inst[c]:
            j = rng.randrange(len(inst[c]))
            inst[c][j] = rng.choice(list(R.POOL_TAGS) if rng.random() < .2 else R.TYPE_NAMES)
        return inst, "retype:" + c
    if what == "region":
        if inst["region"]:
            r = rng.choice(inst["region"])
            k = rng.random()
            if k < .3:
                r.append([rng.choice(R.TYPE_NAMES) for _ in range(rng.choice([0, 1]))])
            elif k < .55 and r:
                r.pop(rng.randrange(len(r)))
            elif r:
                b = r[0]
                if b and rng.random() < .6:
                    b[rng.randrange(len(b))] = rng.choice(R.TYPE_NAMES)
                elif rng.random() < .6:
                    b.append(rng.choice(R.TYPE_NAMES))
                elif b:
                    b.pop()
        return inst, "region-edit"
    if what in ("prop", "attr"):
        which = "props" if what == "prop" else "attrs"
        cont = inst[which]
        k = rng.random()
        if k < .4 and cont:
            del cont[rng.choice(sorted(cont))]
            return inst, what + "-drop"
        if k < .6:
            nm = rng.choice(["undeclared.x", "undeclared.x", "operandSegmentSizes", "resultSegmentSizes"])
            if nm not in cont:
                cont[nm] = rng.choice(list(R.POOL_TAGS) + [["dense", "i32", [1, 1]]])
            return inst, what + "-undeclared"
        if cont:
            cont[rng.choice(sorted(cont))] = rng.choice(list(R.POOL_TAGS) + [["dense", "i32", [1, 2]]])
        return inst, what + "-retype"
    # segment vector edits
    c = rng.choice(seg_cs)
    right = inst["props"] if spec[c]["mode"] == "prop" else inst["attrs"]
    wrong = inst["attrs"] if spec[c]["mode"] == "prop" else inst["props"]
    name = SEG_ATTR[c]
    v = right.get(name)
    if not isinstance(v, list):
        right[name] = ["dense", "i32", [1] * len(spec[c]["defs"])]
        return inst, "segvec-reset:" + c
    vals = v[2]
    k = rng.choice(["inc", "dec", "neg", "neg-balanced", "shift", "swap", "two", "zero", "append", "drop", "elt",
                    "notdense", "missing", "container", "big"])
    if k == "inc" and vals:
        vals[rng.randrange(len(vals))] += 1
    elif k == "dec" and vals:
        vals[rng.randrange(len(vals))] -= 1
    elif k == "neg" and vals:
        vals[rng.randrange(len(vals))] = -rng.choice([1, 1, 2])
    elif k == "neg-balanced" and len(vals) >= 2:       # sum preserved, one entry negative
        i, j = rng.sample(range(len(vals)), 2)
        d = vals[i] + rng.choice([1, 2])
        vals[i] -= d
        vals[j] += d
    elif k == "shift" and len(vals) >= 2:               # sum preserved, segments move
        i, j = rng.sample(range(len(vals)), 2)
        vals[i] += 1
        vals[j] -= 1
    elif k == "swap" and len(vals) >= 2:
        i, j = rng.sample(range(len(vals)), 2)
        vals[i], vals[j] = vals[j], vals[i]
    elif k == "two" and vals:
        vals[rng.randrange(len(vals))] = 2
    elif k == "zero" and vals:
        vals[rng.randrange(len(vals))] = 0
    elif k == "append":
        vals.append(rng.choice([0, 1]))
    elif k == "drop" and vals:
        vals.pop(rng.randrange(len(vals)))
    elif k == "elt":
        v[1] = rng.choice(SIZE_ELTS)
    elif k == "notdense":
        right[name] = rng.choice(["arr", "int5", "unit"])
    elif k == "missing":
        del right[name]
    elif k == "container":
        wrong[name] = right.pop(name)
    elif k == "big" and vals:
        vals[rng.randrange(len(vals))] += rng.choice([3, 5, 100])
    return inst, "segvec-" + k + ":" + c


# ------------------------------------------------------------------ running the real code
class Handles:
    __slots__ = ("block", "operand", "result", "region", "successor", "op")


def make_raw(cls, spec, inst):
    x = X()
    h = Handles()
    h.block = x["Block"](arg_types=[real(v) for v in inst["operand"]])
    h.operand = list(h.block.args)
    h.region = [x["Region"]([x["Block"](arg_types=[real(a) for a in b]) for b in r]) for r in inst["region"]]
    h.successor = [x["Block"]() for _ in range(inst["successor"])]
    op = cls.create(operands=h.operand, result_types=[real(v) for v in inst["result"]],
                    properties={k: real(v) for k, v in inst["props"].items()},
                    attributes={k: real(v) for k, v in inst["attrs"].items()},
                    successors=h.successor, regions=h.region)
    # __post_init__ filled in defaults; the flat instance is authoritative
    for k in list(op.properties):
        if k not in inst["props"]:
            del op.properties[k]
    for k in list(op.attributes):
        if k not in inst["attrs"]:
            del op.attributes[k]
    h.result = list(op.results)
    h.op = op
    return h


def innermost(e):
    """Qualname of the innermost frame inside xdsl/irdl/operations.py (the anchored mechanism) if the exception
    passed through it, else of the innermost frame."""
    tb = e.__traceback__
    last = anchored = None
    while tb is not None:
        last = tb.tb_frame.f_code
        if last.co_filename.replace("\\", "/").endswith("xdsl/irdl/operations.py"):
            anchored = last
        tb = tb.tb_next
    return (anchored or last).co_qualname


def run_verify(op, full=False):
    VE = X()["VerifyException"]
    try:
        if full:
            op.verify()
        else:
            op.verify_()
        return "accept", None
    except VE as e:
        return "reject", str(e)
    except Exception as e:  # noqa: BLE001 - any other exception is an observation about the code under test
        return f"crash:{type(e).__name__}:{innermost(e)}", str(e)


def accessor_mismatches(op, spec_names, handles, segs):
    """[(construct, def name, accessor class, text)] for every accessor that does not return the reference segment.
    spec_names: {construct: [(name, kind)]}; handles: {construct: [real objects]}; segs: {construct: [[idx]]}."""
    bad = []
    n = 0
    for c in CONSTRUCTS:
        hs = handles[c]
        for (name, kind), seg in zip(spec_names[c], segs[c]):
            n += 1
            acc = type(type(op).__dict__.get(name)).__name__
            try:
                got = getattr(op, name)
            except Exception as e:  # noqa: BLE001
                bad.append((c, name, acc, f"raised {type(e).__name__}:{innermost(e)}: {e}"))
                continue
            if kind == "single":
                ok = len(seg) == 1 and got is hs[seg[0]]
            elif kind == "opt":
                ok = (got is None) if not seg else (len(seg) == 1 and got is hs[seg[0]])
            else:
                try:
                    g = list(got)
                except TypeError:
                    g = None
                ok = g is not None and len(g) == len(seg) and all(a is hs[i] for a, i in zip(g, seg))
            if not ok:
                bad.append((c, name, acc, f"returned {_short(got, hs)} expected indices {seg}"))
    return bad, n


def _short(got, hs):
    def one(v):
        for i, h in enumerate(hs):
            if v is h:
                return i
        return "?"
    if got is None:
        return "None"
    try:
        return "indices " + str([one(v) for v in got])
    except TypeError:
        return "index " + str(one(got))


def spec_names(spec):
    return {c: [(x[0], x[1]) for x in spec[c]["defs"]] for c in CONSTRUCTS}


def has_zero_variadic_same(spec, constructs=CONSTRUCTS):
    return any(spec[c]["mode"] == "same" and spec[c]["defs"] and all(x[1] == "single" for x in spec[c]["defs"])
               for c in constructs)


def classify_verdict(spec, inst, ref, real_out):
    """None when real and reference agree, else the mechanism key of the disagreement."""
    if ref["ok"] and real_out == "accept":
        return None
    if not ref["ok"] and real_out == "reject":
        return None
    short = ":".join(real_out.split(":")[:2])
    if real_out.startswith("crash:ZeroDivisionError:SameVariadicSingleAccessor.index") and has_zero_variadic_same(spec):
        return KNOWN_ZDIV
    if not ref["ok"]:
        if ref["reason"] in ("attr-sizes-sum", "attr-size-negative"):
            bug = R.ref_verify(spec, inst, bug_model=True)
            bug_out = "accept" if bug["ok"] else ("crash:IndexError" if bug["reason"] == "crash:IndexError" else "reject")
            if bug_out == short and (bug_out == "accept" or real_out.endswith("AttrAccessor.index")):
                return KNOWN_NEG if ref["reason"] == "attr-size-negative" else KNOWN_SUM
        if real_out == "accept":
            return f"accepts-invalid:{ref['construct'] or 'dict'}:{ref['reason']}"
        return f"{real_out} (reference: reject {ref['reason']})"
    if real_out == "reject":
        return "rejects-valid"
    return real_out


def _norm_msg(msg):
    import re
    s = (msg or "").splitlines()[0] if msg else ""
    s = re.sub(r"'[^']*'", "_", s)
    s = re.sub(r"-?\d+", "N", s)
    return re.sub(r"[^A-Za-z_]+", "-", s).strip("-")[:60]


# ------------------------------------------------------------------ work: generated definitions
class Out:
    def __init__(self):
        self.res = {"evaluations": 0, "nontrivial": [], "samples": [], "counters": {}, "sets": {}, "violations": [],
                    "extra": {}}
        self.C = self.res["counters"]
        self.S = self.res["sets"]
        self.vkeys: dict = {}

    def inc(self, k, n=1):
        self.C[k] = self.C.get(k, 0) + n

    def add(self, k, v):
        s = self.S.setdefault(k, [])
        if v not in s and len(s) < 400:
            s.append(v)

    def viol(self, key, summary, witness):
        self.inc("disagreements")
        self.vkeys[key] = self.vkeys.get(key, 0) + 1
        if self.vkeys[key] <= 3:
            self.res["violations"].append({"key": key, "summary": summary[:400], "witness": witness})


def check_raw(out, cls, spec, inst, how, nt):
    """One raw instance: verdict + accessors."""
    ref = R.ref_verify(spec, inst)
    h = make_raw(cls, spec, inst)
    real_out, msg = run_verify(h.op)
    out.res["evaluations"] += 1
    out.inc("raw_instances")
    out.inc("raw_ref_accept" if ref["ok"] else "raw_ref_reject")
    if not ref["ok"]:
        out.inc("reject_reason:" + ref["reason"])
    if nt:
        out.res["nontrivial"].append(shash((spec, inst)))
    wit = {"spec": spec, "instance": inst, "edit": how, "real": real_out, "real_message": (msg or "")[:300],
           "reference": {"ok": ref["ok"], "reason": ref["reason"], "construct": ref["construct"]},
           "replay_job": {"kind": "one", "spec": spec, "instance": inst}}
    key = classify_verdict(spec, inst, ref, real_out)
    if key:
        if key == "rejects-valid":
            key += ":" + _norm_msg(msg)
        out.viol(key, f"verify_() -> {real_out}; reference -> {'accept' if ref['ok'] else 'reject ' + ref['reason']} "
                      f"[{how}] {(msg or '')[:120]}", wit)
        return ref, real_out
    if ref["ok"]:
        if not inst["successor"] and not inst["region"]:
            full, fmsg = run_verify(h.op, full=True)
            out.inc("full_verify_calls")
            if full != "accept":
                out.viol("Operation.verify-differs-from-verify_", f"verify() -> {full} {fmsg}", wit)
        handles = {"operand": h.operand, "result": h.result, "region": h.region, "successor": h.successor}
        bad, n = accessor_mismatches(h.op, spec_names(spec), handles, ref["segs"])
        out.inc("accessor_comparisons", n)
        for c, name, acc, text in bad:
            if "ZeroDivisionError:SameVariadicSingleAccessor.index" in text and has_zero_variadic_same(spec, (c,)):
                out.viol(KNOWN_ZDIV, f"accessor {name}: {text}", wit)
            else:
                out.viol(f"accessor:{acc}:{c}", f"{acc} for {c} '{name}' {text}", wit)
            out.add("accessor_classes_wrong", acc)
        bad_p = prop_accessor_mismatches(h.op, spec, inst)
        out.inc("prop_accessor_comparisons", len(spec["props"]) + len(spec["attrs"]))
        for text in bad_p:
            out.viol("accessor:property-or-attribute", text, wit)
    return ref, real_out


def prop_accessor_mismatches(op, spec, inst):
    bad = []
    for which, cont in (("props", op.properties), ("attrs", op.attributes)):
        for py, ir, kind, tree, default in spec[which]:
            try:
                got = getattr(op, py)
            except Exception as e:  # noqa: BLE001
                if kind == "req" and ir not in inst[which]:
                    continue
                bad.append(f"accessor {py} raised {type(e).__name__}: {e}")
                continue
            if ir in inst[which]:
                exp = cont[ir]
            elif kind == "opt":
                exp = real(default) if default is not None else None
            else:
                continue
            if got is not exp:
                bad.append(f"accessor {py} ({which} '{ir}') returned {got} expected {exp}")
    return bad


def constructor_case(out, cls, spec, inst, sizes_of, rng, nt, hostile):
    """Build through __init__/build from per-definition arguments; hostile=True makes the arguments inadmissible
    on purpose (the reference decides from the flat instance the arguments denote)."""
    x = X()
    inst = copy.deepcopy(inst)
    sizes_of = copy.deepcopy(sizes_of)
    edit = "admissible"
    if hostile:
        k = rng.choice(["none-single", "opt-two", "unequal", "retype", "drop-prop"])
        edit = k
        if k == "retype":
            c = rng.choice(["operand", "result"])
            if inst[c]:
                inst[c][rng.randrange(len(inst[c]))] = rng.choice(list(R.POOL_TAGS))
        elif k == "drop-prop":
            req = [ir for py, ir, kind, tree, default in spec["props"] if kind == "req" and default is None and ir in inst["props"]]
            if req:
                del inst["props"][rng.choice(req)]
        elif k in ("opt-two", "unequal", "none-single"):
            c = rng.choice([c for c in CONSTRUCTS if spec[c]["defs"]] or ["operand"])
            ds = spec[c]["defs"]
            want = {"opt-two": "opt", "unequal": "var", "none-single": "single"}[k]
            js = [j for j, d in enumerate(ds) if d[1] == want]
            if js:
                j = rng.choice(js)
                pos = sum(sizes_of[c][:j])
                if k == "none-single":
                    sizes_of[c][j] = 0
                    if c == "successor":
                        inst[c] -= 1
                    else:
                        inst[c].pop(pos)
                else:
                    sizes_of[c][j] += 1 if k == "unequal" else (2 - sizes_of[c][j])
                    n_now = inst[c] if c == "successor" else len(inst[c])
                    need = sum(sizes_of[c]) - n_now
                    for _ in range(need):
                        if c == "successor":
                            inst[c] += 1
                        elif c == "region":
                            inst[c].insert(pos, [[]])
                        else:
                            inst[c].insert(pos, rng.choice(R.TYPE_NAMES))
    # the flat instance the constructor is expected to produce
    expect = copy.deepcopy(inst)
    for c in CONSTRUCTS:
        m = spec[c]["mode"]
        for cont in (expect["props"], expect["attrs"]):
            cont.pop(SEG_ATTR[c], None)
        if m in ("attr", "prop"):
            (expect["props"] if m == "prop" else expect["attrs"])[SEG_ATTR[c]] = ["dense", "i32", list(sizes_of[c])]
    omitted = []
    for which in ("props", "attrs"):
        for py, ir, kind, tree, default in spec[which]:
            if kind == "req" and default is not None and ir in expect[which] and expect[which][ir] == default \
                    and rng.random() < .6:
                omitted.append((which, ir))
    ref = R.ref_verify(spec, expect)
    # shape admissibility of the arguments themselves (None to single, >1 to optional, unequal same-sized variadics)
    shape_ok = True
    for c in CONSTRUCTS:
        ks = [d[1] for d in spec[c]["defs"]]
        for kd, s in zip(ks, sizes_of[c]):
            if (kd == "single" and s != 1) or (kd == "opt" and s > 1):
                shape_ok = False
        vs = [s for kd, s in zip(ks, sizes_of[c]) if kd != "single"]
        if spec[c]["mode"] == "same" and len(set(vs)) > 1:
            shape_ok = False
    admissible = ref["ok"] and shape_ok
    # real objects
    blk = x["Block"](arg_types=[real(v) for v in inst["operand"]])
    handles = {"operand": list(blk.args),
               "region": [x["Region"]([x["Block"](arg_types=[real(a) for a in b]) for b in r]) for r in inst["region"]],
               "successor": [x["Block"]() for _ in range(inst["successor"])]}
    res_types = [real(v) for v in inst["result"]]
    args = {}
    for c in CONSTRUCTS:
        flat = res_types if c == "result" else handles[c]
        pos, lst = 0, []
        for d, s in zip(spec[c]["defs"], sizes_of[c]):
            part = list(flat[pos:pos + s])
            pos += s
            kd = d[1]
            r = rng.random()
            if kd == "single":
                lst.append(part[0] if len(part) == 1 and r < .8 else (part if part else None))
            elif kd == "opt":
                if not part:
                    lst.append(None if r < .6 else [])
                else:
                    lst.append(part[0] if len(part) == 1 and r < .5 else part)
            else:
                lst.append(part if r < .85 or c != "operand" else tuple(part))
        args[c] = lst
    props = {k: real(v) for k, v in inst["props"].items() if k not in SEG_ATTR.values() and ("props", k) not in omitted}
    attrs = {k: real(v) for k, v in inst["attrs"].items() if k not in SEG_ATTR.values() and ("attrs", k) not in omitted}
    for py, ir, kind, tree, default in spec["props"]:
        if kind == "opt" and ir not in props and rng.random() < .4:
            props[ir] = None
    kw = dict(operands=args["operand"], result_types=args["result"], properties=props, attributes=attrs,
              successors=args["successor"], regions=args["region"])
    via = "build" if rng.random() < .5 else "__init__"
    out.res["evaluations"] += 1
    out.inc("constructor_cases")
    if nt:
        out.res["nontrivial"].append(shash((spec, expect, "ctor")))
    wit = {"spec": spec, "expected_flat_instance": expect, "sizes": sizes_of, "via": via, "edit": edit,
           "reference": {"ok": ref["ok"], "reason": ref["reason"]}, "shape_ok": shape_ok}
    try:
        op = cls.build(**kw) if via == "build" else cls(**kw)
    except ValueError as e:
        out.inc("constructor_raised_ValueError")
        if admissible:
            out.viol("constructor:rejects-admissible-arguments:" + _norm_msg(str(e)),
                     f"{via} raised ValueError on admissible arguments: {e}", wit)
        return
    except Exception as e:  # noqa: BLE001
        key = f"constructor-crash:{type(e).__name__}:{innermost(e)}"
        if admissible or not shape_ok:
            out.viol(key, f"{via} raised {type(e).__name__}: {e}", wit)
        else:
            out.inc("constructor_other_exception_on_inadmissible")
        return
    real_out, msg = run_verify(op)
    wit["real"] = real_out
    wit["real_message"] = (msg or "")[:300]
    if not admissible:
        out.inc("constructor_inadmissible_built")
        if real_out == "accept" and not ref["ok"]:
            out.viol(classify_verdict(spec, expect, ref, real_out) or "constructor:accepts-invalid",
                     f"constructed from inadmissible arguments ({edit}) and verify_() accepts; reference: {ref['reason']}", wit)
        elif real_out.startswith("crash"):
            key = classify_verdict(spec, expect, ref, real_out)
            if key:
                out.viol(key, f"constructed op: verify_() -> {real_out}", wit)
        elif real_out == "accept" and ref["ok"] and not shape_ok:
            out.inc("constructor_accepted_odd_shape_valid_flat")
        return
    out.inc("constructor_admissible")
    if real_out != "accept":
        key = classify_verdict(spec, expect, ref, real_out) or "constructor:built-op-does-not-verify"
        if key == "rejects-valid":
            key = "constructor:built-op-does-not-verify:" + _norm_msg(msg)
        out.viol(key, f"{via} from admissible arguments, verify_() -> {real_out}: {(msg or '')[:150]}", wit)
        return
    # flat lists and dictionaries are what the arguments denote
    handles["result"] = list(op.results)
    problems = []
    if [v for v in op.operands] != handles["operand"] or any(a is not b for a, b in zip(op.operands, handles["operand"])):
        problems.append("operands")
    if len(op.results) != len(res_types) or any(r.type is not t for r, t in zip(op.results, res_types)):
        problems.append("result types")
    if len(op.regions) != len(handles["region"]) or any(a is not b for a, b in zip(op.regions, handles["region"])):
        problems.append("regions")
    if len(op.successors) != len(handles["successor"]) or any(a is not b for a, b in zip(op.successors, handles["successor"])):
        problems.append("successors")
    for which, cont in (("props", op.properties), ("attrs", op.attributes)):
        if set(cont) != set(expect[which]):
            problems.append(f"{which} keys {sorted(cont)} != {sorted(expect[which])}")
            continue
        for k, v in expect[which].items():
            if k in SEG_ATTR.values():
                if decode_real_sizes(cont[k]) != v[2]:
                    problems.append(f"{k} = {decode_real_sizes(cont[k])} expected {v[2]}")
            elif cont[k] is not real(v):
                problems.append(f"{which}[{k}]")
    if problems:
        out.viol("constructor:built-op-differs-from-arguments", "; ".join(problems), wit)
        return
    bad, n = accessor_mismatches(op, spec_names(spec), handles, ref["segs"])
    out.inc("accessor_comparisons", n)
    out.inc("constructor_accessor_comparisons", n)
    for c, name, acc, text in bad:
        if "ZeroDivisionError:SameVariadicSingleAccessor.index" in text and has_zero_variadic_same(spec, (c,)):
            out.viol(KNOWN_ZDIV, f"accessor {name}: {text}", wit)
        else:
            out.viol(f"accessor:{acc}:{c}", f"constructed op: {acc} for {c} '{name}' {text}", wit)
    for text in prop_accessor_mismatches(op, spec, expect):
        out.viol("accessor:property-or-attribute", "constructed op: " + text, wit)


def work_gen(job, out):
    x = X()
    pool_sanity()
    rng = random.Random(job["seed"])
    for di in range(job["defs"]):
        spec = gen_spec(rng, f"{job['seed']}_{di}")
        admissible_def = R.def_admissible(spec)
        try:
            cls = build_class(spec, rng)
        except x["PyRDLOpDefinitionError"] as e:
            out.inc("definitions_rejected_PyRDLOpDefinitionError")
            if admissible_def:
                out.viol("definition:admissible-definition-rejected:" + _norm_msg(str(e)), str(e), {"spec": spec})
            continue
        except x["PyRDLError"] as e:
            out.inc("definitions_skipped_constraint_construction")   # e.g. union alternatives not provably disjoint
            out.add("constraint_construction_errors", _norm_msg(str(e)))
            continue
        if not admissible_def:
            out.viol("definition:two-variadics-without-option-accepted", "irdl_op_definition accepted the class",
                     {"spec": spec})
            continue
        out.inc("definitions")
        nt = nontrivial_def(spec)
        if nt:
            out.inc("definitions_nontrivial")
        for c in CONSTRUCTS:
            nv = sum(1 for d in spec[c]["defs"] if d[1] != "single")
            out.add("list_shapes", f"{c}:{spec[c]['mode']}:{min(nv, 3)}var/{len(spec[c]['defs'])}")
            if nv >= 2:
                out.inc(f"defs_multi_variadic_{c}_{spec[c]['mode']}")
        if R.shared_vars(spec):
            out.inc("definitions_with_shared_variable")
            for ns in {v[0] for v in R.shared_vars(spec)}:
                out.inc({"a": "definitions_sharing_attr_var", "r": "definitions_sharing_range_var",
                         "i": "definitions_sharing_int_var"}[ns])
        if spec.get("inherit"):
            out.inc("definitions_with_inherited_fields")
        d = cls.get_irdl_definition()
        assert [n for n, _ in d.operands] == [v[0] for v in spec["operand"]["defs"]], "harness: operand order"
        assert [n for n, _ in d.results] == [v[0] for v in spec["result"]["defs"]], "harness: result order"
        for c in CONSTRUCTS:
            for nm, _k in spec_names(spec)[c]:
                out.add("accessor_classes", type(cls.__dict__[nm]).__name__)
        # valid instances
        valids = []
        for _ in range(job["valid_tries"]):
            inst, sizes_of = sample_instance(spec, rng)
            if R.ref_verify(spec, inst)["ok"]:
                valids.append((inst, sizes_of))
                if len(valids) >= job["valid"]:
                    break
            else:
                out.inc("sampler_misses")
                # a near-valid instance is a useful hostile case too
                if rng.random() < .3:
                    check_raw(out, cls, spec, inst, "sampler-miss", nt)
        if not valids:
            out.inc("definitions_without_valid_instance")
            inst, sizes_of = sample_instance(spec, rng)
            valids_fallback = [(inst, sizes_of)]
        seen = {"accept": 0, "reject": 0}
        for inst, sizes_of in valids:
            ref, ro = check_raw(out, cls, spec, inst, "valid", nt)
            seen["accept" if ref["ok"] else "reject"] += 1
        base = valids or valids_fallback
        for i in range(job["ctor"]):
            inst, sizes_of = base[i % len(base)]
            constructor_case(out, cls, spec, inst, sizes_of, rng, nt, hostile=(i % 3 == 2) or not valids)
        for i in range(job["perturbed"]):
            inst, _ = base[i % len(base)]
            how = []
            for _ in range(1 if rng.random() < .75 else 2):
                inst, h = perturb(spec, inst, rng)
                how.append(h)
            out.add("edits", how[0].split(":")[0])
            ref, ro = check_raw(out, cls, spec, inst, "+".join(how), nt)
            seen["accept" if ref["ok"] else "reject"] += 1
        if seen["accept"] and seen["reject"]:
            out.inc("definitions_both_verdicts")
            if nt:
                out.inc("definitions_nontrivial_both_verdicts")
        if di == 0:
            out.res["samples"].append({"definition": spec, "a_valid_instance": base[0][0]})


# ------------------------------------------------------------------ work: registered op classes
def opdef_shape(op_def):
    """{construct: (names+kinds, mode)} read from a real OpDef (data only), or None when out of scope."""
    o = X()["ops"]
    lists = {"operand": op_def.operands, "result": op_def.results, "region": op_def.regions,
             "successor": op_def.successors}
    shape = {}
    for c in CONSTRUCTS:
        nk = [(n, "opt" if isinstance(d, o.OptionalDef) else "var" if isinstance(d, o.VariadicDef) else "single")
              for n, d in lists[c]]
        same = any(type(opt).__name__ == OPTION_CLS[c][0] for opt in op_def.options)
        attr = [opt for opt in op_def.options if type(opt).__name__ == OPTION_CLS[c][1]]
        if same and attr:
            return None
        mode = "same" if same else ("prop" if attr[0].as_property else "attr") if attr else "none"
        shape[c] = (nk, mode)
    return shape


def admissible_sizes(kinds, mode, rng):
    nv = [k for k in kinds if k != "single"]
    if R.seg_mode(mode) == "same" and nv:
        s = rng.choice([0, 1]) if "opt" in kinds else rng.choice([0, 1, 2, 3])
        return [1 if k == "single" else s for k in kinds]
    return [1 if k == "single" else rng.choice([0, 1]) if k == "opt" else rng.choice([0, 1, 2, 3]) for k in kinds]


def work_reg(job, out):
    x = X()
    from xdsl.dialects import get_all_dialects
    o = x["ops"]
    rng = random.Random(job["seed"])
    b = x["b"]
    classes = []
    for dname, factory in sorted(get_all_dialects().items()):
        try:
            d = factory()
        except Exception as e:  # noqa: BLE001
            out.add("dialects_not_loadable", f"{dname}:{type(e).__name__}")
            continue
        for cls in d.operations:
            classes.append((dname, cls))
    out.inc("registered_op_classes_total", len(classes) if job["shard"] == 0 else 0)
    gen_acc = (o.BaseAccessor, o.BaseAttrAccessor)
    import inspect
    for k, (dname, cls) in enumerate(classes):
        if k % job["nshards"] != job["shard"]:
            continue
        if not (isinstance(cls, type) and issubclass(cls, o.IRDLOperation)):
            out.inc("reg_skipped_not_irdl")
            continue
        op_def = cls.get_irdl_definition()
        shape = opdef_shape(op_def)
        if shape is None:
            out.inc("reg_skipped_both_options")
            continue
        out.inc("reg_op_classes")
        out.add("reg_dialects", dname)
        pseudo = {c: {"mode": shape[c][1], "defs": [[n, kd] for n, kd in shape[c][0]]} for c in CONSTRUCTS}
        if has_zero_variadic_same(pseudo):
            out.inc("reg_same_option_without_variadic")
        for c in CONSTRUCTS:
            nv = sum(1 for _n, kd in shape[c][0] if kd != "single")
            if nv >= 2:
                out.inc(f"reg_multi_variadic_{c}_{shape[c][1]}")
        for trial in range(job["trials"]):
            sizes = {c: admissible_sizes([kd for _n, kd in shape[c][0]], shape[c][1], rng) for c in CONSTRUCTS}
            counts = {c: sum(sizes[c]) for c in CONSTRUCTS}
            vec = {c: list(sizes[c]) for c in CONSTRUCTS}
            bad_c = None
            if trial >= job["trials"] // 2:
                # make exactly one list inadmissible
                cands = [c for c in CONSTRUCTS if shape[c][0] or rng.random() < .2]
                bad_c = rng.choice(cands or list(CONSTRUCTS))
                if R.seg_mode(shape[bad_c][1]) == "attr" and vec[bad_c] and rng.random() < .7:
                    j = rng.randrange(len(vec[bad_c]))
                    kk = rng.choice(["inc", "dec", "neg", "append", "shiftneg"])
                    if kk == "inc":
                        vec[bad_c][j] += rng.choice([1, 2])
                    elif kk == "dec":
                        vec[bad_c][j] -= 1
                    elif kk == "neg":
                        vec[bad_c][j] = -1
                    elif kk == "append":
                        vec[bad_c].append(0)
                    elif len(vec[bad_c]) >= 2:
                        j2 = (j + 1) % len(vec[bad_c])
                        dd = vec[bad_c][j] + 1
                        vec[bad_c][j] -= dd
                        vec[bad_c][j2] += dd
                else:
                    counts[bad_c] = max(0, counts[bad_c] + rng.choice([-2, -1, 1, 1, 2, 3]))
            props, attrs = {}, {}
            for c in CONSTRUCTS:
                if R.seg_mode(shape[c][1]) == "attr":
                    (props if shape[c][1] == "prop" else attrs)[SEG_ATTR[c]] = b.DenseArrayBase.from_list(b.i32, vec[c])
            segres = {c: R.ref_segment([kd for _n, kd in shape[c][0]], counts[c], R.seg_mode(shape[c][1]),
                                       vec[c] if R.seg_mode(shape[c][1]) == "attr" else None) for c in CONSTRUCTS}
            all_ok = all(v[0] == "ok" for v in segres.values())
            blk = x["Block"](arg_types=[b.i32] * counts["operand"])
            handles = {"operand": list(blk.args), "region": [x["Region"](x["Block"]()) for _ in range(counts["region"])],
                       "successor": [x["Block"]() for _ in range(counts["successor"])]}
            try:
                op = cls.create(operands=handles["operand"], result_types=[b.i32] * counts["result"], properties=props,
                                attributes=attrs, successors=handles["successor"], regions=handles["region"])
            except Exception as e:  # noqa: BLE001
                out.inc("reg_create_failed")
                out.add("reg_create_failures", f"{cls.name}:{type(e).__name__}")
                break
            handles["result"] = list(op.results)
            out.res["evaluations"] += 1
            wit = {"op": cls.name, "class": cls.__qualname__, "counts": counts, "segment_vectors": vec,
                   "modes": {c: shape[c][1] for c in CONSTRUCTS}, "kinds": {c: shape[c][0] for c in CONSTRUCTS}}
            if all_ok:
                out.inc("reg_admissible_instances")
                names = {}
                segs = {}
                for c in CONSTRUCTS:
                    keep = [i for i, (n, _kd) in enumerate(shape[c][0])
                            if isinstance(inspect.getattr_static(cls, n, None), gen_acc)]
                    out.inc("reg_accessors_overridden", len(shape[c][0]) - len(keep))
                    names[c] = [shape[c][0][i] for i in keep]
                    segs[c] = [segres[c][1][i] for i in keep]
                bad, n = accessor_mismatches_static(op, names, handles, segs)
                out.inc("reg_accessor_comparisons", n)
                for c, name, acc, text in bad:
                    if "ZeroDivisionError:SameVariadicSingleAccessor.index" in text and has_zero_variadic_same(pseudo, (c,)):
                        out.viol(KNOWN_ZDIV, f"{cls.name} accessor {name}: {text}", wit)
                    else:
                        out.viol(f"accessor:{acc}:{c}", f"{cls.name}: {acc} for {c} '{name}' {text}", wit)
            else:
                out.inc("reg_inadmissible_instances")
                reason = next(v[1] for v in segres.values() if v[0] != "ok")
                out.inc("reg_reject_reason:" + reason)
                VE = x["VerifyException"]
                try:
                    op_def.verify(op)
                    real_out = "accept"
                except VE:
                    real_out = "reject"
                except Exception as e:  # noqa: BLE001
                    real_out = f"crash:{type(e).__name__}:{innermost(e)}"
                wit["real"] = real_out
                wit["reference"] = reason
                if real_out == "reject":
                    out.inc("reg_inadmissible_rejected")
                elif real_out.startswith("crash:ZeroDivisionError:SameVariadicSingleAccessor.index") and has_zero_variadic_same(pseudo):
                    out.viol(KNOWN_ZDIV, f"{cls.name}: {real_out}", wit)
                elif reason in ("attr-sizes-sum", "attr-size-negative") and \
                        (real_out == "accept" or real_out.startswith("crash:IndexError:") and real_out.endswith("AttrAccessor.index")):
                    out.viol(KNOWN_NEG if reason == "attr-size-negative" else KNOWN_SUM,
                             f"{cls.name}: definition verifier -> {real_out} on sizes {vec[bad_c]} with {counts[bad_c]} {bad_c}s", wit)
                elif real_out == "accept":
                    out.viol(f"accepts-invalid:{bad_c}:{reason}", f"{cls.name}: definition verifier accepts; reference: {reason}", wit)
                else:
                    # exceptions of dialect-specific constraint code on arbitrary operands are outside C10
                    out.inc("reg_inadmissible_other_exception")
                    out.add("reg_other_exceptions", real_out)
        if k % 97 == 0 and len(out.res["samples"]) < 2:
            out.res["samples"].append({"registered_op": cls.name, "kinds": {c: shape[c][0] for c in CONSTRUCTS},
                                       "modes": {c: shape[c][1] for c in CONSTRUCTS}})


def accessor_mismatches_static(op, names, handles, segs):
    return accessor_mismatches_impl(op, names, handles, segs)


def accessor_mismatches_impl(op, names, handles, segs):
    import inspect
    bad = []
    n = 0
    for c in CONSTRUCTS:
        hs = handles[c]
        for (name, kind), seg in zip(names[c], segs[c]):
            n += 1
            acc = type(inspect.getattr_static(type(op), name, None)).__name__
            try:
                got = getattr(op, name)
            except Exception as e:  # noqa: BLE001
                bad.append((c, name, acc, f"raised {type(e).__name__}:{innermost(e)}: {e}"))
                continue
            if kind == "single":
                ok = len(seg) == 1 and got is hs[seg[0]]
            elif kind == "opt":
                ok = (got is None) if not seg else (len(seg) == 1 and got is hs[seg[0]])
            else:
                try:
                    g = list(got)
                except TypeError:
                    g = None
                ok = g is not None and len(g) == len(seg) and all(a is hs[i] for a, i in zip(g, seg))
            if not ok:
                bad.append((c, name, acc, f"returned {_short(got, hs)} expected indices {seg}"))
    return bad, n


# ------------------------------------------------------------------ work: corpus
def work_corpus(job, out):
    import inspect

    from xv import corpus
    x = X()
    o = x["ops"]
    gen_acc = (o.BaseAccessor, o.BaseAttrAccessor)
    chunks = corpus.shard(corpus.chunks(), job["shard"], job["nshards"])
    if job.get("limit"):
        chunks = chunks[:job["limit"]]
    shapes: dict = {}
    for rel, idx, text in chunks:
        out.inc("corpus_chunks")
        pv = corpus.parse_verified(text, rel)
        if pv is None:
            out.inc("corpus_chunks_not_verified")
            continue
        out.inc("corpus_modules_verified")
        _ctx, module = pv
        for op in module.walk():
            if not isinstance(op, o.IRDLOperation):
                out.inc("corpus_ops_not_irdl")
                continue
            cls = type(op)
            if cls not in shapes:
                shapes[cls] = opdef_shape(cls.get_irdl_definition())
            shape = shapes[cls]
            if shape is None:
                out.inc("corpus_ops_skipped_both_options")
                continue
            out.inc("corpus_ops")
            out.res["evaluations"] += 1
            out.add("corpus_op_names", op.name)
            handles = {"operand": list(op.operands), "result": list(op.results), "region": list(op.regions),
                       "successor": list(op.successors)}
            names, segs = {}, {}
            okall = True
            multi = False
            for c in CONSTRUCTS:
                nk, mode = shape[c]
                kinds = [kd for _n, kd in nk]
                sizes = None
                if R.seg_mode(mode) == "attr":
                    sizes = decode_real_sizes((op.properties if mode == "prop" else op.attributes).get(SEG_ATTR[c]))
                    out.inc("corpus_attr_sized_lists")
                if sum(1 for kd in kinds if kd != "single") >= 2:
                    multi = True
                st, val = R.ref_segment(kinds, len(handles[c]), R.seg_mode(mode), sizes)
                if st != "ok":
                    okall = False
                    key = f"corpus:verified-op-not-segmentable:{c}:{val}"
                    if val == "attr-sizes-sum":
                        key = KNOWN_SUM
                    elif val == "attr-size-negative":
                        key = KNOWN_NEG
                    out.viol(key, f"{op.name} in verified module {rel}#{idx}: {c} list of {len(handles[c])} with sizes {sizes}: {val}",
                             {"file": rel, "chunk": idx, "op": op.name, "kinds": nk, "mode": mode, "sizes": sizes,
                              "length": len(handles[c])})
                    break
                keep = [i for i, (n, _kd) in enumerate(nk) if isinstance(inspect.getattr_static(cls, n, None), gen_acc)]
                out.inc("corpus_accessors_overridden", len(nk) - len(keep))
                names[c] = [nk[i] for i in keep]
                segs[c] = [val[i] for i in keep]
            if not okall:
                continue
            if multi:
                out.inc("corpus_ops_multi_variadic")
            bad, n = accessor_mismatches_impl(op, names, handles, segs)
            out.inc("corpus_accessor_comparisons", n)
            for c, name, acc, text in bad:
                out.viol(f"accessor:{acc}:{c}", f"{op.name} ({rel}#{idx}): {acc} for {c} '{name}' {text}",
                         {"file": rel, "chunk": idx, "op": op.name})
            for nm in names.values():
                for n_, _k in nm:
                    out.add("corpus_accessor_classes", type(inspect.getattr_static(cls, n_)).__name__)
    if chunks and len(out.res["samples"]) < 1:
        out.res["samples"].append({"corpus_chunk": f"{chunks[0][0]}#{chunks[0][1]}"})


# ------------------------------------------------------------------ plan / work / finish
def plan(tier, seed):
    jobs = []
    if tier == "quick":
        ngen, defs, nreg, trials, ncorp = 8, 160, 2, 8, 8
    else:
        ngen, defs, nreg, trials, ncorp = 64, 960, 8, 40, 8
    for i in range(ngen):
        jobs.append({"kind": "gen", "seed": seed * 100003 + i, "defs": defs, "valid": 6, "valid_tries": 14, "ctor": 6,
                     "perturbed": 20})
    for i in range(nreg):
        jobs.append({"kind": "reg", "seed": seed * 7919 + i, "shard": i, "nshards": nreg, "trials": trials})
    for i in range(ncorp):
        jobs.append({"kind": "corpus", "shard": i, "nshards": ncorp})
    return jobs


def work(job):
    out = Out()
    kind = job["kind"]
    if kind == "gen":
        work_gen(job, out)
    elif kind == "reg":
        work_reg(job, out)
    elif kind == "corpus":
        work_corpus(job, out)
    elif kind == "one":
        pool_sanity()
        spec, inst = job["spec"], job["instance"]
        cls = build_class(spec, random.Random(0))
        check_raw(out, cls, spec, inst, "replay", True)
    else:
        raise ValueError(kind)
    nts = out.res["nontrivial"]
    out.C["nontrivial_cases"] = len(nts)
    if len(nts) > 4000:              # keep the evidence files small; the counter above has the total
        out.res["nontrivial"] = nts[:4000]
    out.res["extra"] = {}
    return out.res


def finish(agg, tier):
    c = agg.counters
    inc = []
    need = {"definitions": 300, "definitions_nontrivial_both_verdicts": 100, "raw_ref_accept": 2000,
            "raw_ref_reject": 2000, "accessor_comparisons": 10000, "constructor_admissible": 1000,
            "reg_op_classes": 500, "reg_accessor_comparisons": 3000, "reg_inadmissible_instances": 1000,
            "corpus_ops": 5000, "corpus_accessor_comparisons": 5000}
    for k, v in need.items():
        if c.get(k, 0) < v:
            inc.append(f"{k} = {c.get(k, 0)} < {v}")
    for r in ("attr-sizes-sum", "attr-size-negative", "attr-size-optional", "attr-size-single", "attr-sizes-length",
              "same-size-indivisible", "same-size-optional", "count", "constraint", "prop-undeclared", "prop-missing",
              "single-block", "entry-args"):
        if c.get("reject_reason:" + r, 0) < 10:
            inc.append(f"reject reason {r} reached only {c.get('reject_reason:' + r, 0)} times")
    accs = agg.sets.get("accessor_classes", set())
    for a in ("BeforeVariadicSingleAccessor", "AfterVariadicSingleAccessor", "SameOptionalAccessor",
              "UniqueVariadicAccessor", "SameVariadicAccessor", "SameVariadicSingleAccessor", "SingleAttrAccessor",
              "VariadicAttrAccessor", "OptionalAttrAccessor"):
        if a not in accs:
            inc.append(f"accessor class {a} never generated")
    return {"inconclusive": inc, "coverage": {"accessor_classes": sorted(accs)}}
