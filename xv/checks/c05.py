"""C05 - Custom assembly formats round-trip for every registered operation.

Reference-model differential monitor: a verified module is printed with every operation in its custom
(declarative or hand-written) format, parsed in a fresh Context and compared through the independent canonical
form xv.canon with the original (and with the generic round trip of the same module when the generic form is
itself lossy for it - those differences belong to C04/C06 and are counted, not reported).

Workloads (xv.c05_gen): every verified corpus module as parsed; the same module after a generic print/parse
(generic-form input printed in custom form); and mutation rounds that move every operation instance along the
dimensions custom formats are sensitive to - optional properties/attributes dropped or added, default-valued
properties made explicit / changed / removed, discardable attributes added to the attr-dict, inherent
attributes moved into the attribute dictionary, variadic operand groups resized (0/1/3), optional operands
dropped or added.  Only mutants that verify are evaluated.

Mechanism keys: a failing module is re-printed with the custom format enabled for ONE operation name at a time
(everything else generic); the names whose isolated custom print reproduces a failure are the culprits and the
key is `custom:<op name>:<component>[:<attribute key>:<gained|dropped|changed>]` (component = operands / results
/ properties / attributes / successors / regions from a synchronised walk) or
`custom:<op name>:reparse-fail:<parser production>` / `custom:<op name>:print-crash:<exception>:<function>`."""
from __future__ import annotations

import random
import re

from xv.harness import shash

ID = "C05"
LEVEL = "exploration"
RULE = ("every op instance of every parseable+verifying chunk of tests/**/*.mlir and docs/**/*.mlir printed in custom form "
        "(as parsed, and after a generic print/parse), plus verifying mutants of those instances: optional "
        "property/attribute dropped or added, default-valued property explicit/changed/removed, extra discardable "
        "attributes, inherent attribute moved to the attribute dictionary, variadic operand group resized to 0/1/3, "
        "optional operand dropped/added. Non-trivial = instance of an operation that has a custom format; distinct by "
        "(op name, optional-group signature: operand/result group sizes, present property keys with default marker, "
        "declared attribute keys, number of extra attributes, region and successor counts)")
LEVEL_TEXT = ("Each explored module is printed with custom formats, re-parsed in a fresh context and compared with the "
              "original and with its generic round trip through an independent canonical form; failures are attributed to "
              "one operation by re-printing with a single custom format enabled; held = no explored operation instance "
              "failed to re-parse or re-parsed to different IR, other than the listed known findings.")
LEVEL_NOTE = ("trusts xv.canon, Operation.verify as the membership test of the domain (mutants that do not verify are "
              "discarded), the corpus harvester and CPython; operations that never occur in the corpus are not reached")
TECHNIQUE = "reference-model differential monitor (canonical form of custom round trip vs original and vs generic round trip) with single-operation isolation"
ENGINES = ["harness", "canon", "corpus"]
ASSUMPTIONS = ["xv.canon captures exactly the equivalence of the property statement (two normalisations)",
               "Operation.verify accepts exactly the IR the property quantifies over",
               "attributing a module-level failure by enabling one custom format at a time is sound because formats of different operations do not interact except through nesting (checked: the module must round-trip once the culprits are printed generically)"]
JOB_TIMEOUT = {"quick": 900, "thorough": 7200}

_OPNAME = re.compile(r"\b([a-z_][a-z0-9_]*\.[A-Za-z0-9_.$]+)")


def _msg_class(msg: str) -> str:
    m = re.sub(r"'[^']*'|\"[^\"]*\"|`[^`]*`", "_", msg)
    m = re.sub(r"[%^@#!][\w$.\-]+", "_", m)
    m = re.sub(r"\d+", "N", m)
    return re.sub(r"\s+", " ", m).strip()[:60]


def _declared(op, key) -> bool:
    from xdsl.irdl import IRDLOperation
    if not isinstance(op, IRDLOperation):
        return True
    d = type(op).get_irdl_definition()
    return key in d.properties or key in d.attributes


def culprit_key(name: str, s: dict, op=None, label=None) -> str:
    """Mechanism key. Canonical differences: (op, component, attribute key, gained|dropped|changed). Failures to
    print / re-parse: the mutation that, when undone, removes the failure (`after-<kind>:<target>`) when there is one
    (the parser production that happens to reject depends on the attribute VALUE chosen, so it is not part of the
    key then), else the parser production / raising function."""
    sym = s["symptom"]
    if sym == "canon-differs":
        k = f"custom:{name}:{s.get('component')}"
        if "key" in s:
            akey = s["key"]
            if op is not None and not _declared(op, akey):
                akey = "<discardable>"  # attribute the op does not declare: the name is the harness' choice, not a mechanism
            k += f":{akey}:{s.get('detail')}"
            if s.get("value_class"):
                k += f":{s['value_class']}"
        if s.get("op") != name:
            k += f"@{s.get('op')}"
        return k
    if sym in ("print-crash", "reparse-crash"):
        tail = f"after-{label}" if label else f"{s.get('site')}"
        return f"custom:{name}:{sym}:{s.get('exc')}:{tail}"
    if sym == "reparse-fail":
        return f"custom:{name}:reparse-fail:" + (f"after-{label}" if label else f"{s.get('site')}")
    return f"custom:{name}:{sym}"


def mutation_label(a) -> str:
    """kind:target with harness-chosen details removed (extra attribute names, group sizes)."""
    t = a.target
    if a.kind == "extra_attrs":
        t = "<discardable>"
    elif ":" in t:
        t = t.split(":")[0]
    return f"{a.kind}:{t}"


N_ROUNDS = 10  # K: mutation rounds per module in the universe (12 mutation kinds rotate over the instances of an op; 10 rounds)


def quick_rounds(seed):
    """The two rounds of the universe a quick run executes: VERIF_SEED only SELECTS, it never parameterises a case."""
    r1 = seed % N_ROUNDS
    r2 = (r1 + 1 + (seed // N_ROUNDS) % (N_ROUNDS - 1)) % N_ROUNDS
    return sorted({r1, r2})



# --------------------------------------------------------------------------- directed part of the universe
# Fixed, seed-independent generic-form modules for shapes no corpus instance has (and that in-situ mutation reaches only
# when the corpus happens to contain a suitable instance): per-element attribute arrays filled on a strict subset of
# the arguments / results of function-like ops, and cf.switch whose cases forward different numbers of operands.
def _func_like(opname, n_args, n_res, arg_attrs, res_attrs, ret, tys=("i32", "i64", "f32", "index")):
    tys = list(tys) * 4
    ins = [tys[i % 4] for i in range(n_args)]
    outs = [ins[i % max(1, n_args)] if n_args else "i32" for i in range(n_res)]
    props = [f"function_type = ({', '.join(ins)}) -> ({', '.join(outs)})", 'sym_name = "g"']
    if arg_attrs is not None:
        props.append(f"arg_attrs = {arg_attrs}")
    if res_attrs is not None:
        props.append(f"res_attrs = {res_attrs}")
    args = ", ".join(f"%a{i}: {t}" for i, t in enumerate(ins))
    rv = ", ".join(f"%a{i % max(1, n_args)}" for i in range(n_res))
    return ('"builtin.module"() ({\n  "%s"() <{%s}> ({\n  ^bb0(%s):\n    "%s"(%s) : (%s) -> ()\n  }) : () -> ()\n}) : () -> ()'
            % (opname, ", ".join(props), args, ret, rv, ", ".join(outs)))


def _switch(default_count, case_counts):
    tys = ["f32", "i64", "index", "f64", "i8", "i16"]
    total = default_count + sum(case_counts)
    at = [tys[i % 6] for i in range(total)]
    counts = [default_count, *case_counts]
    blocks, pos = [], 0
    for bi, n in enumerate(counts):
        sig = ", ".join(f"%b{bi}_{j}: {at[pos + j]}" for j in range(n))
        blocks.append(f"  ^bb{bi + 1}" + (f"({sig})" if n else "") + ':\n    "func.return"() : () -> ()')
        pos += n
    props = ["case_operand_segments = array<i32" + (": " + ", ".join(map(str, case_counts)) if case_counts else "") + ">"]
    if case_counts:
        props.append(f"case_values = dense<[{', '.join(str(40 + i) for i in range(len(case_counts)))}]> : vector<{len(case_counts)}xi32>")
    props.append(f"operandSegmentSizes = array<i32: 1, {default_count}, {sum(case_counts)}>")
    ops = ", ".join(["%flag", *(f"%v{i}" for i in range(total))])
    return ('"builtin.module"() ({\n  "func.func"() <{function_type = (%s) -> (), sym_name = "sw"}> ({\n  ^bb0(%s):\n'
            '    "cf.switch"(%s)[%s] <{%s}> : (%s) -> ()\n%s\n  }) : () -> ()\n}) : () -> ()'
            % (", ".join(["i32", *at]), ", ".join(["%flag: i32", *(f"%v{i}: {t}" for i, t in enumerate(at))]), ops,
               ", ".join(f"^bb{i + 1}" for i in range(len(counts))), ", ".join(props), ", ".join(["i32", *at]), "\n".join(blocks)))


def directed_cases():
    out = []
    A, B, C, E = "{test.a = 1 : i32}", "{test.b}", "{test.c = 2 : i64}", "{}"
    shapes = {"full": [A, B, C], "first-only": [A, E, E], "last-only": [E, E, B], "middle-empty": [A, E, C], "all-empty": [E, E, E]}
    for opname, ret, tys in (("func.func", "func.return", ("i32", "i64", "f32", "index")),
                             ("csl.func", "csl.return", ("i32", "i16", "f32", "f16"))):  # the backend *_func.func ops take no such arrays
        for shape, elems in shapes.items():
            out.append((f"{opname}:res_attrs:{shape}", _func_like(opname, 1, 3, None, "[" + ", ".join(elems) + "]", ret, tys)))
            out.append((f"{opname}:arg_attrs:{shape}", _func_like(opname, 3, 1, "[" + ", ".join(elems) + "]", None, ret, tys)))
    out.append(("dense-array:negative-elements",
                '"builtin.module"() ({\n  %a, %b, %c = "test.op"() : () -> (vector<2xf32>, vector<2xf32>, vector<4xi32>)\n'
                '  %0 = "vector.shuffle"(%a, %b) <{mask = array<i64: 0, 3>}> : (vector<2xf32>, vector<2xf32>) -> vector<2xf32>\n'
                '  %1 = "vector.shuffle"(%a, %b) <{mask = array<i64: 1, -1, 2>}> : (vector<2xf32>, vector<2xf32>) -> vector<3xf32>\n'
                '  %2 = "llvm.shufflevector"(%c, %c) <{mask = array<i32: 0, 5>}> : (vector<4xi32>, vector<4xi32>) -> vector<2xi32>\n'
                '  %3 = "llvm.shufflevector"(%c, %c) <{mask = array<i32: -1, 7, -1, 0>}> : (vector<4xi32>, vector<4xi32>) -> vector<4xi32>\n'
                '}) : () -> ()'))
    for name, (dc, cc) in {"uniform-1": (1, [1, 1, 1]), "uniform-2": (0, [2, 2]), "1-2": (0, [1, 2]), "0-2": (1, [0, 2]),
                           "2-0-1": (1, [2, 0, 1]), "1-2-1": (0, [1, 2, 1]), "default-only": (1, [])}.items():
        out.append((f"cf.switch:{name}", _switch(dc, cc)))
    return out


def plan(tier, seed):
    """The universe of cases is FIXED and seed-independent: for every verified corpus module and every round r in
    range(N_ROUNDS) one mutant state, in which each op instance receives the mutation kind given by the rotation
    (instance number of that op name in the shard + r) and the parameters (which pool attribute, which optional
    target, which operand) given by a PRNG seeded with (corpus chunk, r) only. 32 shards in both tiers (the instance
    numbering is per shard). thorough = the whole universe; quick = the base states plus the two rounds selected by
    VERIF_SEED, i.e. a subset of the universe, so a quick run cannot reach a mechanism key the thorough run does not."""
    import os
    n = 32
    scale = float(os.environ.get("XV_SCALE", "1"))  # self-tests with mutants only: a fraction of the corpus
    rounds = quick_rounds(seed) if tier == "quick" else list(range(N_ROUNDS))
    return [{"kind": "directed"}] + [{"kind": "corpus", "i": i, "n": n, "seed": seed, "rounds": rounds, "stride": max(1, round(1 / scale))}
                                     for i in range(n)]


def work(job):
    from xv import corpus
    from xv.c04_rt import all_diff_op_names, op_text, roundtrip, selective_printer
    from xv.c05_gen import MUTATIONS, Pool, dense_negative, has_custom_format, is_declarative, mutate_op, op_signature, op_verifies
    from xv.worker import journal

    res = {"evaluations": 0, "nontrivial": [], "samples": [], "counters": {}, "sets": {}, "violations": [], "extra": {}}
    C = res["counters"]
    sets: dict[str, set] = {}
    nt: set[str] = set()
    SP = selective_printer()

    def bump(k, n=1):
        C[k] = C.get(k, 0) + n

    seen_keys: dict[str, int] = {}

    def viol(key, summary, witness):
        seen_keys[key] = seen_keys.get(key, 0) + 1
        bump("violating_observations")
        if seen_keys[key] <= 2:
            res["violations"].append({"key": key, "summary": summary[:400], "witness": witness})

    def custom_names(m):
        names, seen = [], set()
        for op in m.walk():
            if has_custom_format(op) and op.name not in seen:
                seen.add(op.name)
                names.append(op.name)
        return names

    def observe(m):
        for op in m.walk():
            if has_custom_format(op):
                bump("op_instances_printed_in_custom_form")
                sets.setdefault("custom_format_ops_exercised", set()).add(op.name)
                if is_declarative(op):
                    sets.setdefault("declarative_format_ops_exercised", set()).add(op.name)
                nt.add(shash(op_signature(op)))
            else:
                bump("op_instances_without_custom_format")

    def mg_ok(x):
        return x is not None

    def find_instance(m, name, s):
        for op in m.walk():
            if op.name == name:
                return op
        return None

    current_mutations: dict[str, list] = {}
    current_applied: list = []

    def sig(s):
        if s["symptom"] == "canon-differs":
            return ("canon-differs", s.get("op"), s.get("component"), s.get("key"), s.get("detail") if "key" in s else None)
        return (s["symptom"], s.get("exc"), s.get("site"), _msg_class(s.get("msg", "")))

    def guesses_from(symptoms, names):
        out = []
        for s in symptoms:
            if s.get("op") in names:
                out.append(s["op"])
            w = s.get("where") or {}
            for g in _OPNAME.findall(w.get("line", "")):
                if g in names:
                    out.append(g)
        return list(dict.fromkeys(out))

    def attribute(m, ctx, first, reference, case_id, state, replay_job, generic_sigs, first_r=None):
        """Single-operation isolation: print with ONE custom format enabled; the next candidate is guessed from the
        symptoms that remain once the culprits found so far are printed generically."""
        names = custom_names(m)
        remaining = list(names)
        culprits = []
        current = first

        def run(custom):
            bump("isolation_roundtrips")
            r = roundtrip(m, ctx, False, reference=reference, check_clone=False, check_text=False,
                          printer_cls=SP, printer_kw={"custom_names": frozenset(custom)})
            r["symptoms"] = [s for s in r["symptoms"] if sig(s) not in generic_sigs]
            return r
        # fast path for pure canonical differences: every op that differs in a synchronised walk (or one of its
        # ancestors) is a candidate; isolate each once, then check the rest once
        if all(s["symptom"] == "canon-differs" for s in first) and first_r is not None and first_r["m2"] is not None:
            ref_mod, ref_tab = (reference[1], reference[2]) if reference is not None else (m, None)
            tested = set()
            for chain in all_diff_op_names(ref_mod, first_r["m2"], ref_tab, first_r["tab2"]):
                for name in chain:  # the differing op itself, else the closest ancestor whose format reproduces it
                    if name in tested:
                        if any(name == c for c, _ in culprits):
                            break
                        continue
                    if name not in remaining:
                        continue
                    tested.add(name)
                    r = run([name])
                    if r["symptoms"]:
                        culprits.append((name, r))
                        remaining.remove(name)
                        break
            if culprits:
                current = run(remaining)["symptoms"]
        while current and remaining:
            g = [n for n in guesses_from(current, names) if n in remaining]
            order = g + [n for n in remaining if n not in g]
            found = None
            for name in order:
                r = run([name])
                if r["symptoms"]:
                    found = (name, r)
                    break
            if found is None:
                break
            culprits.append(found)
            remaining.remove(found[0])
            rr = run(remaining)
            current = rr["symptoms"]
        if not culprits or current:
            for s in (current or first):
                viol(f"custom:<no single operation>:{s['symptom']}:{s.get('component') or s.get('site')}",
                     f"{case_id} [{state}] fails only with several custom formats enabled: {s}",
                     {"case": case_id, "state": state, "symptom": s, "replay_job": replay_job})
        for name, r in culprits:
            label = None
            hard = [s for s in r["symptoms"] if s["symptom"] != "canon-differs"]
            mine = [a for a in current_applied if a.op_name == name and not getattr(a, "undone", False)]
            if hard and mine:
                # which mutation of this operation is responsible? undo them label by label and re-run the isolation
                labels = list(dict.fromkeys(mutation_label(a) for a in mine))
                hard_sigs = {sig(x) for x in hard}
                for lb in labels:
                    for a in reversed([a for a in mine if mutation_label(a) == lb]):
                        a.undo()
                        a.undone = True
                    if not ({sig(x) for x in run([name])["symptoms"]} & hard_sigs):
                        label = lb
                        break
            for s in r["symptoms"]:
                inst = find_instance(m, name, s)
                dop = find_instance(m, s.get("op"), s) if s.get("op") and s.get("op") != name else inst
                key = culprit_key(name, s, dop, label if s["symptom"] != "canon-differs" else None)
                wit = {"case": case_id, "state": state, "operation": name, "symptom": {k: v for k, v in s.items()},
                       "mutations_applied_to_this_op_in_the_module": sorted(set(current_mutations.get(name, [])))[:10],
                       "custom_text_of_first_instance": op_text(inst, generic=False, limit=600) if inst is not None else None,
                       "generic_text_of_first_instance": op_text(inst, generic=True, limit=600) if inst is not None else None,
                       "replay_job": dict(replay_job, only_state=state)}
                viol(key, f"{name}: {s['symptom']} {({k: v for k, v in s.items() if k not in ('symptom', 'where')})} ({case_id} [{state}])", wit)
        return len(culprits)

    def evaluate(m, ctx, case_id, state, replay_job, g=None):
        """Custom round trip of the current state of `m`; `g` = generic round trip of the same state if the caller has
        it (computed lazily otherwise, only when the custom round trip shows symptoms)."""
        res["evaluations"] += 1
        bump(f"modules_evaluated:{state.split(':')[0]}")
        observe(m)
        journal(f"{case_id} [{state}]")
        r = roundtrip(m, ctx, False, check_clone=False, check_text=False)
        if not r["symptoms"]:
            bump("custom_roundtrips_ok")
            return True
        if g is None:
            g = roundtrip(m, ctx, True, check_clone=False, check_text=False)
            bump("lazy_generic_roundtrips")
        generic_sigs = {sig(s) for s in g["symptoms"]}
        mine = [s for s in r["symptoms"] if sig(s) not in generic_sigs]
        if len(mine) < len(r["symptoms"]):
            bump("symptoms_shared_with_generic_form(C04/C06 domain, not reported)", len(r["symptoms"]) - len(mine))
        reference = None
        if g["m2"] is not None and g["canon2"] != r["canon"]:
            # the generic form is itself lossy for this module: compare the custom form with the generic round trip
            reference = (g["canon2"], g["m2"], g["tab2"])
            bump("generic_round_trip_used_as_reference(generic form lossy)")
            if r["canon2"] is not None and r["canon2"] == g["canon2"]:
                mine = [s for s in mine if s["symptom"] != "canon-differs"]
        if not mine:
            bump("custom_roundtrips_ok")
            return True
        bump("custom_roundtrips_with_symptoms")
        attribute(m, ctx, mine, reference, case_id, state, replay_job, generic_sigs, r)
        return False

    kind = job["kind"]
    if kind == "directed":
        from xdsl.parser import Parser
        for name, text in directed_cases():
            if job.get("only") and job["only"] != name:
                continue
            ctx = corpus.new_ctx()
            try:
                m = Parser(ctx, text, "<directed>").parse_module()
                m.verify()
            except Exception:  # noqa: BLE001 - this function-like op does not accept the shape: outside the domain
                bump("directed_cases_not_parse+verify(skipped)")
                continue
            bump("directed_cases")
            g = roundtrip(m, ctx, True, check_clone=False, check_text=False)
            evaluate(m, ctx, f"directed:{name}", "directed", {"kind": "directed", "only": name}, g)
            if name == "cf.switch:1-2-1":
                res["samples"].append({"directed_case": name, "generic_ir": text})
        if not job.get("only") or job["only"] == "xvfmt:else-groups":
            # harness-defined declarative-format ops with ELSE groups (no registered op has one), both branches taken
            from xv import c04_rt
            from xv.c05_gen import format_test_module
            dialect, m = format_test_module()
            m.verify()
            ctx = corpus.new_ctx()
            ctx.load_dialect(dialect)
            c04_rt.EXTRA_DIALECTS.append(dialect)
            try:
                bump("directed_cases")
                g = roundtrip(m, ctx, True, check_clone=False, check_text=False)
                evaluate(m, ctx, "directed:xvfmt:else-groups", "directed", {"kind": "directed", "only": "xvfmt:else-groups"}, g)
            finally:
                c04_rt.EXTRA_DIALECTS.remove(dialect)
        res["nontrivial"] = sorted(nt)
        res["sets"] = {k: sorted(v) for k, v in sets.items()}
        return res
    chs = corpus.chunks()
    if kind != "corpus":
        raise ValueError(kind)
    chs = corpus.shard(chs, job["i"], job["n"])[:: job.get("stride", 1)]
    # replay of one finding: the whole shard is walked (the rotation of mutation kinds and the attribute pool depend
    # on the modules that precede the target) but only the target module / state is evaluated
    only_case = job.get("only")
    only_state = job.get("only_state")
    mods = []
    pool = Pool()
    for f, i, ch in chs:
        pv = corpus.parse_verified(ch, f)
        if pv is None:
            bump("corpus_chunks_not_parse+verify")
            continue
        mods.append((f, i, ch, pv[0], pv[1]))
        pool.harvest(pv[1])
    pool.base()
    C["pool_attributes"] = len(pool.all)
    inst_counter: dict[str, int] = {}
    extra_count: dict[tuple, int] = {}
    EXTRA_CAP = 3

    for f, i, ch, ctx, m in mods:
        case_id = f"{f}#{i}"
        rj = {k: v for k, v in job.items() if k not in ("only", "only_state")}
        rj["only"] = case_id
        skip = only_case is not None and only_case != case_id
        # --- base state: as parsed from the corpus (custom parsers ran)
        g = roundtrip(m, ctx, True, check_clone=False, check_text=False) if not skip else {"m2": None, "symptoms": [], "canon": None}
        gfail = g["m2"] is None
        if gfail:
            bump("generic_form_not_reparseable(C04 domain)")
        if only_state in (None, "as-parsed") and not skip:
            evaluate(m, ctx, case_id, "as-parsed", rj, g)
        # --- generic-form input printed in custom form
        mg = None
        if not skip and not gfail and g["m2"] is not None and only_state in (None, "from-generic"):
            mg = g["m2"]
            from xv.canon import canon_ir
            from xv.c04_rt import resolve_resources
            if resolve_resources(canon_ir(m, normalise=False), {}) == resolve_resources(canon_ir(mg, normalise=False), {}):
                # the generic parser built exactly what the custom parsers built: the custom print is the same text
                bump("from_generic_identical_to_as_parsed(not re-evaluated)")
                mg = None
        if mg_ok(mg):
            try:
                mg.verify()
            except Exception:  # noqa: BLE001 - C04's business
                bump("generic_reparse_does_not_verify(C04 domain)")
            else:
                evaluate(mg, g["ctx2"], case_id, "from-generic", rj, None)
        if len(res["samples"]) < 1 and not skip:
            res["samples"].append({"corpus_chunk": case_id, "custom_format_ops": custom_names(m)[:12]})
        # --- mutation rounds: every op instance receives ONE mutation per round; the kind rotates with the instance
        #     number of that op name and the round, so that all (op, kind, target) combinations get visited
        local_count: dict[str, int] = {}
        for rnd in job["rounds"]:
            state = f"mutant:r{rnd}"
            skip_eval = skip or (only_state is not None and only_state != state)
            rng = random.Random(shash(("C05-universe", case_id, rnd)))  # never the seed: the case is a function of (chunk, r)
            applied = []
            local_count = {}
            for op in list(m.walk()):
                if not has_custom_format(op) or op.parent is None:
                    continue
                k = local_count.get(op.name, 0)
                local_count[op.name] = k + 1
                g_k = inst_counter.get(op.name, 0) + k + rnd
                for off in range(len(MUTATIONS)):
                    mk = MUTATIONS[(g_k + off) % len(MUTATIONS)]
                    if mk == "extra_attrs":
                        # applicable to every op: cap per op name, round and shard, so that formats that lose the
                        # attr-dict do not make every single module fail (each failure costs isolation round trips)
                        if extra_count.get((op.name, rnd), 0) >= EXTRA_CAP:
                            continue
                        extra_count[(op.name, rnd)] = extra_count.get((op.name, rnd), 0) + 1
                    a = mutate_op(op, mk, rng, pool, g_k // len(MUTATIONS) + off)
                    if a is not None:
                        applied.append(a)
                        break
            if not applied:
                continue
            if skip_eval:
                for a in reversed(applied):
                    a.undo()
                continue
            # a combination may break a cross-op constraint (symbol uses, parent/terminator rules): give back half of
            # the mutations until the module is inside the domain again
            while applied and not op_verifies(m, nested=True):
                half = applied[len(applied) // 2:]
                for a in reversed(half):
                    a.undo()
                applied = applied[:len(applied) // 2]
                bump("op_mutations_given_back_to_restore_verification", len(half))
            if not applied:
                bump("mutation_rounds_not_verifying(skipped)")
            else:
                for a in applied:
                    bump(f"mutations_applied:{a.kind}")
                    sets.setdefault(f"ops_mutated:{a.kind}", set()).add(a.op_name)
                if len(res["samples"]) < 3:
                    res["samples"].append({"mutant_of": case_id, "mutations": [f"{a.op_name}:{a.kind}:{a.target}" for a in applied[:8]]})
                by_op: dict[str, list] = {}
                for a in applied:
                    by_op.setdefault(a.op_name, []).append(f"{a.kind}:{a.target}")
                current_mutations.clear()
                current_mutations.update(by_op)
                current_applied[:] = applied
                evaluate(m, ctx, case_id, state, rj, None)
                current_mutations.clear()
                current_applied[:] = []
            for a in reversed(applied):
                if not getattr(a, "undone", False):
                    a.undo()
        # --- fixed addition (every tier): one element of each signless dense-array property of a declarative-format op
        #     becomes -1 where the verifier allows it
        if not skip and only_state in (None, "mutant:dense-neg"):
            applied = [a for a in (dense_negative(op) for op in list(m.walk()) if op.parent is not None) if a is not None]
            while applied and not op_verifies(m, nested=True):
                half = applied[len(applied) // 2:]
                for a in reversed(half):
                    a.undo()
                applied = applied[:len(applied) // 2]
            if applied:
                for a in applied:
                    bump("mutations_applied:dense_negative")
                    sets.setdefault("ops_mutated:dense_negative", set()).add(a.op_name)
                current_mutations.clear()
                for a in applied:
                    current_mutations.setdefault(a.op_name, []).append(f"{a.kind}:{a.target}")
                current_applied[:] = applied
                evaluate(m, ctx, case_id, "mutant:dense-neg", rj, None)
                current_mutations.clear()
                current_applied[:] = []
                for a in reversed(applied):
                    if not getattr(a, "undone", False):
                        a.undo()
        if not job["rounds"]:
            for op in m.walk():
                if has_custom_format(op) and op.parent is not None:
                    local_count[op.name] = local_count.get(op.name, 0) + 1
        # the instance numbering advances by the module's op counts, whatever rounds were executed
        for nme, k in local_count.items():
            inst_counter[nme] = inst_counter.get(nme, 0) + k
        if job["rounds"] and only_state is None and not skip:
            # the undo machinery must leave the module as it was (harness self-check: a bug here crashes the shard)
            from xv.c04_rt import canon_module
            if canon_module(m) != g["canon"]:
                raise AssertionError(f"mutation undo did not restore {case_id}")
    res["nontrivial"] = sorted(nt)
    res["sets"] = {k: sorted(v) for k, v in sets.items()}
    return res


def finish(agg, tier):
    inc = []
    c = agg.counters
    need = {"directed_cases": 20, "modules_evaluated:as-parsed": 700, "modules_evaluated:mutant": 1000,
            "op_instances_printed_in_custom_form": 30000, "custom_roundtrips_ok": 1000}
    for k, v in need.items():
        if c.get(k, 0) < v:
            inc.append(f"monitor reach too low: {k}={c.get(k, 0)} < {v}")
    fg = c.get("modules_evaluated:from-generic", 0) + c.get("from_generic_identical_to_as_parsed(not re-evaluated)", 0)
    if fg < 700:
        inc.append(f"generic-form inputs considered: {fg} < 700")
    nd = len(agg.sets.get("declarative_format_ops_exercised", ()))
    ncu = len(agg.sets.get("custom_format_ops_exercised", ()))
    if nd < 600:
        inc.append(f"only {nd} declarative-format operations exercised")
    for mk, lo in (("drop_opt", 200), ("add_opt", 1000), ("default_explicit", 100), ("default_changed", 300), ("extra_attrs", 3000),
                   ("var_grow", 20), ("var_shrink", 20)):
        if c.get(f"mutations_applied:{mk}", 0) < lo:
            inc.append(f"mutation {mk} applied only {c.get(f'mutations_applied:{mk}', 0)} times (< {lo})")
    return {"inconclusive": inc,
            "coverage": {"declarative_format_ops_exercised": nd, "custom_format_ops_exercised": ncu,
                         "ops_reached_per_mutation": {k.split(":", 1)[1]: len(v) for k, v in agg.sets.items() if k.startswith("ops_mutated:")},
                         "excluded": {k: v for k, v in c.items() if "skipped" in k or "not_" in k or "domain" in k}}}
