"""C12 - Worklist, union-find and scoped dictionary follow their abstract models.

History + executable model: every call of every enumerated / random operation sequence is replayed on
a tiny reference model and the return value (or exception class) compared; icontract class invariants
on the real Worklist / IntDisjointSet are evaluated at every public call as well."""
from __future__ import annotations

import itertools
import random

from xv.harness import shash

ID = "C12"
LEVEL = "exploration"
RULE = ("exhaustive enumeration of all operation sequences up to the stated length over a small universe "
        "(worklist: 8 op kinds x 3 items; union-find: union/union_left/connected/find over 4 elements, both "
        "classes; scoped dict: all assignments of 3 scopes x 2 keys x {unset,None,0,'',1,False}) plus random long "
        "histories; a sequence is non-trivial if it contains >=1 state-changing call and >=1 observed return; "
        "distinct = distinct sequences (counted, exhaustive shards are disjoint by construction)")
ASSUMPTIONS = ["reference models (python list / dict-of-sets / list-of-dicts) are correct",
               "CPython semantics"]
LEVEL_TEXT = ("Every call of every operation sequence up to the stated bound (exhaustive) and of long random histories "
              "is compared with an executable abstract model, with icontract class invariants evaluated on the real "
              "objects at each call; held = no call disagreed on the sequences explored.")
LEVEL_NOTE = "trusts the three reference models (list, dict of frozensets, list of dicts), icontract and CPython"
TECHNIQUE = "history + executable model (call-by-call differential) with icontract class invariants; bounded-exhaustive sequences"
ENGINES = ["harness", "models"]
JOB_TIMEOUT = {"quick": 900, "thorough": 7200}

U = [0, 1, 2]
WL_OPS = [("push", x) for x in U] + [("remove", x) for x in U] + [("pop", None), ("bool", None)]
E = [0, 1, 2, 3]
DS_OPS = [(k, a, b) for k in ("union", "union_left", "connected") for a in E for b in E] + \
         [("find", a, None) for a in E]
SD_VALS = [None, 0, "", 1, False]
SD_KEYS = ["k1", "k2"]
SD_CHOICES = [("unset",)] + [("set", v) for v in SD_VALS]


class InvariantBroken(Exception):
    pass


_inv_evals = {"worklist": 0, "dsu": 0}


def _install_invariants():
    """icontract class invariants on the real classes (checked around every public method call)."""
    import icontract
    from xdsl.utils import worklist as wlmod
    from xdsl.utils import disjoint_set as dsmod

    missing = wlmod._MISSING

    def worklist_map_indexes_stack(self) -> bool:
        _inv_evals["worklist"] += 1
        st, mp = self._stack, self._map
        for item, idx in mp.items():
            if not (0 <= idx < len(st)) or st[idx] is not item and st[idx] != item:
                return False
        live = [x for x in st if x is not missing]
        return len(live) == len(mp) and len(set(map(id, live))) == len(live)

    def dsu_forest_is_wellformed(self) -> bool:
        _inv_evals["dsu"] += 1
        par, cnt = self._parent, self._count
        n = len(par)
        if len(cnt) != n:
            return False
        size = {}
        for i in range(n):
            r, steps = i, 0
            while par[r] != r:
                if not (0 <= par[r] < n):
                    return False
                r = par[r]
                steps += 1
                if steps > n:
                    return False  # cycle
            size[r] = size.get(r, 0) + 1
        return all(cnt[r] == s for r, s in size.items())

    wl = icontract.invariant(worklist_map_indexes_stack, error=InvariantBroken)(wlmod.Worklist)
    ds = icontract.invariant(dsu_forest_is_wellformed, error=InvariantBroken)(dsmod.IntDisjointSet)
    return wl, ds


# ------------------------------------------------------------------ worklist
def run_wl(Worklist, seq):
    w = Worklist()
    model: list = []
    for i, (op, x) in enumerate(seq):
        if op == "push":
            w.push(x)
            if x not in model:
                model.append(x)
        elif op == "remove":
            w.remove(x)
            if x in model:
                model.remove(x)
        elif op == "pop":
            try:
                got = w.pop()
            except IndexError:
                got = "IndexError"
            want = model.pop() if model else "IndexError"
            if got != want:
                return f"pop#{i} returned {got!r}, model {want!r}"
        else:
            if bool(w) != bool(model):
                return f"bool#{i} returned {bool(w)}, model {bool(model)}"
    # drain: the remaining content must come out in LIFO order
    while model:
        try:
            got = w.pop()
        except IndexError:
            got = "IndexError"
        want = model.pop()
        if got != want:
            return f"drain pop returned {got!r}, model {want!r}"
    if bool(w):
        return "worklist non-empty after drain"
    return None


# ------------------------------------------------------------------ union-find
def run_ds(IntDS, DS, seq, generic, n=4):
    names = [f"e{i}" for i in range(n)]
    d = DS(names) if generic else IntDS(size=n)
    conv = (lambda i: names[i]) if generic else (lambda i: i)
    back = (lambda r: names.index(r)) if generic else (lambda r: r)
    find = (lambda i: back(d.find(conv(i)))) if generic else (lambda i: d[i])
    part = {i: frozenset([i]) for i in range(n)}
    for step, (k, a, b) in enumerate(seq):
        if k in ("union", "union_left"):
            rep_before = find(a)
            got = getattr(d, k)(conv(a), conv(b))
            want = part[a] != part[b]
            if got is not want:
                return f"{k}#{step} returned {got!r}, model {want!r}"
            if want:
                m = part[a] | part[b]
                for x in m:
                    part[x] = m
            if k == "union_left" and find(a) != rep_before:
                return f"union_left#{step} changed the left representative"
        elif k == "connected":
            got = d.connected(conv(a), conv(b))
            if got is not (part[a] == part[b]):
                return f"connected#{step} returned {got!r}"
        elif k == "add":
            if generic:
                names.append(f"e{n}")
                d.add(names[-1])
            else:
                r = d.add()
                if r != n:
                    return f"add returned {r} want {n}"
            part[n] = frozenset([n])
            n += 1
        else:
            r = find(a)
            if r not in part[a]:
                return f"find#{step} returned non-member {r}"
        reps = [find(x) for x in range(n)]
        for x in range(n):
            if reps[x] not in part[x]:
                return f"after step {step}: representative of {x} not in its class"
            for y in range(x + 1, n):
                if (reps[x] == reps[y]) != (part[x] == part[y]):
                    return f"after step {step}: partition mismatch at ({x},{y})"
        roots = sorted(back(r) for r in d.roots())
        if roots != sorted(set(reps)):
            return f"after step {step}: roots() {roots} != representatives {sorted(set(reps))}"
    return None


# ------------------------------------------------------------------ scoped dict
def _same(a, b):
    return a is b or (a == b and type(a) is type(b))


def run_sd(ScopedDict, assign):
    s0 = ScopedDict()
    s1 = ScopedDict(s0)
    s2 = ScopedDict(s1)
    scopes = [s0, s1, s2]
    model: list[dict] = [{}, {}, {}]
    for i, a in enumerate(assign):
        sc, k = divmod(i, 2)
        if a[0] == "set":
            scopes[sc][SD_KEYS[k]] = a[1]
            model[sc][SD_KEYS[k]] = a[1]
    for depth in range(3):
        for k in SD_KEYS:
            want = "MISSING"
            for sc in range(depth, -1, -1):
                if k in model[sc]:
                    want = model[sc][k]
                    break
            sd = scopes[depth]
            try:
                g1 = sd[k]
            except KeyError:
                g1 = "MISSING"
            if not _same(g1, want):
                return ("getitem", f"scope{depth}[{k}] gave {g1!r}, model {want!r}")
            w2 = "DEFAULT" if want == "MISSING" else want
            g2 = sd.get(k, "DEFAULT")
            if not _same(g2, w2):
                kind = "get-none-shadowed" if any(model[s].get(k, 1) is None and k in model[s]
                                                  for s in range(depth + 1)) else "get"
                return (kind, f"scope{depth}.get({k},'DEFAULT') gave {g2!r}, model {w2!r}")
            w3 = None if want == "MISSING" else want
            g3 = sd.get(k)
            if not _same(g3, w3):
                kind = "get-none-shadowed" if any(k in model[s] and model[s][k] is None
                                                  for s in range(depth + 1)) else "get"
                return (kind, f"scope{depth}.get({k}) gave {g3!r}, model {w3!r}")
            if (k in sd) != (want != "MISSING"):
                return ("contains", f"{k} in scope{depth} gave {k in sd}")
    return None


# ------------------------------------------------------------------ plan / work
def plan(tier, seed):
    jobs = []
    wl_len = 6 if tier == "quick" else 7
    ds_len = 3 if tier == "quick" else 4
    # worklist: shard on the first two ops (64 prefixes)
    for i, pre in enumerate(itertools.product(range(len(WL_OPS)), repeat=2)):
        jobs.append({"kind": "wl", "prefix": list(pre), "maxlen": wl_len})
    for g in (False, True):
        for first in range(len(DS_OPS)):
            jobs.append({"kind": "ds", "first": first, "maxlen": ds_len, "generic": g})
    for first in range(len(SD_CHOICES)):
        jobs.append({"kind": "sd", "first": first})
    nrand = 16 if tier == "quick" else 64
    for r in range(nrand):
        jobs.append({"kind": "rand", "seed": seed * 1000 + r, "steps": 10000 if tier == "quick" else 40000})
    return jobs


def work(job):
    wl_cls, ids_cls = _install_invariants()
    from xdsl.utils.disjoint_set import DisjointSet, IntDisjointSet
    from xdsl.utils.scoped_dict import ScopedDict
    from xdsl.utils.worklist import Worklist
    assert Worklist is wl_cls and IntDisjointSet is ids_cls
    res = {"evaluations": 0, "nontrivial": [], "samples": [], "counters": {}, "violations": []}
    C = res["counters"]
    nt = 0

    def viol(key, summary, witness):
        if len(res["violations"]) < 20:
            res["violations"].append({"key": key, "summary": summary, "witness": witness})
        C["violating_sequences"] = C.get("violating_sequences", 0) + 1

    kind = job["kind"]
    if kind == "wl":
        pre = [WL_OPS[i] for i in job["prefix"]]
        seqs = [pre[:1]] if job["prefix"][1] == 0 else []
        for L in range(2, job["maxlen"] + 1):
            seqs = itertools.chain(seqs, (pre + list(t) for t in itertools.product(WL_OPS, repeat=L - 2)))
        for seq in seqs:
            res["evaluations"] += 1
            try:
                r = run_wl(Worklist, seq)
            except InvariantBroken as e:
                r = "invariant: " + str(e).splitlines()[0]
            if any(o[0] in ("push",) for o in seq) and any(o[0] in ("pop", "bool") for o in seq):
                nt += 1
            if r:
                viol("worklist:" + r.split("#")[0].split(" ")[0], r, {"seq": seq, "replay_job": {"kind": "wl1", "seq": seq}})
        res["samples"].append({"worklist_sequence": seq})
        C["worklist_sequences"] = res["evaluations"]
    elif kind == "wl1":
        res["evaluations"] = 1
        r = run_wl(Worklist, [tuple(x) for x in job["seq"]])
        if r:
            viol("worklist:" + r.split("#")[0].split(" ")[0], r, {"seq": job["seq"]})
    elif kind == "ds":
        first = DS_OPS[job["first"]]
        g = job["generic"]
        for L in range(1, job["maxlen"] + 1):
            for t in itertools.product(DS_OPS, repeat=L - 1):
                seq = [first] + list(t)
                res["evaluations"] += 1
                try:
                    r = run_ds(IntDisjointSet, DisjointSet, seq, g)
                except InvariantBroken as e:
                    r = "invariant " + str(e).splitlines()[0]
                if any(o[0].startswith("union") and o[1] != o[2] for o in seq):
                    nt += 1
                if r:
                    viol(("DisjointSet:" if g else "IntDisjointSet:") + r.split("#")[0].split(" ")[0], r,
                         {"seq": seq, "generic": g})
        res["samples"].append({"unionfind_sequence": seq, "generic": g})
        C["unionfind_sequences"] = res["evaluations"]
    elif kind == "sd":
        first = SD_CHOICES[job["first"]]
        for rest in itertools.product(SD_CHOICES, repeat=5):
            assign = (first,) + rest
            res["evaluations"] += 1
            r = run_sd(ScopedDict, assign)
            if any(a[0] == "set" for a in assign):
                nt += 1
            if r:
                viol("ScopedDict:" + r[0], r[1], {"assign": [list(a) for a in assign]})
        res["samples"].append({"scoped_dict_assignment": [list(a) for a in assign]})
        C["scoped_dict_configs"] = res["evaluations"]
    elif kind == "rand":
        rng = random.Random(job["seed"])
        # long random histories over 50 items, all three structures
        items = list(range(50))
        seq = []
        for _ in range(job["steps"]):
            p = rng.random()
            seq.append(("push", rng.choice(items)) if p < .45 else ("remove", rng.choice(items)) if p < .6
                       else ("pop", None) if p < .9 else ("bool", None))
        res["evaluations"] += 1
        try:
            r = run_wl(Worklist, seq)
        except InvariantBroken as e:
            r = "invariant: " + str(e).splitlines()[0]
        if r:
            viol("worklist:" + r.split("#")[0].split(" ")[0], r, {"seed": job["seed"], "kind": "random worklist"})
        for g in (False, True):
            n = 12
            seq = []
            for _ in range(job["steps"] // 40):
                p = rng.random()
                a, b = rng.randrange(n), rng.randrange(n)
                if p < .08:
                    seq.append(("add", None, None))
                    n += 1
                else:
                    seq.append((rng.choice(["union", "union_left", "connected", "find"]), a, b))
            res["evaluations"] += 1
            try:
                r = run_ds(IntDisjointSet, DisjointSet, seq, g, n=12)
            except InvariantBroken as e:
                r = "invariant " + str(e).splitlines()[0]
            if r:
                viol(("DisjointSet:" if g else "IntDisjointSet:") + r.split("#")[0].split(" ")[0], r,
                     {"seed": job["seed"], "generic": g})
        # scoped dict random: deep chains, random writes, compare all lookup forms
        for _ in range(job["steps"] // 100):
            depth = rng.randint(1, 8)
            chain = [ScopedDict()]
            model = [{}]
            for _d in range(depth):
                chain.append(ScopedDict(chain[-1]))
                model.append({})
            keys = [f"k{i}" for i in range(5)]
            for _w in range(rng.randint(0, 12)):
                sc = rng.randrange(len(chain))
                k = rng.choice(keys)
                v = rng.choice(SD_VALS + [2, "x"])
                chain[sc][k] = v
                model[sc][k] = v
            res["evaluations"] += 1
            for sc in range(len(chain)):
                for k in keys:
                    want = "MISSING"
                    for s in range(sc, -1, -1):
                        if k in model[s]:
                            want = model[s][k]
                            break
                    w2 = "DEFAULT" if want == "MISSING" else want
                    g2 = chain[sc].get(k, "DEFAULT")
                    try:
                        g1 = chain[sc][k]
                    except KeyError:
                        g1 = "MISSING"
                    if not _same(g1, want) or (k in chain[sc]) != (want != "MISSING"):
                        viol("ScopedDict:getitem", f"deep chain lookup {k} gave {g1!r} want {want!r}", {"seed": job["seed"]})
                    if not _same(g2, w2):
                        none_inner = any(k in model[s] and model[s][k] is None for s in range(sc + 1))
                        viol("ScopedDict:get-none-shadowed" if none_inner else "ScopedDict:get",
                             f"deep chain get({k}) gave {g2!r} want {w2!r}", {"seed": job["seed"]})
        nt += 3
        res["samples"].append({"random_history_seed": job["seed"], "steps": job["steps"]})
        C["random_histories"] = 1
    # distinct-nontrivial: sequences inside one exhaustive shard are pairwise distinct by construction
    res["counters"]["nontrivial_sequences"] = nt
    res["counters"]["invariant_evals_worklist"] = _inv_evals["worklist"]
    res["counters"]["invariant_evals_dsu"] = _inv_evals["dsu"]
    res["nontrivial"] = [shash((job, i)) for i in range(min(nt, 50))]
    return res


def finish(agg, tier):
    inc = []
    c = agg.counters
    if c.get("invariant_evals_worklist", 0) == 0 or c.get("invariant_evals_dsu", 0) == 0:
        inc.append("icontract invariants were never evaluated")
    for k in ("worklist_sequences", "unionfind_sequences", "scoped_dict_configs", "random_histories"):
        if c.get(k, 0) == 0:
            inc.append(f"no {k} explored")
    return {"inconclusive": inc,
            "coverage": {"exhaustive": True, "distinct_nontrivial": c.get("nontrivial_sequences", 0),
                         "bounds": {"worklist_max_len": 6 if tier == "quick" else 7,
                                    "unionfind_max_len": 3 if tier == "quick" else 4,
                                    "scoped_dict": "3 scopes x 2 keys x 6 choices"}}}
