"""C06 - Builtin attributes and types round-trip bit-exactly through text.

Reference-free differential monitor: every generated builtin attribute/type value `a` (xv.genattr, public
constructors, boundary numerics) is printed with the real printer, re-parsed with the real parser and the result
compared with `a` through the printer-independent, bit-level canonical form `xv.canon.canon_attr_strict` (floats by
bit pattern, dense/array payloads by raw bytes + element type + shape, attribute classes distinguished).  A sample
of the values is additionally round-tripped inside the attribute dictionary of a generic operation.

Every disagreement is classified by MECHANISM: a parallel walk over (original, re-parsed) explains each differing
sub-tree with a model of a known wrong behaviour (e.g. "element printed as 0x<bits> was re-read as the integer
<bits>") or leaves it unexplained (-> generic key, VIOLATION).  Print/parse failures are attributed by differential
repair: the value with the suspected feature removed must round-trip, the value with only that feature left must
fail with the expected diagnostic."""
from __future__ import annotations

import math
import random
import traceback

from xv.harness import shash

ID = "C06"
LEVEL = "exploration"
RULE = ("recursive random generation (xv.genattr) of builtin attribute/type values through the public constructors: "
        "IntegerAttr widths 0..128 all signednesses at min/max/-1/2^(w-1), FloatAttr of all 18 float types with "
        "signed zeros, subnormals, max, >6-digit values, NaN payloads, infinities, StringAttr over ASCII/escapes/"
        "Unicode, BytesAttr, dense elements (ranks 0-3, zero extents, splats, >100 elements, i1, odd widths, index, "
        "complex), dense arrays, ArrayAttr/DictionaryAttr (odd keys), SymbolRefAttr, locations, affine maps/sets, "
        "shaped/function/tuple/complex/opaque/unit/none, nested to depth 3. A value is non-trivial if its nesting "
        "depth is >= 1 or it carries a boundary numeric (NaN, inf, signed zero, subnormal, extreme, integer at a "
        "range bound, dense payload); distinct = distinct hash of the strict canonical form")
LEVEL_TEXT = ("Every generated builtin value is printed, re-parsed (stand-alone and, for a sample, inside an operation's "
              "attribute dictionary) and compared bit for bit through an independent canonical form; held = no value "
              "explored failed to print, failed to re-parse, left trailing text or came back different, other than the "
              "mechanisms listed as known findings.")
LEVEL_NOTE = ("trusts xv.canon.canon_attr_strict (reads raw fields only), python struct for IEEE bit patterns and the "
              "generator's notion of a valid value (types where the syntax expects types, static dense shapes, in-range "
              "integers); payloads the constructors reject are counted as unconstructible, not as values")
TECHNIQUE = ("differential round-trip monitor: real printer + real parser against an independent bit-level canonical form; "
             "mechanism classification by wrong-behaviour models and differential repair")
ENGINES = ["harness", "canon"]
ASSUMPTIONS = ["canon_attr_strict distinguishes exactly the payload bits and attribute classes the property talks about",
               "bool and int payloads denote the same value (IntAttr(True) == IntAttr(1))",
               "a memref memory space that is itself a layout attribute (layout absent) is not expressible in the "
               "textual format by design and is excluded from the quantifier (counted)"]
JOB_TIMEOUT = {"quick": 1800, "thorough": 7200}

B = "xdsl.dialects.builtin."

# mechanism keys --------------------------------------------------------------------------------------------------
K_STR_BYTES = "string-nonascii-reparses-as-bytes"
K_BYTES_STR = "bytes-ascii-reparses-as-string"
K_NONE = "noneattr-prints-as-none-type"
K_DENSE_HEX = "dense-float-hex-element-reparsed-as-integer"
K_DENSE_SPLAT = "dense-float-splat-loses-zero-sign"
K_DENSE_NAN = "dense-float-nan-bits-canonicalised-by-printer"
K_ARRAY_NAN = "dense-array-float-nan-bits-canonicalised-by-printer"
K_RES = "dense-resource-handle-renamed-process-global-state"
K_COMPLEX_HEX_INT = "dense-complex-float-hex-elements-reparsed-as-integers"
K_ARRAY_HEX = "dense-array-float-hex-element-unparsable"
K_COMPLEX_HEX = "dense-complex-float-hex-element-unparsable"
K_STRLIT = "nonascii-string-literal-position-unparsable"
K_FUSED = "fusedloc-metadata-unparsable"
K_FLOATDATA = "floatdata-parameter-text-unparsable"
K_F80 = "floatattr-f80-f128-print-crash"

# Features that (still) make a valid value fail to print / parse.  `array_float_hex` and `fused_meta` were removed when
# their fixes landed in /repo (hex elements of array<fN: ...> and loc(fused<meta>[...]) parse now): a value carrying them
# that fails again is attributed to whatever other failing feature it nests, or reported as an unexplained
# parse-fails:/print-fails: VIOLATION.  Every remaining repair replaces a payload in place (none deletes a sub-tree), so
# a repair can no longer remove the carrier of another feature.
FAIL_FEATURES = {
    # feature -> (key, stage, substrings one of which must occur in the diagnostic)
    "dense_complex_hex": (K_COMPLEX_HEX, "parse", ("Complex value must be either",)),
    "nonascii_strlit": (K_STRLIT, "parse", ("string literal expected", "Expected bare-id or string-literal",
                                            "Unexpected location syntax", "string-literal", "Expected ')'",
                                            "')' expected")),
    "floatdata_repr": (K_FLOATDATA, "parse", ("integer or float literal expected", "'>' expected")),
    "f80_f128_value": (K_F80, "print", ("NotImplementedError",)),
}


def _imports():
    g = globals()
    if "bi" in g:
        return
    import xdsl.dialects.builtin as bi
    from xdsl.parser import Parser
    from xdsl.printer import Printer
    from xdsl.utils.exceptions import ParseError
    from xv import genattr
    from xv.canon import canon_attr_strict as canon
    from xv.corpus import new_ctx
    g.update(locals())


_JF = []


def journal(text):
    """In-flight input for on_lost (one persistent handle: a write per parse instead of open/write/close)."""
    import os
    if not _JF:
        p = os.environ.get("XV_JOURNAL")
        _JF.append(open(p, "w") if p else None)
    f = _JF[0]
    if f is not None:
        f.seek(0)
        f.truncate()
        f.write(text)
        f.flush()


# ------------------------------------------------------------------ one round trip
def roundtrip(ctx, a):
    """-> dict(outcome=ok|diff|printfail|parsefail|trailing, text, parsed, err)"""
    try:
        text = str(a)
    except Exception as e:  # noqa: BLE001 - any escape of the printer is an observation
        return {"outcome": "printfail", "text": None, "parsed": None,
                "err": f"{type(e).__name__}: {str(e)[:200]}", "site": _site(e)}
    journal(text[:5000])
    try:
        p = Parser(ctx, text)
        b = p.parse_attribute()
        rest = p._current_token.kind.name
    except Exception as e:  # noqa: BLE001
        msg = str(e).strip().splitlines()[-1].strip() if str(e).strip() else ""
        return {"outcome": "parsefail", "text": text, "parsed": None,
                "err": f"{type(e).__name__}: {msg[:200]}", "site": _site(e), "is_parse_error": isinstance(e, ParseError)}
    if rest != "EOF":
        return {"outcome": "trailing", "text": text, "parsed": b, "err": f"parser stopped at token {rest}"}
    if canon(a) == canon(b):
        return {"outcome": "ok", "text": text, "parsed": b, "err": None}
    return {"outcome": "diff", "text": text, "parsed": b, "err": None}


def _site(e):
    tb = traceback.extract_tb(e.__traceback__)
    for f in reversed(tb):
        if "/xdsl/" in f.filename:
            return f"{f.filename.split('/xdsl/')[-1]}:{f.name}"
    return tb[-1].name if tb else "?"


def roundtrip_in_op(ctx, a):
    """Same value inside the attribute dictionary of a generic op inside a module. -> None | (kind, detail)"""
    from io import StringIO

    from xdsl.dialects.test import TestOp
    op = TestOp.create(attributes={"k": a, "z": bi.UnitAttr()})
    m = bi.ModuleOp([op])
    s = StringIO()
    try:
        Printer(stream=s, print_generic_format=True).print_op(m)
    except Exception as e:  # noqa: BLE001
        return ("print", f"{type(e).__name__}: {str(e)[:200]}", None)
    text = s.getvalue()
    journal(text[:5000])
    try:
        m2 = Parser(ctx, text).parse_module()
        op2 = next(iter(m2.body.block.ops))
        b = op2.attributes.get("k")
        z = op2.attributes.get("z")
    except Exception as e:  # noqa: BLE001
        msg = str(e).strip().splitlines()[-1].strip() if str(e).strip() else ""
        return ("parse", f"{type(e).__name__}: {msg[:200]}", text)
    if b is None or z is None or canon(z) != canon(bi.UnitAttr()) or set(op2.attributes) != {"k", "z"}:
        return ("attrs-lost", f"attribute names after re-parse: {sorted(op2.attributes)}", text)
    if canon(a) != canon(b):
        return ("diff", b, text)
    return None


# ------------------------------------------------------------------ wrong-behaviour models for differing sub-trees
def _cname(x):
    return type(x).__module__ + "." + type(x).__qualname__


def _dense_model(o, n):
    """o, n: DenseIntOrFPElementsAttr with canonically equal types and different buffers -> list of keys | None.

    Models of the known wrong behaviours (all element-wise on the raw buffers):
      splat:   all elements compare == as python floats (0.0 == -0.0) -> printed as one value -> first element everywhere
      nan:     a NaN element is printed from `pack(unpack(bits))`, which goes through a python float (reduced
               precision types decode every NaN to math.nan; struct quiets signalling NaNs) -> canonical NaN bits
      hex:     an element printed as 0x<bits> is re-read as the integer <bits> and converted to float"""
    et = o.type.element_type
    base = et.element_type if isinstance(et, bi.ComplexType) else et
    if not isinstance(base, bi.AnyFloat):
        return None
    size = base.compile_time_size
    ro, rn = o.data.data, n.data.data
    if len(ro) != len(rn) or len(ro) % size:
        return None
    esize = et.compile_time_size
    eo = [ro[i:i + esize] for i in range(0, len(ro), esize)]
    vals = [tuple(base.iter_unpack(e)) for e in eo]
    # (component-wise float comparison: NaN is never equal, so NaN buffers are left to the nan/hex models below;
    # tuple == would treat the math.nan singleton as equal to itself)
    if len(set(eo)) > 1 and all(len(v) == len(vals[0]) and all(p == q for p, q in zip(v, vals[0])) for v in vals) \
            and rn == eo[0] * len(eo):
        return [K_DENSE_SPLAT]
    per = 2 if isinstance(et, bi.ComplexType) else 1
    co = [ro[i:i + size] for i in range(0, len(ro), size)]
    cn = [rn[i:i + size] for i in range(0, len(rn), size)]
    keys = set()
    for e in range(0, len(co), per):
        xs, ys = co[e:e + per], cn[e:e + per]
        if xs == ys:
            continue
        vs = [next(iter(base.iter_unpack(x))) for x in xs]
        # a complex element is only re-read through the integer path when BOTH components are printed in hex
        if per == 2 and not all(genattr._prints_hex(v, base) for v in vs):
            return None
        for x, y, v in zip(xs, ys, vs):
            if not (math.isnan(v) or math.isinf(v) or v == int(v)):
                return None  # only NaN/inf/integral values are ever printed in hex
            printed = base.pack([v])
            if printed != x:
                if not math.isnan(v):
                    return None
                keys.add(K_DENSE_NAN)
                if printed == y:
                    continue
            elif x == y:
                continue
            try:
                predicted = base.pack([float(int.from_bytes(printed, "little"))])
            except (OverflowError, ValueError):
                return None
            if predicted != y:
                return None
            keys.add(K_DENSE_HEX if per == 1 else K_COMPLEX_HEX_INT)
    return sorted(keys) or None


def _array_model(o, n):
    """DenseArrayBase float: NaN elements printed through a python float lose sign/payload bits (see _dense_model)."""
    et = o.elt_type
    if not isinstance(et, bi.AnyFloat) or canon(et) != canon(n.elt_type):
        return None
    size = et.size
    ro, rn = o.data.data, n.data.data
    if len(ro) != len(rn) or len(ro) % size:
        return None
    hit = False
    for i in range(0, len(ro), size):
        x, y = ro[i:i + size], rn[i:i + size]
        if x == y:
            continue
        v = next(iter(et.iter_unpack(x)))
        if not math.isnan(v) or et.pack([v]) != y:
            return None
        hit = True
    return [K_ARRAY_NAN] if hit else None


def local_model(o, n):
    """-> list of mechanism keys explaining why sub-tree o came back as n, or None."""
    if isinstance(o, bi.StringAttr) and type(n) is bi.BytesAttr:
        if not o.data.isascii() and n.data == o.data.encode("utf-8"):
            return [K_STR_BYTES]
    if isinstance(o, bi.BytesAttr) and type(n) is bi.StringAttr:
        if o.data.isascii() and n.data == o.data.decode("ascii"):
            return [K_BYTES_STR]
    if isinstance(o, bi.NoneAttr) and type(n) is bi.NoneType:
        return [K_NONE]
    if isinstance(o, bi.DenseIntOrFPElementsAttr) and isinstance(n, bi.DenseIntOrFPElementsAttr):
        if canon(o.type) == canon(n.type):
            return _dense_model(o, n)
    if isinstance(o, bi.DenseArrayBase) and isinstance(n, bi.DenseArrayBase):
        return _array_model(o, n)
    if isinstance(o, bi.DenseResourceAttr) and isinstance(n, bi.DenseResourceAttr) and canon(o.type) == canon(n.type):
        import re
        if re.fullmatch(re.escape(o.resource_handle.data) + r"(_\d+)+", n.resource_handle.data):
            return [K_RES]
    return None


def explain(o, n, path, out):
    """Parallel walk; appends (key | None, path, class-of-original-subtree)."""
    if canon(o) == canon(n):
        return
    ks = local_model(o, n)
    if ks:
        out.extend((k, path, type(o).__name__) for k in ks)
        return
    co, cn = genattr.children(o), genattr.children(n)
    if _cname(o) == _cname(n) and co and len(co) == len(cn):
        if isinstance(o, bi.DictionaryAttr):
            co, cn = sorted(co), sorted(cn)
        if [s for s, _ in co] == [s for s, _ in cn]:
            before = len(out)
            for (s, x), (_, y) in zip(co, cn):
                explain(x, y, path + [str(s)], out)
            if len(out) > before:
                return
    out.append((None, path, type(o).__name__))


# ------------------------------------------------------------------ differential repair for print / parse failures
def _asciify(s):
    return "".join(c if c.isascii() else "x" for c in s)


def repair(a, feats):
    """Rebuild `a` with the given failure features removed (each repair is the smallest payload change)."""
    def f(new, old):
        if "f80_f128_value" in feats and isinstance(old, bi.FloatAttr) and isinstance(
                old.type, (bi.Float80Type, bi.Float128Type)):
            return bi.FloatAttr(old.value.data, bi.f64)
        if isinstance(old, bi.FloatAttr):
            return old  # keep FloatData under a FloatAttr untouched
        if "floatdata_repr" in feats and isinstance(old, bi.FloatData):
            x = old.data
            r = f"{x}"
            if math.isnan(x) or math.isinf(x) or ("e" in r and "." not in r):
                return bi.FloatData(1.5)
        if "fused_meta" in feats and isinstance(old, bi.FusedLoc):
            return bi.FusedLoc(new.locations, bi.NoneAttr())
        if "nonascii_strlit" in feats:
            if isinstance(old, bi.FileLineColLoc):
                return bi.FileLineColLoc(bi.StringAttr(_asciify(old.filename.data)), new.line, new.column)
            if isinstance(old, bi.NameLoc):
                return bi.NameLoc(bi.StringAttr(_asciify(old.desc.data)), new.location)
            if isinstance(old, bi.OpaqueAttr):
                return bi.OpaqueAttr(bi.StringAttr(_asciify(old.ident.data)), bi.StringAttr(_asciify(old.value.data)), new.type)
            if isinstance(old, bi.DictionaryAttr):
                d = {}
                for i, (k, v) in enumerate(new.data.items()):
                    kk = _asciify(k)
                    if kk in d:
                        kk = f"{kk}_{i}"
                    d[kk] = v
                return bi.DictionaryAttr(d)
        if "array_float_hex" in feats and isinstance(old, bi.DenseArrayBase) and isinstance(old.elt_type, bi.AnyFloat):
            et = old.elt_type
            vals = [1.5 if genattr._prints_hex(v, et) else v for v in et.iter_unpack(old.data.data)]
            return bi.DenseArrayBase.from_list(et, vals)
        if "dense_complex_hex" in feats and isinstance(old, bi.DenseIntOrFPElementsAttr) and isinstance(
                old.type.element_type, bi.ComplexType) and isinstance(old.type.element_type.element_type, bi.AnyFloat):
            it = old.type.element_type.element_type
            vals = [1.5 if genattr._prints_hex(v, it) else v for v in it.iter_unpack(old.data.data)]
            return bi.DenseIntOrFPElementsAttr(old.type, bi.BytesAttr(it.pack(vals)))
        return new
    return genattr.rebuild(a, f)


def classify(ctx, a, res):
    """-> list of (key, summary, detail dict).  Keys starting with 'roundtrip-' / 'print-' / 'parse-' are unexplained."""
    out = []
    oc = res["outcome"]
    if oc == "diff":
        ex = []
        explain(a, res["parsed"], [], ex)
        for k, path, cls in ex:
            if k:
                out.append((k, f"{cls} at /{'/'.join(path)} came back as predicted by the known wrong-behaviour model", {}))
            else:
                out.append((f"roundtrip-differs:{cls}", f"{cls} at /{'/'.join(path)} differs after print+parse",
                            {"path": "/".join(path), "reparsed_text": _safe_str(res["parsed"])}))
        return out
    if oc == "trailing":
        return [(f"roundtrip-trailing-text:{type(a).__name__}", res["err"], {})]
    # print / parse failure: differential repair (1-minimal set of feature repairs that makes the value round-trip)
    stage = "print" if oc == "printfail" else "parse"
    feats = sorted(genattr.features(a) & set(FAIL_FEATURES))
    generic = (f"{stage}-fails:{type(a).__name__}:{res.get('site', '?')}", f"{stage} of a valid value failed: {res['err']}", {})
    if not feats:
        return [generic]
    fails = ("printfail", "parsefail", "trailing")
    need = set(feats)
    if roundtrip(ctx, repair(a, need))["outcome"] in fails:
        return [generic]  # not explained by the known failure features
    for ft in feats:
        if roundtrip(ctx, repair(a, need - {ft}))["outcome"] not in fails:
            need.discard(ft)
    fixed = repair(a, need)
    r2 = roundtrip(ctx, fixed)
    if r2["outcome"] == "diff":
        out.extend(classify(ctx, fixed, r2))
    for ft in sorted(need):
        # the diagnostic of feature ft: repair every other feature present (so that nothing masks it); when that removes
        # ft's carrier too (nested features), fall back on the minimal set, which fails by minimality
        r3 = roundtrip(ctx, repair(a, set(feats) - {ft}))
        if r3["outcome"] not in ("printfail", "parsefail"):
            r3 = roundtrip(ctx, repair(a, need - {ft}))
        key, want_stage, needles = FAIL_FEATURES[ft]
        got_stage = "print" if r3["outcome"] == "printfail" else "parse"
        if r3["outcome"] not in ("printfail", "parsefail") or got_stage != want_stage or not any(
                nd in r3["err"] for nd in needles) or (got_stage == "parse" and not r3.get("is_parse_error")):
            out.append((key + ":unexpected-diagnostic", f"feature {ft} fails with an unexpected diagnostic: {r3['err']}",
                        {"only_text": r3["text"]}))
        else:
            out.append((key, f"value with feature {ft} fails to {want_stage} ({r3['err']}); without it the value round-trips", {}))
    if not need:
        return [generic]
    return out


def _safe_str(x):
    try:
        return str(x)[:1500]
    except Exception as e:  # noqa: BLE001
        return f"<unprintable {type(e).__name__}>"


# ------------------------------------------------------------------ evidence helpers
def boundary_tags(a):
    tags = set()
    for n, parent, _s in genattr.walk(a):
        if isinstance(n, bi.FloatData):
            x = n.data
            if math.isnan(x):
                tags.add("nan")
            elif math.isinf(x):
                tags.add("inf")
            elif x == 0:
                tags.add("zero-neg" if math.copysign(1, x) < 0 else "zero-pos")
            elif abs(x) < 2.3e-308 or abs(x) > 1e308:
                tags.add("f64-extreme")
            elif isinstance(parent, bi.FloatAttr) and f"{x:.5e}" and float(f"{x:.5e}") != x:
                tags.add("needs>6digits")
        elif isinstance(n, bi.IntegerAttr) and isinstance(n.type, bi.IntegerType):
            w = n.type.width.data
            v = n.value.data
            if w and (v in (-(2 ** (w - 1)), 2 ** (w - 1) - 1, 2 ** w - 1, -1)):
                tags.add("int-bound")
            if w > 64:
                tags.add("int>64bit")
        elif isinstance(n, bi.DenseIntOrFPElementsAttr):
            tags.add("dense")
            if len(n) > 100:
                tags.add("dense>100")
            if len(n) == 0:
                tags.add("dense-empty")
            if not n.type.get_shape():
                tags.add("dense-rank0")
        elif isinstance(n, bi.DenseArrayBase):
            tags.add("densearray")
        elif isinstance(n, bi.StringAttr) and not n.data.isascii():
            tags.add("unicode")
    return tags


# ------------------------------------------------------------------ plan / work
def plan(tier, seed):
    shards = 12 if tier == "quick" else 64
    per = 1500 if tier == "quick" else 16000
    return [{"seed": seed, "shard": i, "n": per} for i in range(shards)]


def case_value(case_id):
    rng = random.Random("c06:" + case_id)
    depth = rng.choice([0, 1, 1, 2, 2, 3])
    g = genattr.AttrGen(rng, max_depth=depth, avoid=("memspace_layout",))
    a = g.attr()
    return a, g.unconstructible


def work(job):
    _imports()
    ctx = new_ctx(allow_unregistered=True)
    res = {"evaluations": 0, "nontrivial": [], "samples": [], "counters": {}, "sets": {}, "violations": []}
    C = res["counters"]
    S = {"classes": set(), "features": set(), "boundary": set(), "parsefail_diagnostics": set()}
    seen_keys: dict[str, int] = {}

    def bump(k, n=1):
        C[k] = C.get(k, 0) + n

    def viol(key, summary, a, rr, extra, case_id):
        seen_keys[key] = seen_keys.get(key, 0) + 1
        bump("mechanism:" + key)
        if seen_keys[key] > 3:
            return
        w = {"case": case_id, "text": rr.get("text"), "python_repr": repr(a)[:1500],
             "replay_job": {"cases": [case_id]}}
        w.update(extra)
        res["violations"].append({"key": key, "summary": summary[:400], "witness": w})

    ids = job.get("cases") or [f"{job['seed']}:{job['shard']}:{i}" for i in range(job["n"])]
    for case_id in ids:
        a, unc = case_value(case_id)
        bump("unconstructible_payload_candidates_skipped", unc)
        res["evaluations"] += 1
        feats = genattr.features(a)
        S["features"].update(feats)
        for n, _p, _s in genattr.walk(a):
            S["classes"].add(type(n).__name__ if not isinstance(n, bi.UnregisteredAttr) else "UnregisteredAttr")
        bt = boundary_tags(a)
        S["boundary"].update(bt)
        d = genattr.depth_of(a)
        bump(f"depth_{min(d, 4)}{'+' if d >= 4 else ''}")
        if d >= 1 or bt:
            res["nontrivial"].append(shash(canon(a)))
        rr = roundtrip(ctx, a)
        bump("roundtrips")
        bump("outcome_" + rr["outcome"])
        if rr["text"]:
            bump("text_chars_parsed", len(rr["text"]))
        if rr["outcome"] == "ok":
            if not (feats & (set(FAIL_FEATURES) | {"nonascii_string", "bytes_ascii", "none_attr", "dense_float_hex",
                                                  "dense_float_mixed_zero"})):
                bump("ok_without_known_defect_feature")
            if res["evaluations"] % 4 == 0:
                bump("op_attr_dict_roundtrips")
                r = roundtrip_in_op(ctx, a)
                if r is not None:
                    kind, detail, text = r
                    if kind == "diff":
                        ex = []
                        explain(a, detail, [], ex)
                        for k, path, cls in ex:
                            viol(k or f"op-attr-dict-roundtrip-differs:{cls}",
                                 f"value round-trips stand-alone but {cls} at /{'/'.join(path)} differs inside an op "
                                 "attribute dictionary" + (" (known wrong-behaviour model)" if k else ""), a,
                                 {"text": text}, {"reparsed_text": _safe_str(detail)}, case_id)
                    else:
                        viol(f"op-attr-dict-{kind}-fails:{type(a).__name__}",
                             f"value round-trips stand-alone but the op around it does not: {detail}", a,
                             {"text": text}, {}, case_id)
            if len(res["samples"]) < 2 and d >= 1:
                res["samples"].append({"case": case_id, "text": rr["text"][:300], "outcome": "ok"})
            continue
        if rr["outcome"] == "parsefail":
            S["parsefail_diagnostics"].add(rr["err"][:80])
        for key, summary, extra in classify(ctx, a, rr):
            viol(key, summary, a, rr, extra, case_id)
    res["sets"] = {k: sorted(v) for k, v in S.items()}
    return res


# no on_lost: a shard that dies or times out makes the run inconclusive (hangs of the parser are C07's property; the
# journal written before every parse lets the lost input be inspected)


def finish(agg, tier):
    inc = []
    c = agg.counters
    need = 10000 if tier == "quick" else 500000
    if c.get("roundtrips", 0) < need:
        inc.append(f"only {c.get('roundtrips', 0)} round trips (< {need})")
    if c.get("outcome_ok", 0) < need // 3:
        inc.append(f"only {c.get('outcome_ok', 0)} values round-tripped cleanly: the comparison was hardly exercised")
    if c.get("op_attr_dict_roundtrips", 0) < need // 20:
        inc.append("op attribute dictionary path hardly exercised")
    classes = agg.sets.get("classes", set())
    want = {"IntegerAttr", "FloatAttr", "StringAttr", "BytesAttr", "DenseIntOrFPElementsAttr", "DenseArrayBase", "ArrayAttr",
            "DictionaryAttr", "SymbolRefAttr", "FileLineColLoc", "NameLoc", "CallSiteLoc", "FusedLoc", "UnknownLoc",
            "AffineMapAttr", "AffineSetAttr", "TensorType", "MemRefType", "VectorType", "FunctionType", "TupleType",
            "ComplexType", "OpaqueAttr", "UnitAttr", "NoneType", "StridedLayoutAttr", "UnrankedTensorType",
            "UnrankedMemRefType", "IndexType", "IntegerType", "Float32Type", "Float64Type", "Float16Type", "BFloat16Type"}
    missing = sorted(want - set(classes))
    if missing:
        inc.append("classes never generated: " + ",".join(missing))
    for t in ("nan", "inf", "zero-neg", "int-bound", "dense>100", "dense-empty", "dense-rank0", "needs>6digits", "unicode"):
        if t not in agg.sets.get("boundary", set()):
            inc.append(f"boundary situation never generated: {t}")
    return {"inconclusive": inc, "coverage": {"distinct_classes": len(classes)}}
