"""C21 - x86 backend code computes the source results and honours the SysV ABI.

Reference-model differential monitor with the host CPU in the loop.  Generated func/arith integer functions
are compiled with the documented pipeline and `-t x86-asm`, assembled with the system assembler, linked into a
shared object and called natively through the assembly trampoline `xv_call` (xv/x86tramp.S) from a C driver
running as a CHILD process (xv/x86run.py).  Per call the trampoline reports rax, the callee-saved registers
(sentinels in rbx, rbp, r12-r15), the rsp delta, DF, MXCSR/x87 control words and eight canary words of the
caller's frame; results are compared with `xv.refsem` (cross-checked against a direct evaluation of the
generator's own DAG).  A crash / hang of generated code kills only the child and is attributed to the function.
Thorough tier: a sample additionally runs under `valgrind --tool=memcheck`.
"""
from __future__ import annotations

import random
import re

from xv.harness import shash

ID = "C21"
LEVEL = "exploration"
RULE = ("random func/arith integer functions (0-9 arguments of i8/i16/i32/i64/index, homogeneous or mixed; shapes: "
        "random add/mul DAG, many-live-values reduction, chains over stack arguments, argument reuse, identity, "
        "constant and void returns, boundary and >32-bit constants, 1-3 functions per module), each compiled by the "
        "documented x86 pipeline, assembled and called natively on 16 boundary-biased argument rows (narrow "
        "arguments with garbage upper bits in every other row); a function is non-trivial if the pipeline "
        "succeeded, the assembler accepted it, all its calls completed and its assembly uses >= 1 callee-saved "
        "register or reads >= 1 stack argument or has >= 6 instructions; distinct = distinct source function texts")
LEVEL_TEXT = ("Every generated function that the pipeline compiles is assembled by the system assembler and executed "
              "on the host CPU through a register-recording trampoline in a child process; return value vs reference "
              "semantics, callee-saved registers, rsp balance, DF, FP control words and caller-frame canaries are "
              "checked on every call; held = no call of any explored function disagreed.")
LEVEL_NOTE = ("trusts the host CPU, gcc/as/ld, the 150-line assembly trampoline and C driver (validated at the start of "
              "every shard against 19 hand-written callees with known good/bad behaviour), xv.refsem for add/mul/constants "
              "(cross-checked per function against a second direct evaluator), valgrind memcheck (thorough), CPython")
TECHNIQUE = ("reference-model differential monitor: native execution on the host CPU through an ABI-recording "
             "trampoline in a killable child process vs xv.refsem; memcheck sample in the thorough tier")
ENGINES = ["harness", "refsem", "x86run"]
ASSUMPTIONS = ["host is x86-64 Linux with gcc, as (and valgrind for the thorough tier) installed",
               "xv.refsem models arith.addi/muli/constant on iN/index correctly (cross-checked against a direct evaluator)",
               "the trampoline's positive and negative controls passing implies it observes real callees faithfully",
               "pipeline failures (diagnostics, OutOfRegisters, unsupported type/op) are reported failures outside the property"]
JOB_TIMEOUT = {"quick": 900, "thorough": 3600}

PIPE = ["convert-func-to-x86-func", "convert-arith-to-x86", "reconcile-unrealized-casts", "canonicalize", "dce",
        "x86-allocate-registers", "canonicalize", "x86-prologue-epilogue-insertion"]
ANCHOR_FILES = ("xdsl/backend/x86/lowering/convert_arith_to_x86.py", "xdsl/backend/x86/lowering/convert_func_to_x86_func.py",
                "xdsl/backend/x86/register_allocation.py", "xdsl/backend/x86/prologue_epilogue_insertion.py")

W = {"i8": 8, "i16": 16, "i32": 32, "i64": 64, "index": 64, "i1": 1, "i128": 128, "i7": 7}
ROWS = 16
BATCH = 50

# ----------------------------------------------------------------------------------------------- generator
SHAPES = ["dag", "dag", "dag", "live", "live", "chain", "reuse", "ident", "const", "void", "bigconst", "mixed", "mixed",
          "unsupported", "oddtype"]


def _const_for(rng, t, big=False):
    w = W[t]
    lo, hi = -(1 << (w - 1)), (1 << (w - 1)) - 1
    if big and w == 64:
        return rng.choice([4294967296, 2147483648, -2147483649, 0x123456789ABCDEF0, hi, lo, 4294967295, 1 << 40,
                           -(1 << 33) - 5])
    if big and w == 32:
        return rng.choice([4294967295, 2147483648, 3000000000])  # unsigned spellings of i32 values
    c = [0, 1, -1, 2, 3, 5, 7, -3, 100, hi, lo, hi - 1, lo + 1, 1 << (w // 2), (1 << (w // 2)) - 1]
    if w >= 32:
        c += [2147483647, -2147483648, 65536, 46341]
    v = rng.choice(c) if rng.random() < 0.8 else rng.randint(max(lo, -(1 << 31)), min(hi, (1 << 31) - 1))
    return max(lo, min(hi, v))


class Fn:
    """One generated function: text + its own straight-line program for the direct evaluator."""

    def __init__(self, sym, shape):
        self.sym, self.shape = sym, shape
        self.argtypes: list[str] = []
        self.ret: str | None = None
        self.prog: list[tuple] = []   # (dst, op, a, b|const, type)
        self.retv: str | None = None
        self.expect_fail = False

    def text(self):
        args = ", ".join(f"%a{i}: {t}" for i, t in enumerate(self.argtypes))
        lines = []
        for dst, op, a, b, t in self.prog:
            if op == "constant":
                lines.append(f"  {dst} = arith.constant {a} : {t}")
            else:
                lines.append(f"  {dst} = arith.{op} {a}, {b} : {t}")
        if self.ret is None:
            lines.append("  func.return")
            sig = ""
        else:
            lines.append(f"  func.return {self.retv} : {self.ret}")
            sig = f" -> {self.ret}"
        return f"func.func public @{self.sym}({args}){sig} {{\n" + "\n".join(lines) + "\n}\n"

    def direct_eval(self, args):
        """Second, independent evaluator (bit patterns) used to cross-check refsem."""
        env = {f"%a{i}": a & ((1 << W[t]) - 1) for i, (a, t) in enumerate(zip(args, self.argtypes))}
        for dst, op, a, b, t in self.prog:
            m = (1 << W[t]) - 1
            if op == "constant":
                env[dst] = a & m
            elif op == "addi" and env[a] is not None and env[b] is not None:
                env[dst] = (env[a] + env[b]) & m
            elif op == "muli" and env[a] is not None and env[b] is not None:
                env[dst] = (env[a] * env[b]) & m
            else:
                env[dst] = None  # op outside the direct evaluator (only reachable when dead, or the pipeline fails)
        return None if self.ret is None else env[self.retv]


def gen_fn(rng, sym, shape=None) -> Fn:
    shape = shape or rng.choice(SHAPES)
    f = Fn(sym, shape)
    base_t = rng.choice(["i64", "i64", "i32", "i32", "index", "i16", "i8"])
    if shape == "oddtype":
        base_t = rng.choice(["i1", "i128", "i7"])
        f.expect_fail = True
    n = rng.choice([0, 1, 2, 3, 4, 5, 6, 7, 7, 8, 8, 9, 9])
    if shape == "mixed":
        pool_t = rng.sample(["i64", "i32", "index", "i16", "i8"], rng.randint(2, 3))
        f.argtypes = [rng.choice(pool_t) for _ in range(max(n, 2))]
    else:
        f.argtypes = [base_t] * n
    by_t: dict[str, list[str]] = {}
    for i, t in enumerate(f.argtypes):
        by_t.setdefault(t, []).append(f"%a{i}")
    k = [0]

    def fresh():
        k[0] += 1
        return f"%v{k[0]}"

    def const(t, big=False):
        v = fresh()
        f.prog.append((v, "constant", _const_for(rng, t, big), None, t))
        by_t.setdefault(t, []).append(v)
        return v

    def binop(t, a=None, b=None, op=None):
        vals = by_t.get(t) or [const(t)]
        v = fresh()
        f.prog.append((v, op or rng.choice(["addi", "addi", "muli"]), a or rng.choice(vals), b or rng.choice(vals), t))
        by_t[t].append(v)
        return v

    types = sorted(set(f.argtypes)) or [base_t]
    if shape in ("dag", "mixed", "bigconst", "unsupported", "oddtype"):
        for _ in range(rng.choice([1, 2, 3, 5, 8, 12, 16])):
            t = rng.choice(types)
            if not by_t.get(t) or rng.random() < 0.2:
                const(t, big=(shape == "bigconst" and rng.random() < 0.6))
            else:
                binop(t)
        if shape == "bigconst":
            t = rng.choice(types)
            c = const(t, big=True)
            binop(t, a=c)
        if shape == "unsupported":
            t = rng.choice(types)
            binop(t, op=rng.choice(["subi", "andi", "ori", "xori", "shli", "divui", "maxsi"]))
            f.expect_fail = True
        rt = rng.choice([t for t in types if by_t.get(t)] or types)
        f.ret, f.retv = rt, (rng.choice(by_t[rt]) if by_t.get(rt) else const(rt))
        if rng.random() < 0.6 and f.prog and f.prog[-1][4] == rt:
            f.retv = f.prog[-1][0]
        if shape != "unsupported" and rng.random() < 0.5 and len(by_t.get(rt, ())) > 2:
            # keep more of the DAG alive: fold a few earlier values into the returned one
            acc = f.retv
            for v in rng.sample(by_t[rt], min(len(by_t[rt]), rng.randint(1, 3))):
                acc = binop(rt, a=acc, b=v)
            f.retv = acc
    elif shape == "live":
        # L values all live until a final reduction (forces callee-saved registers / OutOfRegisters)
        t = base_t
        L = rng.randint(3, 9)
        vs = []
        for j in range(L):
            if by_t.get(t) and rng.random() < 0.8:
                vs.append(binop(t))
            else:
                vs.append(const(t))
        acc = vs[-1]
        for v in reversed(vs[:-1]):
            acc = binop(t, a=acc, b=v, op=rng.choice(["addi", "addi", "muli"]))
        f.ret, f.retv = t, acc
    elif shape == "chain":
        # every argument (incl. the stack-passed ones) feeds one chain, last arguments first
        t = base_t
        allargs = list(by_t.get(t, []))
        order = allargs[6:] + rng.sample(allargs[:6], min(len(allargs[:6]), rng.randint(0, 3)))  # all stack args + a few others
        if rng.random() < 0.3:
            order = allargs
        if rng.random() < 0.5:
            order.reverse()
        acc = order[0] if order else const(t)
        for a in order[1:]:
            acc = binop(t, a=acc, b=a)
        if rng.random() < 0.5:
            acc = binop(t, a=acc, b=const(t))
        f.ret, f.retv = t, acc
    elif shape == "reuse":
        t = base_t
        x = by_t[t][rng.randrange(len(by_t[t]))] if by_t.get(t) else const(t)
        for _ in range(rng.randint(1, 6)):
            x = binop(t, a=x, b=rng.choice([x, x, rng.choice(by_t[t])]))
        f.ret, f.retv = t, x
    elif shape == "ident":
        t = base_t
        if not by_t.get(t):
            f.argtypes = [t]
            by_t[t] = ["%a0"]
        f.ret, f.retv = t, rng.choice(by_t[t])
        if rng.random() < 0.5 and len(by_t[t]) > 6:
            f.retv = by_t[t][-1]  # a stack-passed argument returned unchanged
    elif shape == "const":
        t = base_t
        f.ret, f.retv = t, const(t)
    elif shape == "void":
        t = base_t
        for _ in range(rng.randint(0, 4)):
            binop(t) if by_t.get(t) else const(t)
        f.ret = None
    return f


def gen_module(rng, idx):
    nf = rng.choice([1, 1, 1, 1, 2, 3])
    fns = [gen_fn(rng, f"xvf_{idx}_{j}") for j in range(nf)]
    return fns, "".join(fn.text() for fn in fns)


def gen_rows(rng, argtypes, n=ROWS):
    rows = []
    for r in range(n):
        vals, raw = [], []
        for t in argtypes:
            w = W[t]
            m = (1 << w) - 1
            v = rng.choice([0, 1, 2, 3, m, 1 << (w - 1), (1 << (w - 1)) - 1, m - 1, rng.getrandbits(w), rng.getrandbits(w),
                            rng.getrandbits(w), rng.randrange(0, 100)]) & m
            if r == 0:
                v = [0, 1, m][rng.randrange(3)]
            vals.append(v)
            raw.append(v | ((rng.getrandbits(64) << w) & ((1 << 64) - 1)) if (r % 2 and w < 64) else v)
        rows.append((vals, raw))
    return rows


# ----------------------------------------------------------------------------------------------- asm reading
_FAM = [("rax", "eax", "ax", "al"), ("rcx", "ecx", "cx", "cl"), ("rdx", "edx", "dx", "dl"), ("rbx", "ebx", "bx", "bl"),
        ("rsp", "esp", "sp", "spl"), ("rbp", "ebp", "bp", "bpl"), ("rsi", "esi", "si", "sil"), ("rdi", "edi", "di", "dil")] + \
       [(f"r{n}", f"r{n}d", f"r{n}w", f"r{n}b") for n in range(8, 16)]
REG = {}
for fam in _FAM:
    for nm, wd in zip(fam, (64, 32, 16, 8)):
        REG[nm] = (fam[0], wd)
CALLEE_SAVED = ("rbx", "rbp", "r12", "r13", "r14", "r15")
_TOK = re.compile(r"[A-Za-z_][A-Za-z0-9_]*")


def asm_functions(asm: str) -> dict:
    """Split emitted assembly per label; per function: instructions [(mnemonic, [operands])], register facts."""
    out, cur = {}, None
    for line in asm.splitlines():
        code = line.split("#", 1)[0].strip()
        if not code or code.startswith("."):
            continue
        if code.endswith(":"):
            cur = code[:-1]
            out[cur] = []
            continue
        if cur is None:
            continue
        parts = code.split(None, 1)
        ops = [o.strip() for o in parts[1].split(",")] if len(parts) > 1 else []
        out[cur].append((parts[0], ops))
    return out


def asm_facts(ins) -> dict:
    pushes = []
    for mn, ops in ins:
        if mn == "push":
            pushes.append(ops[0])
        else:
            break
    written: dict[str, set] = {}
    names = set()
    stack_loads = []
    for mn, ops in ins:
        for o in ops:
            for tok in _TOK.findall(o):
                if tok in REG:
                    names.add(tok)
        if mn in ("push", "cmp", "test", "ret") or not ops:
            continue
        d = ops[0] if mn != "pop" else ops[0]
        if d in REG:
            p, wd = REG[d]
            written.setdefault(p, set()).add(wd)
        if len(ops) == 2 and re.fullmatch(r"\[rsp(\+\d+)?\]", ops[1].replace(" ", "")):
            mo = re.search(r"\+(\d+)", ops[1])
            stack_loads.append(int(mo.group(1)) if mo else 0)
    return {"pushes": pushes, "pops": [ops[0] for mn, ops in ins if mn == "pop"], "written": written, "names": names,
            "stack_loads": stack_loads, "n_ins": len(ins),
            "callee_saved_used": sorted(p for p in written if p in CALLEE_SAVED)}


def norm_as_error(stderr: str) -> str:
    msgs = []
    for line in stderr.splitlines():
        mo = re.search(r"Error: (.*)", line)
        if mo:
            m = re.sub(r"[`'\"]", "", mo.group(1))
            m = re.sub(r"(undefined symbol in generated code):.*", r"\1", m)
            m = re.sub(r"\b\d+\b", "N", m)
            msgs.append(m.strip())
    return (sorted(set(msgs)) or ["no-error-line"])[0][:70]


def rejected_lines(stderr: str, asm: str) -> list:
    lines = asm.splitlines()
    out = []
    for mo in re.finditer(r"<asm>:(\d+): Error", stderr):
        i = int(mo.group(1)) - 1
        if 0 <= i < len(lines):
            out.append(lines[i].split("#", 1)[0].strip())
    return out


# ----------------------------------------------------------------------------------------------- compile
_P = {}


def compile_module(text: str):
    """-> ("ok", asm) | ("failed", exception class name, one-line message)"""
    from io import StringIO

    from xdsl.parser import Parser
    from xdsl.targets import get_all_targets
    from xdsl.transforms import get_all_passes
    from xv.corpus import new_ctx
    if not _P:
        allp = get_all_passes()
        for pn in PIPE:
            _P[pn] = allp[pn]()
        _P["target"] = get_all_targets()["x86-asm"]()
    ctx = new_ctx()
    m = Parser(ctx, text).parse_module()
    m.verify()  # generator output must be valid: an exception here crashes the shard (harness bug)
    try:
        for pn in PIPE:
            _P[pn]().apply(ctx, m)
        m.verify()
        s = StringIO()
        _P["target"]().emit(ctx, m, s)
    except Exception as e:  # noqa: BLE001 - reported failure: outside the property, counted by class
        msg = str(e).strip().splitlines()[-1] if str(e).strip() else ""
        msg = re.sub(r"<\w+>", "<r>", re.sub(r"%\w+", "%v", re.sub(r"-?\d+", "N", msg)))[:80]
        return ("failed", type(e).__name__, msg)
    return ("ok", s.getvalue())


# ----------------------------------------------------------------------------------------------- classification
def alias_model(reg, facts, obs_val, sentinel) -> bool:
    """Known wrong behaviour: the function writes only narrow aliases (e.g. ebx) of callee-saved `reg`, never
    mentions the 64-bit name (no push/pop), and the observed value is what such partial writes can produce."""
    ws = facts["written"].get(reg, set())
    if not ws or 64 in ws or reg in facts["names"]:
        return False
    if 32 in ws:
        return obs_val >> 32 == 0
    if 16 in ws:
        return obs_val >> 16 == sentinel >> 16
    return obs_val >> 8 == sentinel >> 8


def stack_shift_model(fn, facts, rows, obs_list, refrun):
    """Known wrong behaviour model: stack-argument loads `[rsp+8*(i+1)]` are emitted *after* P prologue pushes
    without adjusting the offset, so argument 6+i is read from the slot 8*P bytes lower: saved callee-saved
    registers (their sentinels), then the return address, then earlier stack arguments.
    Returns True iff every row's observed result equals the source function evaluated on those words."""
    from xv import x86run
    P = len(facts["pushes"])
    S = len(fn.argtypes) - 6
    if P == 0 or S <= 0 or fn.ret is None:
        return False
    sent = dict(x86run.SENTINELS)
    if any(r not in sent for r in facts["pushes"]):
        return False
    saved = [sent[r] for r in reversed(facts["pushes"])]
    mret = (1 << W[fn.ret]) - 1
    for (vals, raw), obs in zip(rows, obs_list):
        post = saved + x86run.stack_layout(raw, len(raw), obs)
        margs = list(vals)
        for i in range(S):
            margs[6 + i] = post[i + 1] & ((1 << W[fn.argtypes[6 + i]]) - 1)
        if fn.shape != "replay":
            model = fn.direct_eval(margs)   # ignores dead ops the pipeline removed (a dead division may trap in refsem)
        else:
            try:
                model = refrun(margs)
            except Exception:  # noqa: BLE001 - the model does not apply to this function
                return False
        if model is None or model != obs["rax"] & mret:
            return False
    return True


# ----------------------------------------------------------------------------------------------- plan / work
def plan(tier, seed):
    import os
    if tier == "quick":
        jobs = [{"shard": i, "seed": seed, "modules": 64, "valgrind": 0} for i in range(16)]
    else:
        jobs = [{"shard": i, "seed": seed, "modules": 640, "valgrind": 60 if i < 12 else 0} for i in range(64)]
    k = os.environ.get("XV_C21_SHARDS")  # self-tests only: run a prefix of the real shards (finish() then reports inconclusive)
    return jobs[:int(k)] if k else jobs


def work(job):
    import xdsl
    from xdsl.parser import Parser
    from xv import refsem, x86run
    from xv.corpus import new_ctx
    from xv.worker import journal

    C: dict[str, int] = {}
    sets: dict[str, set] = {"pipeline_failure_classes": set(), "asm_reject_classes": set(), "callee_saved_regs_used": set(),
                            "arg_counts_executed": set(), "types_executed": set(), "shapes_executed": set()}
    viol = []
    res = {"evaluations": 0, "nontrivial": [], "samples": [], "counters": C, "violations": viol, "extra": {}}

    def inc(k, n=1):
        C[k] = C.get(k, 0) + n

    def report(key, summary, witness):
        if sum(1 for v in viol if v["key"] == key) < 4:  # keep a few witnesses per mechanism
            viol.append({"key": key, "summary": summary[:400], "witness": witness})
        else:
            viol.append({"key": key, "summary": summary[:200], "witness": {"note": "more of the same in this shard"}})

    import os
    root = os.path.dirname(os.path.dirname(os.path.abspath(xdsl.__file__)))
    for a in ANCHOR_FILES:
        if not os.path.exists(os.path.join(root, a)):
            raise RuntimeError(f"anchored file missing: {a}")

    nat = x86run.Native(child_timeout=120.0)
    journal("controls")
    for k, v in nat.controls().items():
        inc(k, v)
    inc("shards_with_controls_passed")
    if job.get("valgrind", 0):
        for k, v in nat.controls(valgrind=True).items():
            inc("memcheck_" + k, v)

    if "replay_text" in job:
        mods = [(None, job["replay_text"])]
    else:
        rng = random.Random(f"c21-{job['seed']}-{job['shard']}")
        mods = [gen_module(rng, f"{job['shard']}_{i}") for i in range(job["modules"])]
    rrng = random.Random(f"c21-rows-{job['seed']}-{job['shard']}")

    # ---- compile
    compiled = []  # (fns, text, asm)
    for fns, text in mods:
        if fns is None:
            fns = _fns_from_text(text)
        res["evaluations"] += len(fns)
        inc("modules_generated")
        inc("functions_generated", len(fns))
        for fn in fns:
            inc("shape_generated:" + fn.shape)
        journal("compile\n" + text)
        r = compile_module(text)
        if r[0] == "failed":
            inc("modules_pipeline_failed")
            inc("functions_pipeline_failed", len(fns))
            inc("pipeline_failed:" + r[1])
            sets["pipeline_failure_classes"].add(f"{r[1]}: {r[2]}")
            if any(fn.expect_fail for fn in fns):
                inc("pipeline_failed_as_expected_unsupported_input")
            continue
        inc("modules_compiled")
        inc("functions_compiled", len(fns))
        if any(fn.expect_fail for fn in fns):
            inc("compiled_although_unsupported_input_expected")
        compiled.append((fns, text, r[1]))

    # ---- assemble + run in batches
    vg_budget = job.get("valgrind", 0)
    for b0 in range(0, len(compiled), BATCH):
        batch = compiled[b0:b0 + BATCH]
        units = [(fns[0].sym, asm) for fns, _, asm in batch]
        so, rejected = nat.assemble(f"b{b0}", units)
        inc("batches_linked" if so else "batches_without_accepted_unit")
        calls = []
        meta = {}
        for fns, text, asm in batch:
            if fns[0].sym in rejected:
                err = rejected[fns[0].sym]
                cls = norm_as_error(err)
                bad = rejected_lines(err, asm)
                inc("modules_asm_rejected")
                sets["asm_reject_classes"].add(cls)
                key = "asm-rejected:" + cls
                # known model: two-operand imul has no 8-bit form; i8 muli is lowered to `imul r8, r8`
                if bad and all(re.fullmatch(r"imul\s+(\w+),\s*(\w+)", l) and
                               all(REG.get(x, (None, 0))[1] == 8 for x in re.fullmatch(r"imul\s+(\w+),\s*(\w+)", l).groups())
                               for l in bad):
                    key = "asm-rejected:imul-8bit-registers"
                report(key, f"as rejects the emitted assembly: {err.strip().splitlines()[-1][:160]}",
                       {"ir": text, "asm": asm, "assembler_stderr": err, "rejected_lines": bad,
                        "replay_job": {"replay_text": text, "seed": job["seed"], "shard": job["shard"]}})
                continue
            inc("modules_assembled")
            per = asm_functions(asm)
            m0 = Parser(new_ctx(), text).parse_module()
            for fn in fns:
                if fn.sym not in per:
                    report("asm-missing-function-label", f"no label for @{fn.sym} in emitted assembly", {"ir": text, "asm": asm})
                    continue
                rows = gen_rows(rrng, fn.argtypes)
                facts = asm_facts(per[fn.sym])
                meta[fn.sym] = (fn, text, asm, rows, facts, m0)
                calls.append((fn.sym, len(fn.argtypes), [raw for _, raw in rows]))
        if not calls:
            continue
        journal("native batch: " + " ".join(s for s, _, _ in calls) + "\n" + "\n".join(t for _, t, _ in batch)[:15000])
        use_vg = vg_budget > 0
        results = nat.run(so, calls, valgrind=use_vg)
        inc("native_batches")
        if use_vg:
            vg_budget -= len(calls)
            inc("functions_under_memcheck", len(calls))
        if "<outside>" in results:
            raise RuntimeError("memcheck report outside any generated function: " + "; ".join(results["<outside>"].valgrind[:3]))
        for sym, (fn, text, asm, rows, facts, m0) in meta.items():
            _judge_function(fn, text, asm, rows, facts, m0, results[sym], job, inc, sets, report, res, refsem, x86run, use_vg)

    for k, v in nat.stats.items():
        inc("native_" + k, v)
    res["sets"] = {k: sorted(v) for k, v in sets.items()}
    return res


def _fns_from_text(text):
    """Replay path: recover signatures from witness IR text (no direct evaluator: refsem only)."""
    fns = []
    for mo in re.finditer(r"func\.func public @(\w+)\(([^)]*)\)(?: -> (\w+))?", text):
        fn = Fn(mo.group(1), "replay")
        fn.argtypes = [a.split(":")[1].strip() for a in mo.group(2).split(",") if ":" in a]
        fn.ret = mo.group(3)
        fn.prog = [("?", "replay", None, None, None)]
        fns.append(fn)
    return fns


def _judge_function(fn, text, asm, rows, facts, m0, r, job, inc, sets, report, res, refsem, x86run, use_vg):
    wit = {"ir": text, "function": fn.sym, "asm": asm,
           "replay_job": {"replay_text": text, "seed": job["seed"], "shard": job["shard"]}}
    if r.missing:
        report("asm-symbol-not-exported", f"@{fn.sym} is not an exported symbol of the linked object", wit)
        return
    if r.crash:
        inc("functions_crashed")
        w = dict(wit, crash=r.crash, confirmed_alone=r.confirmed_alone, completed_calls=len(r.obs),
                 args_of_crashing_call=[f"{a:#x}" for a in rows[len(r.obs)][1]] if len(r.obs) < len(rows) else None)
        report("native-timeout" if r.crash == "timeout" else "native-crash:" + r.crash,
               f"@{fn.sym} {r.crash} in the child process after {len(r.obs)} completed call(s)", w)
        return
    if len(r.obs) != len(rows):
        raise RuntimeError(f"driver returned {len(r.obs)} observations for {len(rows)} calls of {fn.sym}")
    inc("functions_executed")
    inc("native_calls", len(rows))
    sets["arg_counts_executed"].add(str(len(fn.argtypes)))
    sets["shapes_executed"].add(fn.shape)
    inc("shape_executed:" + fn.shape)
    for t in set(fn.argtypes) | ({fn.ret} if fn.ret else set()):
        sets["types_executed"].add(t)
    for p in facts["callee_saved_used"]:
        sets["callee_saved_regs_used"].add(p)
        inc("functions_using_callee_saved:" + p)
    if facts["pushes"]:
        inc("functions_with_prologue_push")
        inc("prologue_pushes", len(facts["pushes"]))
    S = max(0, len(fn.argtypes) - 6)
    if S:
        inc("functions_with_stack_args")
    if facts["stack_loads"]:
        inc("functions_reading_stack_args")
    if S and facts["pushes"]:
        inc("functions_with_stack_args_and_prologue_push")
    if any(64 not in ws for p, ws in facts["written"].items() if p in CALLEE_SAVED):
        inc("functions_writing_only_narrow_alias_of_callee_saved")

    def refrun(vals):
        out, _ = refsem.run(m0, fn.sym, list(vals))
        return out[0] if out else None

    mret = (1 << W[fn.ret]) - 1 if fn.ret else 0
    wrong = []
    abi: dict[str, list] = {}
    for i, ((vals, raw), obs) in enumerate(zip(rows, r.obs)):
        if fn.ret is not None:
            try:
                want = refrun(vals)
            except refsem.Undefined:
                inc("rows_excluded_source_undefined")  # dead UB op (e.g. division by zero) in the source
                continue
            if fn.shape != "replay":
                d = fn.direct_eval(vals)
                inc("oracle_crosschecks" if d is not None else "oracle_crosscheck_skipped_op_outside_direct_evaluator")
                if d is not None and d != want:
                    raise RuntimeError(f"refsem {want} != direct evaluator {d} for {fn.sym} {vals}\n{text}")
            inc("results_compared")
            got = obs["rax"] & mret
            if got != want:
                wrong.append((i, vals, raw, got, want))
        for kind, detail in x86run.judge(obs):
            abi.setdefault(kind, []).append((i, detail, obs))
        inc("abi_snapshots_checked")
    if fn.ret is None:
        inc("void_functions_executed")

    if wrong:
        inc("functions_with_wrong_result")
        i, vals, raw, got, want = wrong[0]
        key = "wrong-result" + (":function-with-stack-args" if S else "")
        if stack_shift_model(fn, facts, rows, r.obs, refrun):
            key = "stack-arg-load-ignores-prologue-push"
        report(key, f"@{fn.sym}({', '.join(hex(v) for v in vals)}) returned {got:#x}, source semantics give {want:#x} "
                    f"({len(wrong)}/{len(rows)} rows differ; pushes={facts['pushes']}, stack args={S})",
               dict(wit, args=[hex(v) for v in vals], raw_args=[hex(v) for v in raw], got=hex(got), want=hex(want),
                    rows_wrong=len(wrong), pushes=facts["pushes"]))
    sent = dict(x86run.SENTINELS)
    for kind, hits in sorted(abi.items()):
        inc("functions_with_abi_problem")
        i, detail, obs = hits[0]
        key = kind
        if kind.startswith("callee-saved-clobbered:"):
            reg = kind.split(":")[1]
            if all(alias_model(reg, facts, o[reg], sent[reg]) for _, _, o in hits):
                key = "callee-saved-narrow-alias-not-saved"
        report(key, f"@{fn.sym}: {detail} on return ({len(hits)}/{len(rows)} calls); registers written "
                    f"{ {p: sorted(w) for p, w in facts['written'].items() if p in CALLEE_SAVED} }, pushes={facts['pushes']}",
               dict(wit, args=[hex(v) for v in rows[i][1]], observed={k: hex(v) if isinstance(v, int) and v >= 0 else v for k, v in obs.items()},
                    pushes=facts["pushes"], pops=facts["pops"]))
    if use_vg:
        inv = [v for v in r.valgrind if v.startswith(("Invalid", "Conditional jump", "Use of uninit", "Jump to"))]
        inc("memcheck_functions_clean" if not inv else "memcheck_functions_flagged")
        if inv:
            report("memcheck:" + re.sub(r"\d+", "N", inv[0])[:50], f"@{fn.sym}: memcheck reports {inv[0]}", dict(wit, memcheck=r.valgrind[:12]))
    # non-trivial by RULE
    if facts["callee_saved_used"] or facts["stack_loads"] or facts["n_ins"] >= 6:
        res["nontrivial"].append(shash(fn.text() if fn.shape != "replay" else (text, fn.sym)))
        inc("nontrivial_functions")
    if len(res["samples"]) < 3 and fn.shape != "replay" and (facts["callee_saved_used"] or S):
        res["samples"].append({"ir": fn.text(), "asm": "\n".join(f"{m} {', '.join(o)}" for m, o in asm_functions(asm)[fn.sym]),
                               "first_call": {"args": [hex(v) for v in rows[1][1]], "rax": hex(r.obs[1]["rax"])}})


def on_lost(info):
    """The compile / native phases run in the shard itself only for Python; generated code runs in grand-children,
    so a dead shard is a harness problem (inconclusive) - except a hang inside the pipeline, which is not C21's
    property either. Nothing is converted."""
    return None


def finish(agg, tier):
    c = agg.counters
    inc = []
    need = {"quick": {"functions_executed": 300, "native_calls": 4500, "results_compared": 4000, "nontrivial_functions": 120,
                      "functions_with_stack_args": 120, "functions_reading_stack_args": 35, "functions_with_prologue_push": 30,
                      "controls_bad_flagged": 12 * 12, "controls_crash_contained": 2 * 12, "controls_hang_contained": 12,
                      "oracle_crosschecks": 4000, "void_functions_executed": 20},
            "thorough": {"functions_executed": 12000, "native_calls": 190000, "results_compared": 160000,
                         "nontrivial_functions": 5000, "functions_with_stack_args": 5000, "functions_reading_stack_args": 1500,
                         "functions_with_prologue_push": 1200, "controls_bad_flagged": 12 * 48, "controls_crash_contained": 2 * 48,
                         "controls_hang_contained": 48, "oracle_crosschecks": 160000, "void_functions_executed": 800,
                         "functions_under_memcheck": 500, "memcheck_controls_valgrind_flagged": 8}}[tier]
    per_shape = {"dag": 60, "mixed": 40, "live": 25, "ident": 25, "reuse": 22, "const": 22, "void": 20, "chain": 12}
    for sh, v in per_shape.items():
        need["shape_executed:" + sh] = v if tier == "quick" else v * 25
    for k, v in need.items():
        if c.get(k, 0) < v:
            inc.append(f"{k}={c.get(k, 0)} < {v}")
    used = agg.sets.get("callee_saved_regs_used", set())
    if not used:
        inc.append("no executed function used a callee-saved register")
    for t in ("i64", "i32", "index"):
        if t not in agg.sets.get("types_executed", set()):
            inc.append(f"no executed function of type {t}")
    return {"inconclusive": inc,
            "coverage": {"pipeline": PIPE, "rows_per_function": ROWS, "callee_saved_registers_reached": sorted(used),
                         "excluded": {"functions_pipeline_failed": c.get("functions_pipeline_failed", 0),
                                      "why": "pipeline raised (diagnostic / OutOfRegisters / unsupported type or op): reported failure, outside the property"}}}
