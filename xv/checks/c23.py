"""C23 - the LLVM backend emits LLVM IR that LLVM accepts and that has the source semantics.

Reference-model differential monitor.  Generated / corpus llvm-dialect modules go through the real
`convert_module`; the printed LLVM IR is parsed + verified by LLVM (llvmlite) and, for generated programs,
JIT-compiled (MCJIT) and executed on input vectors.  Oracles:
  * LLVM's own parser and verifier ("LLVM accepts");
  * `xv.c23_ref.Machine`: independent LangRef semantics of the *source* ops over the generator's structure
    (poison / UB / undef / unspecified NaN bits on the source side exclude the input vector);
  * a structural monitor: every emitted instruction's opcode, predicate, callee, calling convention, tail marker
    and poison-generating / fast-math flags and alignments against what the source op prescribes (flags may be
    dropped - a refinement, counted - but never added).
All native work runs in a child process (`xv.c23_jit`), so that LLVM assertions, segfaults and hangs are contained
and attributable to one module."""
from __future__ import annotations

import json
import os
import random
import re
import subprocess
import sys
import tempfile

from xv.harness import PY, ROOT, shash

ID = "C23"
LEVEL = "exploration"
RULE = ("generated llvm-dialect modules (6 profiles: straight-line, CFG with block arguments/loops, memory, calls, "
        "vectors, mix; 1-5 functions each), systematic single-op 'micro' functions (every op x type x flag variant), "
        "hand-written hostile shapes and every llvm-dialect corpus chunk (whole and sliced per function); a case is one "
        "module; non-trivial = convert_module returned and LLVM's verdict was obtained (and, for executed cases, >=1 "
        "input vector was defined by the reference and compared); distinct = distinct module texts (hash)")
LEVEL_TEXT = ("Every explored module that convert_module translated was parsed and verified by LLVM, its instructions "
              "compared structurally with the source ops, and every entry function executed natively on the generated "
              "input vectors that the reference semantics defines, results compared bit-exactly (NaN class for NaNs); "
              "held = no rejection, structural deviation or result difference on the cases explored.")
LEVEL_NOTE = ("trusts llvmlite/LLVM 20 (parser, verifier, x86-64 MCJIT code generator) and the host CPU/libm as the "
              "executing oracle, the reference semantics xv/c23_ref.py, CPython (struct, fractions)")
TECHNIQUE = ("reference-model differential monitor (source reference semantics vs native execution of the emitted LLVM IR) "
             "+ LLVM verifier as acceptance oracle + structural invariant on emitted instructions; native work in a killable child")
ENGINES = ["harness", "refsem", "corpus"]
ASSUMPTIONS = ["LLVM 20 x86-64 code generation is correct for the emitted IR (it is the executing oracle)",
               "xv/c23_ref.py implements LangRef semantics (cross-checked: it agrees with native execution on the unchanged tree)",
               "libm of the host defines llvm.sin/cos/exp/exp2/log/log2/pow (same library on both sides)",
               "source-side UB/poison/undef/unspecified-NaN-bits inputs are excluded, never compared"]
JOB_TIMEOUT = {"quick": 900, "thorough": 5400}

VECTORS = 16
CHILD_TIMEOUT = 120

FM7 = {"nnan", "ninf", "nsz", "arcp", "contract", "afn", "reassoc"}
FLAG_WORDS = {"nsw", "nuw", "exact", "disjoint", "nneg", "inbounds", "fast"} | FM7
CCONV_RE = re.compile(r"\b(fastcc|coldcc|tailcc|swiftcc|swifttailcc|webkit_jscc|anyregcc|preserve_mostcc|preserve_allcc|"
                      r"cxx_fast_tlscc|cfguard_checkcc|cc \d+)\b")


# ----------------------------------------------------------------------------------------------- child driver
def run_child(mods, timeout=CHILD_TIMEOUT):
    """Run modules through xv.c23_jit in child processes. -> {id: result}; a module that killed / hung the child
    gets {"stage": "died", "at": <journal stage>, "rc": ...} and the rest is resumed in a fresh child."""
    results = {}
    pending = list(mods)
    env = dict(os.environ)
    env["PYTHONPATH"] = os.pathsep.join([ROOT] + [p for p in env.get("PYTHONPATH", "").split(os.pathsep) if p])
    guard = 0
    while pending:
        guard += 1
        if guard > len(mods) + 2:
            raise RuntimeError("c23 child driver does not make progress")
        with tempfile.TemporaryDirectory(prefix="xv-c23-") as d:
            inp, outp, jp = os.path.join(d, "in.json"), os.path.join(d, "out.jsonl"), os.path.join(d, "journal")
            with open(inp, "w") as f:
                json.dump({"modules": pending}, f)
            rc, err = None, ""
            try:
                p = subprocess.run([PY, "-m", "xv.c23_jit", inp, outp, jp], cwd=ROOT, env=env, stdout=subprocess.PIPE,
                                   stderr=subprocess.PIPE, timeout=timeout)
                rc, err = p.returncode, p.stderr.decode("utf-8", "replace")[-1500:]
            except subprocess.TimeoutExpired as e:
                rc, err = "timeout", (e.stderr or b"").decode("utf-8", "replace")[-1500:]
            if os.path.exists(outp):
                with open(outp) as f:
                    for line in f:
                        line = line.strip()
                        if line:
                            r = json.loads(line)
                            results[r["id"]] = r
            remaining = [m for m in pending if m["id"] not in results]
            if rc == 0 and not remaining:
                break
            j = {}
            if os.path.exists(jp):
                try:
                    with open(jp) as f:
                        j = json.load(f)
                except Exception:  # noqa: BLE001
                    j = {}
            ids = [m["id"] for m in remaining]
            if j.get("id") in ids:
                k = ids.index(j["id"])
                results[j["id"]] = {"id": j["id"], "stage": "died", "at": j.get("stage", "?"), "rc": rc, "err": err}
                pending = remaining[k + 1:]
                for m in remaining[:k]:
                    raise RuntimeError(f"c23 child skipped module {m['id']}")
            else:
                raise RuntimeError(f"c23 child failed (rc={rc}) without a culprit: {err[-600:]}")
    return results


# ----------------------------------------------------------------------------------------------- structural monitor
def _split_flags(text, opcode):
    """Flag words between the opcode and the first type token of an instruction's text."""
    m = re.search(r"(?:^|= )(?:(tail|musttail|notail) )?" + re.escape(opcode) + r"\b(.*)$", text)
    if not m:
        return None, set(), ""
    rest = m.group(2)
    words = set()
    for tok in rest.split():
        if tok in FLAG_WORDS:
            words.add(tok)
        else:
            break
    if "fast" in words:
        words = (words - {"fast"}) | FM7
    return m.group(1), words, rest


def _expand_fm(fl):
    fl = set(fl)
    if "fast" in fl:
        fl = (fl - {"fast"}) | FM7
    return fl


def _ll_unescape(tok):
    if tok.startswith('"'):
        tok = tok[1:-1]
        raw = bytearray()
        i = 0
        b = tok.encode("utf-8")
        while i < len(b):
            if b[i:i + 1] == b"\\":
                if b[i + 1:i + 2] == b"\\":
                    raw.append(0x5C)
                    i += 2
                else:
                    raw.append(int(b[i + 1:i + 3], 16))
                    i += 3
            else:
                raw.append(b[i])
                i += 1
        return raw.decode("utf-8", "replace")
    return tok


_NAME_TOK = r'("(?:[^"\\]|\\.)*"|[-\w.$]+)'


def _callee_of(text):
    m = re.search(r"@" + _NAME_TOK + r"\(", text)
    return _ll_unescape(m.group(1)) if m else "?"


def _align_of(text):
    m = re.search(r", align (\d+)", text)
    return int(m.group(1)) if m else None


def struct_check(mod, cres, viol, C):
    """Compare every emitted instruction with the source op's `expect`."""
    from xv.c23_ref import layout
    for f in mod.funcs:
        if f.blocks is None:
            continue
        got = cres["funcs"].get(f.name)
        if got is None:
            viol("struct:function-missing", f"function {f.name!r} has no definition in the emitted module", None)
            continue
        head = got["head"].split("@", 1)[0]
        mm = CCONV_RE.search(head)
        emitted_cc = mm.group(1) if mm else "ccc"
        if emitted_cc != f.cconv:
            viol("struct:func-cconv-dropped" if emitted_cc == "ccc" else "struct:func-cconv-changed",
                 f"llvm.func {f.cconv} @{f.name} is emitted as '{emitted_cc}' (calls to it keep '{f.cconv}': mismatch is UB)", None)
        if got["nblocks"] < len(f.blocks):
            viol("struct:block-count", f"{f.name}: {len(f.blocks)} source blocks, {got['nblocks']} emitted", None)
        exp = []
        for b in f.blocks:
            for op in list(b.ops) + [b.term]:
                if op.expect is not None:
                    exp.append(op)
        ins = [(o, t) for o, t in got["instrs"] if o != "phi" and not (o == "bitcast" and re.search(r"bitcast ptr .* to ptr", t))]
        C["struct_instructions_compared"] = C.get("struct_instructions_compared", 0) + len(ins)
        if len(ins) != len(exp):
            viol("struct:instruction-count", f"{f.name}: {len(exp)} source ops expect an instruction, {len(ins)} emitted",
                 {"expected": [o.expect.get("opc") for o in exp][:60], "emitted": [o for o, _ in ins][:60]})
            continue
        for op, (opc, text) in zip(exp, ins):
            e = op.expect
            src = op.text.split(" = ")[-1].split(" ")[0].strip('"')
            if opc != e["opc"]:
                viol(f"struct:opcode:{src}", f"{src} emitted as '{opc}' (expected '{e['opc']}'): {text}", None)
                continue
            tailk, words, rest = _split_flags(text, opc)
            if "flags" in e and opc != "call":
                want = _expand_fm(e["flags"])
                for fl in sorted(words - want):
                    viol(f"struct:flag-added:{src}:{fl}", f"{src} without '{fl}' emitted with it: {text}", None)
                for fl in sorted(want - words):
                    C[f"flags_dropped:{src}:{fl}"] = C.get(f"flags_dropped:{src}:{fl}", 0) + 1
                C["struct_flag_sets_compared"] = C.get("struct_flag_sets_compared", 0) + 1
            if "pred" in e:
                toks = rest.split()
                toks = [t for t in toks if t not in FLAG_WORDS]
                got_pred = toks[0] if toks else "?"
                if got_pred != e["pred"]:
                    viol(f"struct:predicate:{src}:{e['pred']}", f'{src} "{e["pred"]}" emitted with predicate {got_pred}: {text}', None)
                C["struct_predicates_compared"] = C.get("struct_predicates_compared", 0) + 1
            if opc == "call":
                if e.get("asm"):
                    if " asm " not in text:
                        viol("struct:inline-asm", f"inline asm emitted as {text}", None)
                    continue
                callee = _callee_of(text)
                if "callee" in e:
                    if callee != e["callee"]:
                        viol("struct:call-callee", f"call to @{e['callee']} emitted as {text}", None)
                    cc = CCONV_RE.search(text.split("@", 1)[0])
                    cc = cc.group(1) if cc else "ccc"
                    if cc != e["cconv"]:
                        viol("struct:call-cconv", f"llvm.call {e['cconv']} emitted with '{cc}': {text}", None)
                    want_tail = e["tail"]
                    got_tail = tailk or "none"
                    if got_tail != want_tail:
                        if want_tail == "notail" and got_tail == "tail":
                            viol("struct:call-notail-emitted-as-tail", f"llvm.call notail emitted as a 'tail call': {text}", None)
                        elif got_tail in ("tail", "musttail") and want_tail in ("none", "notail"):
                            viol("struct:call-tail-added", f"llvm.call ({want_tail}) emitted as '{got_tail} call': {text}", None)
                        else:
                            C[f"tail_marker_weakened:{want_tail}->{got_tail}"] = C.get(f"tail_marker_weakened:{want_tail}->{got_tail}", 0) + 1
                    _t, w2, _r = _split_flags(text, "call")
                    for fl in sorted(w2 - _expand_fm(e["flags"])):
                        viol(f"struct:flag-added:llvm.call:{fl}", f"llvm.call emitted with extra '{fl}': {text}", None)
                    C["struct_calls_compared"] = C.get("struct_calls_compared", 0) + 1
                elif not callee.startswith(e["callee_prefix"]):
                    viol(f"struct:intrinsic:{src}", f"{src} emitted as call to {callee} (expected {e['callee_prefix']}*)", None)
                else:
                    C["struct_intrinsic_calls_compared"] = C.get("struct_intrinsic_calls_compared", 0) + 1
            if opc == "alloca":
                a = _align_of(text)
                if a is not None and e.get("align") and a < e["align"]:
                    viol("struct:alloca-align-lowered", f"alloca alignment {e['align']} emitted as {a}: {text}", None)
                C["struct_alignments_compared"] = C.get("struct_alignments_compared", 0) + 1
            if opc in ("load", "store"):
                a = _align_of(text)
                eff = e.get("align") or layout(e["ty"])[1]
                if a is not None and a > eff:
                    viol(f"struct:{opc}-align-raised", f"llvm.{opc} with alignment {eff} emitted with align {a}: {text}", None)
                C["struct_alignments_compared"] = C.get("struct_alignments_compared", 0) + 1
    for g in mod.globals:
        line = None
        for ln in cres["globals"]:
            m = re.match(r"@" + _NAME_TOK + r" =", ln)
            if m and _ll_unescape(m.group(1)) == g.name:
                line = ln
                break
        if line is None:
            viol("struct:global-missing", f"global {g.name!r} not emitted", None)
            continue
        is_const = bool(re.search(r"\bconstant\b", line.split("=", 1)[1].split("[")[0].split("{")[0]))
        if is_const and not g.const:
            viol("struct:global-became-constant", f"mutable global emitted constant: {line}", None)
        a = _align_of(line)
        if g.align and (a or 0) < g.align:
            viol("struct:global-alignment-dropped", f"llvm.mlir.global with alignment = {g.align} emitted as: {line[:120]}", None)
        C["struct_globals_compared"] = C.get("struct_globals_compared", 0) + 1


# ----------------------------------------------------------------------------------------------- case pipeline
_NORM = re.compile(r"%[\w.\"]+|@[\w.\"$]+|\b\d+\b|<string>:\d+:\d+:")


def reject_key(stage, err):
    lines = [ln.strip() for ln in err.split("\n") if ln.strip()]
    msg = lines[0] if lines else "?"
    if stage == "parse-error":
        m = re.search(r"error: (.*)", err)
        msg = "parse: " + (m.group(1) if m else msg)
        # known wrong-behaviour model: a *definition* printed with the `external` keyword (LLVM reads a declaration
        # and then trips over the initializer); confirmed on the offending line itself
        off = re.search(r"error: expected top-level entity\n(@\S+ = external (?:global|constant) [^\n]+)\n( *)\^", err)
        if off and len(off.group(2)) < len(off.group(1)):
            return "llvm-rejects:external-linkage-global-with-initializer"
    return "llvm-rejects:" + _NORM.sub("#", msg)[:90]


class Env:
    pass


def setup():
    import warnings
    warnings.simplefilter("ignore")
    E = Env()
    from xdsl.backend.llvm import convert as conv, convert_op as cop, convert_type as cty
    from xdsl.parser import Parser
    from xdsl.utils.exceptions import LLVMTranslationException
    from xv.corpus import new_ctx
    E.conv, E.cop, E.cty, E.Parser, E.new_ctx = conv, cop, cty, Parser, new_ctx
    E.Unsupported = (NotImplementedError, LLVMTranslationException)
    E.reach = {}
    mon = sys.monitoring
    tool = 4
    mon.use_tool_id(tool, "xv-c23")
    codes = {}

    def on_start(code, _off):
        E.reach[codes[code]] += 1

    mon.register_callback(tool, mon.events.PY_START, on_start)
    for modl, prefix in ((cop, "convert_op."), (conv, "convert."), (cty, "convert_type.")):
        for name, fn in vars(modl).items():
            if callable(fn) and getattr(fn, "__module__", None) == modl.__name__ and hasattr(fn, "__code__") and \
                    (name.startswith("_convert") or name in ("convert_op", "convert_type", "convert_module", "create_constant",
                                                               "_declare_func", "declare_intrinsic", "intrinsic_suffix")):
                codes[fn.__code__] = prefix + name
                E.reach[prefix + name] = 0
                mon.set_local_events(tool, fn.__code__, mon.events.PY_START)
    return E


def translate(E, text, C, bump=True):
    """-> (status, ir_text | message, xdsl module). status: ok / invalid / unsupported / crash"""
    try:
        m = E.Parser(E.new_ctx(), text).parse_module()
        m.verify()
    except Exception as e:  # noqa: BLE001
        return "invalid", f"{type(e).__name__}: {str(e).strip().splitlines()[-1][:160] if str(e).strip() else ''}", None
    try:
        lm = E.conv.convert_module(m, fallback_target_triple=None)
        return "ok", str(lm), m
    except E.Unsupported as e:
        return "unsupported", f"{type(e).__name__}: {str(e)[:120]}", m
    except Exception as e:  # noqa: BLE001
        import traceback
        tb = traceback.extract_tb(e.__traceback__)
        inner = next((fr for fr in reversed(tb) if "/xdsl/" in fr.filename), tb[-1])
        return "crash", f"{type(e).__name__}:{inner.name}", m


def op_names(m):
    out = {}
    for op in m.walk():
        out[op.name] = out.get(op.name, 0) + 1
    return out


def entry_desc(f):
    return {"name": f.name, "args": [t.key for _n, t in f.args], "ret": f.ret.key if f.ret else None}


def plan_calls(mod, rng, vectors, C, micro=False):
    """Run the reference on generated vectors. -> (entries, calls, expected) where expected[i] = (func, args, value)."""
    from xv import c23_gen as G
    from xv.c23_ref import Excluded, Machine
    mach = Machine(mod)
    entries, calls, expected = [], [], []
    for f in mod.funcs:
        if not f.is_entry:
            continue
        k = len(entries)
        entries.append(entry_desc(f))
        vecs = micro_vectors(rng, f) if micro else [G.rand_args(rng, f) for _ in range(vectors)]
        for args in vecs:
            snap = mach.snapshot()
            try:
                v = mach.call(f.name, list(args))
            except Excluded as e:
                mach.restore(snap)
                r = str(e).split(":")[0] + ":" + str(e).split(":", 1)[1] if ":" in str(e) else str(e)
                C["excluded_inputs:" + r] = C.get("excluded_inputs:" + r, 0) + 1
                C["vectors_excluded"] = C.get("vectors_excluded", 0) + 1
                continue
            calls.append([k, list(args)])
            expected.append((f, list(args), v))
    for kk, n in mach.opcount.items():
        C["ref_executed:" + kk] = C.get("ref_executed:" + kk, 0) + n
    return entries, calls, expected


def micro_vectors(rng, f):
    from xv import c23_gen as G
    from xv.c23_ref import IntT
    per = []
    for _n, t in f.args:
        if isinstance(t, IntT):
            b = G.int_boundaries(t.w)
            per.append(b + [rng.getrandbits(t.w) for _ in range(4)])
        else:
            per.append(list(G._F_SPECIAL[t.w]) + [G.rand_float_bits(rng, t.w) for _ in range(6)])
    if not per:
        return [[]]
    total = 1
    for p in per:
        total *= len(p)
    if total <= 260:
        import itertools
        return [list(x) for x in itertools.product(*per)]
    out = []
    for _ in range(48):
        out.append([rng.choice(p) for p in per])
    return out


def compare(mod, cres, expected, viol, C, key_of, text):
    from xv.c23_ref import same_result
    got = cres["results"]
    if len(got) != len(expected):
        raise RuntimeError(f"child returned {len(got)} results for {len(expected)} calls")
    bad = 0
    for (f, args, want), g in zip(expected, got):
        C["vectors_compared"] = C.get("vectors_compared", 0) + 1
        if f.ret is None:
            continue
        if not same_result(want, g, f.ret):
            bad += 1
            if bad == 1:
                viol(key_of(f), f"@{f.name}({', '.join(map(hex, args))}) returned {hex(g)} natively, reference "
                     f"{'NaN' if want == -1 else hex(want)} ({f.ret.key})",
                     {"module": text, "function": f.name, "args": args, "native": g, "reference": want})
    return bad


def process_generated(E, items, R, micro=False):
    """items: [(case id, Module, key_of, rng)] -> runs the whole pipeline and records into R."""
    C = R["counters"]
    prepared = []
    for cid, mod, key_of, rng in items:
        text = mod.text()
        R["evaluations"] += 1
        h = shash(text)

        mkeys = set()

        def viol(key, summary, witness, _text=text, _cid=cid, _mk=mkeys):
            _mk.add(key)
            C["violations_raw"] = C.get("violations_raw", 0) + 1
            seen = R["_vkeys"].setdefault(key, 0)
            R["_vkeys"][key] = seen + 1
            if seen < 3:
                w = witness if isinstance(witness, dict) else {}
                w.setdefault("module", _text)
                w["replay_job"] = _cid
                R["violations"].append({"key": key, "summary": summary[:400], "witness": w})

        st, payload, xm = translate(E, text, C)
        C["modules_" + st] = C.get("modules_" + st, 0) + 1
        if st == "invalid":
            C["generator_invalid:" + payload[:70]] = C.get("generator_invalid:" + payload[:70], 0) + 1
            if len(R["extra"].setdefault("generator_invalid_samples", [])) < 3:
                R["extra"]["generator_invalid_samples"].append({"why": payload, "module": text[:3000]})
            continue
        if st == "unsupported":
            C["not_translated:" + payload[:60]] = C.get("not_translated:" + payload[:60], 0) + 1
            continue
        if st == "crash":
            C["convert_crash:" + payload] = C.get("convert_crash:" + payload, 0) + 1
            R["sets"].setdefault("convert_crash_sites", set()).add(payload)
            continue
        for n, k in op_names(xm).items():
            C["converted_op:" + n] = C.get("converted_op:" + n, 0) + k
        entries, calls, expected = plan_calls(mod, rng, VECTORS, C, micro=micro)
        prepared.append((cid, mod, text, h, viol, _known_context(key_of, mkeys), entries, calls, expected, payload))
    cres_all = run_child([{"id": str(i), "ir": p[9], "entries": p[6], "calls": p[7]} for i, p in enumerate(prepared)])
    for i, (cid, mod, text, h, viol, key_of, entries, calls, expected, ir) in enumerate(prepared):
        cres = cres_all[str(i)]
        judge(mod, text, h, cres, expected, viol, key_of, R, ir)


def _emitted_cconv_dropped(mod, ir):
    for f in mod.funcs:
        if f.cconv != "ccc" and f.blocks is not None and not re.search(r"define [^@\n]*\b" + f.cconv + r"\b[^@\n]*@", ir):
            return True
    return False


def _known_context(key_of, mkeys):
    """A result difference in a module whose llvm.func calling convention was dropped on the definition (known
    finding: the callers keep it, the mismatch is UB and x86-64 coldcc/fastcc really miscompile) gets its own key."""
    def k(f):
        if "struct:func-cconv-dropped" in mkeys:
            return "exec:wrong-result:after-func-cconv-dropped"
        return key_of(f)
    k.mkeys = mkeys
    return k


def judge(mod, text, h, cres, expected, viol, key_of, R, ir):
    C = R["counters"]
    st = cres["stage"]
    if st in ("parse-error", "verify-error"):
        C["llvm_rejected"] = C.get("llvm_rejected", 0) + 1
        viol(reject_key(st, cres["err"]), "LLVM rejects the emitted IR: " + cres["err"].strip().replace("\n", " | ")[:300],
             {"llvm_ir": ir[:6000], "error": cres["err"]})
        R["nontrivial"].append(h)
        return
    if st == "harness-wrapper-error":
        raise RuntimeError("wrapper module rejected: " + cres["err"])
    if st == "died":
        at = cres.get("at", "?")
        if at.startswith("call"):
            idx = int(at.split(":")[1])
            f, args, _want = expected[idx]
            viol("exec:native-crash-or-hang:" + ("after-func-cconv-dropped" if any(f.cconv != "ccc" for f in mod.funcs) and
                                                 _emitted_cconv_dropped(mod, ir) else mod.profile), f"native execution of @{f.name}{tuple(args)} died/hung (rc={cres.get('rc')}) "
                 "on an input the reference defines", {"function": f.name, "args": args, "stderr": cres.get("err", "")[-500:]})
        elif at in ("parse", "verify"):
            C["llvm_fatal_in_" + at] = C.get("llvm_fatal_in_" + at, 0) + 1
            viol("llvm-rejects:fatal-error-in-" + at, f"LLVM aborted while {at[:-1] if at.endswith('e') else at}ing the emitted IR: "
                 + cres.get("err", "")[-300:].replace("\n", " | "), {"llvm_ir": ir[:6000]})
        else:
            C["codegen_abort:" + at] = C.get("codegen_abort:" + at, 0) + 1
            if len(R["extra"].setdefault("codegen_abort_samples", [])) < 2:
                R["extra"]["codegen_abort_samples"].append({"module": text[:3000], "stderr": cres.get("err", "")[-400:]})
        R["nontrivial"].append(h)
        return
    C["llvm_accepted"] = C.get("llvm_accepted", 0) + 1
    struct_check(mod, cres, viol, C)
    if expected:
        compare(mod, cres, expected, viol, C, key_of, text)
        C["modules_executed"] = C.get("modules_executed", 0) + 1
        C["functions_executed"] = C.get("functions_executed", 0) + len({f.name for f, _a, _w in expected})
    R["nontrivial"].append(h)
    if len(R["samples"]) < 2 and expected and len(text) < 2500:
        f, args, want = expected[0]
        R["samples"].append({"module": text, "call": f.name, "args": args, "reference_result": want})


# ----------------------------------------------------------------------------------------------- job kinds
def new_result():
    return {"evaluations": 0, "nontrivial": [], "samples": [], "counters": {}, "sets": {}, "violations": [], "extra": {},
            "_vkeys": {}}


def work_gen(E, job, R):
    from xv import c23_gen as G
    items = []
    gen_counter = {}
    only = job.get("only")
    for i in range(job["count"]):
        if only is not None and i != only:
            continue
        prof = job["profiles"][i % len(job["profiles"])]
        rng = random.Random(f"c23/{job['seed']}/{prof}/{i}")
        mod = G.gen_module(rng, prof, gen_counter)
        cid = dict(job, only=i)
        items.append((cid, mod, (lambda f, _p=prof: "exec:wrong-result:program:" + _p), rng))
    process_generated(E, items, R)
    for k, v in gen_counter.items():
        R["counters"]["generated_op:" + k] = R["counters"].get("generated_op:" + k, 0) + v


def work_micro(E, job, R):
    from xv import c23_micro as M
    specs = M.all_specs()
    mine = [s for k, s in enumerate(specs) if k % job["nshards"] == job["shard"]]
    if job.get("only_key"):
        mine = [s for s in specs if s[0] == job["only_key"]]
    items = []
    per = 10
    # group so that an unsuffixed llvm.intr.* is used at one type per module
    groups = M.group(mine, per)
    for gi, grp in enumerate(groups):
        rng = random.Random(f"c23/micro/{job['seed']}/{job['shard']}/{gi}")
        mod, keymap = M.build_module(rng, grp)
        cid = {"kind": "micro", "seed": job["seed"], "shard": job["shard"], "nshards": job["nshards"]}
        items.append((cid, mod, (lambda f, _km=keymap: "exec:wrong-result:" + _km.get(f.name, f.name)), rng))
        R["counters"]["micro_functions"] = R["counters"].get("micro_functions", 0) + len(grp)
    process_generated(E, items, R, micro=True)


def finish(agg, tier):
    inc = []
    c = agg.counters
    need = {"quick": {"llvm_accepted": 1200, "vectors_compared": 35000, "functions_executed": 2000, "struct_instructions_compared": 60000,
                      "modules_executed": 1000, "corpus_ok": 60, "directed_ok": 15, "micro_functions": 900},
            "thorough": {"llvm_accepted": 10000, "vectors_compared": 350000, "functions_executed": 20000,
                         "struct_instructions_compared": 450000, "modules_executed": 8000, "corpus_ok": 60, "directed_ok": 15,
                         "micro_functions": 3600}}[tier]
    for k, v in need.items():
        if c.get(k, 0) < v:
            inc.append(f"{k} = {c.get(k, 0)} < {v}")
    gi = sum(v for k, v in c.items() if k.startswith("generator_invalid:"))
    if gi > 0.02 * max(1, agg.evaluations):
        inc.append(f"{gi} generated modules were rejected by the xDSL parser/verifier (generator defect)")
    nt = c.get("modules_crash", 0) + c.get("modules_unsupported", 0)
    if nt > 0.04 * max(1, nt + c.get("modules_ok", 0)):
        inc.append(f"{nt} of {nt + c.get('modules_ok', 0)} generated modules were not translated (convert_module raised): "
                   "the workload no longer reaches the backend as designed")
    ca = sum(v for k, v in c.items() if k.startswith("codegen_abort:"))
    if ca > 0.02 * max(1, c.get("llvm_accepted", 0)):
        inc.append(f"{ca} modules aborted in LLVM code generation")
    conv = sorted(k for k in c if k.startswith("reach:"))
    unreached = [k[6:] for k in conv if c[k] == 0]
    if unreached:
        inc.append("converters never entered: " + ", ".join(unreached))
    if not conv:
        inc.append("no reach counters")
    ops = {k[13:] for k in c if k.startswith("converted_op:")}
    missing = sorted(EXPECTED_OPS - ops)
    if missing:
        inc.append("source ops never converted: " + ", ".join(missing))
    cov = {
        "converter_reach": {k[6:]: c[k] for k in conv},
        "converted_ops": {k[13:]: v for k, v in sorted(c.items()) if k.startswith("converted_op:")},
        "excluded": {k[16:]: v for k, v in sorted(c.items()) if k.startswith("excluded_inputs:")},
        "not_translated": {k: v for k, v in sorted(c.items()) if k.startswith(("not_translated:", "convert_crash:"))},
        "flags_dropped": {k[14:]: v for k, v in sorted(c.items()) if k.startswith("flags_dropped:")},
    }
    return {"inconclusive": inc, "coverage": cov}


EXPECTED_OPS = {"llvm." + n for n in (
    "add fadd sub fsub mul fmul udiv sdiv fdiv urem srem frem shl lshr ashr and or xor icmp fcmp trunc zext sext ptrtoint "
    "inttoptr bitcast fpext sitofp intr.fabs intr.exp intr.ceil intr.sin intr.floor intr.exp2 intr.sqrt intr.log intr.cos "
    "intr.log2 intr.pow intr.maxnum intr.minnum intr.copysign intr.vector.reduce.fadd intr.vector.reduce.fmul fneg call "
    "alloca load store extractvalue insertvalue getelementptr inline_asm br cond_br unreachable select intr.masked.store "
    "return mlir.zero mlir.undef mlir.addressof call_intrinsic insertelement shufflevector intr.fma mlir.constant func "
    "mlir.global").split()}


# ----------------------------------------------------------------------------------------------- directed / corpus
def _direct_pipeline(E, R, cases, keyprefix):
    """cases: [(name, text or xdsl module, calls, must, mustnot)] without generator structure."""
    C = R["counters"]
    prepared = []
    for name, src, calls, must, mustnot in cases:
        R["evaluations"] += 1
        if isinstance(src, str):
            st, payload, xm = translate(E, src, C)
            text = src
        else:
            text = None
            try:
                payload, st, xm = str(E.conv.convert_module(src, fallback_target_triple=None)), "ok", src
            except E.Unsupported as e:
                st, payload, xm = "unsupported", f"{type(e).__name__}: {str(e)[:120]}", src
            except Exception as e:  # noqa: BLE001
                import traceback
                tb = traceback.extract_tb(e.__traceback__)
                inner = next((fr for fr in reversed(tb) if "/xdsl/" in fr.filename), tb[-1])
                st, payload = "crash", f"{type(e).__name__}:{inner.name}"
        C[f"{keyprefix}_{st}"] = C.get(f"{keyprefix}_{st}", 0) + 1
        if st == "invalid":
            C[f"{keyprefix}_invalid:{name}"] = 1
            R["extra"].setdefault("invalid", []).append({"name": name, "why": payload})
            continue
        if st == "unsupported":
            k = re.sub(r"\d+", "#", payload)[:70]
            C["not_translated:" + k] = C.get("not_translated:" + k, 0) + 1
            continue
        if st == "crash":
            C["convert_crash:" + payload] = C.get("convert_crash:" + payload, 0) + 1
            R["sets"].setdefault("convert_crash_sites", set()).add(payload)
            R["sets"].setdefault(f"{keyprefix}_convert_crash", set()).add(f"{name}: {payload}")
            continue
        for n, k in op_names(xm).items():
            C["converted_op:" + n] = C.get("converted_op:" + n, 0) + k
        if text is None:
            import io
            from xdsl.printer import Printer
            buf = io.StringIO()
            Printer(stream=buf).print_op(xm)
            text = buf.getvalue()
        entries, cl, exp = [], [], []
        for fn, ats, rt, args, want in calls:
            d = {"name": fn, "args": list(ats), "ret": rt}
            if d not in entries:
                entries.append(d)
            cl.append([entries.index(d), list(args)])
            exp.append((fn, args, want, rt))
        prepared.append((name, text, payload, entries, cl, exp, must, mustnot))
    res = run_child([{"id": str(i), "ir": p[2], "entries": p[3], "calls": p[4]} for i, p in enumerate(prepared)])
    for i, (name, text, ir, entries, cl, exp, must, mustnot) in enumerate(prepared):
        cres = res[str(i)]
        h = shash(text)
        R["nontrivial"].append(h)

        def viol(key, summary, witness=None, _t=text, _ir=ir, _n=name):
            seen = R["_vkeys"].setdefault(key, 0)
            R["_vkeys"][key] = seen + 1
            if seen < 3:
                w = dict(witness or {})
                w.update({"case": _n, "module": _t[:8000], "llvm_ir": _ir[:6000]})
                R["violations"].append({"key": key, "summary": f"[{_n}] {summary}"[:400], "witness": w})

        st = cres["stage"]
        if st in ("parse-error", "verify-error"):
            C["llvm_rejected"] = C.get("llvm_rejected", 0) + 1
            viol(reject_key(st, cres["err"]), "LLVM rejects the emitted IR: " + cres["err"].strip().replace("\n", " | ")[:300], {"error": cres["err"]})
            continue
        if st == "harness-wrapper-error":
            raise RuntimeError(f"wrapper for {name}: {cres['err']}")
        if st == "died":
            at = cres.get("at", "?")
            if at.startswith("call"):
                fn, args, want, rt = exp[int(at.split(":")[1])]
                viol(f"exec:native-crash-or-hang:{keyprefix}:{name}", f"native execution of @{fn}{tuple(args)} died/hung (rc={cres.get('rc')})")
            elif at in ("parse", "verify"):
                viol("llvm-rejects:fatal-error-in-" + at, "LLVM aborted on the emitted IR: " + cres.get("err", "")[-300:].replace("\n", " | "))
            else:
                C["codegen_abort:" + at] = C.get("codegen_abort:" + at, 0) + 1
            continue
        C["llvm_accepted"] = C.get("llvm_accepted", 0) + 1
        for rx, suffix in must:
            if not re.search(rx, ir):
                viol("struct:" + suffix, f"emitted IR lacks /{rx}/")
        for rx, suffix in mustnot:
            if re.search(rx, ir):
                viol("struct:" + suffix, f"emitted IR contains /{rx}/")
        if exp:
            C["modules_executed"] = C.get("modules_executed", 0) + 1
            for (fn, args, want, rt), got in zip(exp, cres["results"]):
                C["vectors_compared"] = C.get("vectors_compared", 0) + 1
                w = {"i1": 1, "i8": 8, "i16": 16, "i32": 32, "i64": 64, "f32": 32, "f64": 64}[rt]
                if got & ((1 << w) - 1) != want:
                    viol(f"exec:wrong-result:{keyprefix}:{name}", f"@{fn}({', '.join(map(hex, args))}) returned {hex(got)} natively, expected {hex(want)}",
                         {"function": fn, "args": args, "native": got, "expected": want})


def work_directed(E, job, R):
    from xv.c23_directed import SHAPES
    cases = [(s["name"], s["text"], s["calls"], s["must"], s["mustnot"]) for s in SHAPES]
    _direct_pipeline(E, R, cases, "directed")
    R["counters"]["directed_shapes"] = len(cases)


def _declaration_of(L, op):
    props = {k: v for k, v in op.properties.items()}
    new = L.FuncOp.create(properties=props, attributes=dict(op.attributes), regions=[__import__("xdsl.ir", fromlist=["Region"]).Region()])
    return new


def work_corpus(E, job, R):
    from xdsl.dialects import llvm as L
    from xv import corpus
    C = R["counters"]
    chunks = [(f, i, t) for (f, i, t) in corpus.chunks() if "llvm." in t]
    mine = corpus.shard(chunks, job["shard"], job["nshards"])
    cases = []
    for f, i, t in mine:
        C["corpus_chunks_with_llvm"] = C.get("corpus_chunks_with_llvm", 0) + 1
        pv = corpus.parse_verified(t, f)
        if pv is None:
            C["corpus_not_verified"] = C.get("corpus_not_verified", 0) + 1
            continue
        _ctx, xm = pv
        backend = "backend/llvm" in f
        if backend:
            C["corpus_backend_llvm_chunks"] = C.get("corpus_backend_llvm_chunks", 0) + 1
        cases.append((f"{f}#{i}", xm, [], [], []))
        # slices: one defined function at a time, the others reduced to declarations
        top = list(xm.ops)
        if not all(isinstance(o, (L.FuncOp, L.GlobalOp)) for o in top):
            # mixed module: keep only the llvm.func / llvm.mlir.global ops when that still verifies
            if any(isinstance(o, L.FuncOp) for o in top):
                c = xm.clone()
                for o in list(c.ops):
                    if not isinstance(o, (L.FuncOp, L.GlobalOp)):
                        c.body.block.detach_op(o)
                try:
                    c.verify()
                    cases.append((f"{f}#{i}@llvm-only", c, [], [], []))
                    C["corpus_llvm_only_extracts"] = C.get("corpus_llvm_only_extracts", 0) + 1
                except Exception:  # noqa: BLE001
                    C["corpus_slice_not_verified"] = C.get("corpus_slice_not_verified", 0) + 1
            continue
        defined = [k for k, o in enumerate(top) if isinstance(o, L.FuncOp) and o.body.blocks]
        if len(defined) < 2:
            continue
        for k in defined:
            c = xm.clone()
            ops = list(c.ops)
            blk = c.body.block
            for kk in defined:
                if kk != k:
                    old = ops[kk]
                    new = _declaration_of(L, old)
                    blk.insert_op_before(new, old)
                    blk.detach_op(old)
            try:
                c.verify()
            except Exception:  # noqa: BLE001
                C["corpus_slice_not_verified"] = C.get("corpus_slice_not_verified", 0) + 1
                continue
            cases.append((f"{f}#{i}@{ops[k].sym_name.data}", c, [], [], []))
            C["corpus_slices"] = C.get("corpus_slices", 0) + 1
    _direct_pipeline(E, R, cases, "corpus")


# ----------------------------------------------------------------------------------------------- plan / work
ALL_PROFILES = ["straight", "cfg", "mem", "call", "vec", "mix"]


def plan(tier, seed):
    jobs = [{"kind": "directed"}]
    ncorp = 2 if tier == "quick" else 4
    jobs += [{"kind": "corpus", "shard": i, "nshards": ncorp} for i in range(ncorp)]
    nm = 12 if tier == "quick" else 16
    for rep in range(1 if tier == "quick" else 4):
        jobs += [{"kind": "micro", "seed": seed * 10 + rep, "shard": i, "nshards": nm} for i in range(nm)]
    ng, per = (32, 66) if tier == "quick" else (64, 300)
    for i in range(ng):
        jobs.append({"kind": "gen", "seed": f"{seed}.{i}", "count": per, "profiles": ALL_PROFILES})
    return jobs


def work(job):
    E = setup()
    R = new_result()
    kind = job["kind"]
    if kind == "gen":
        work_gen(E, job, R)
    elif kind == "micro":
        work_micro(E, job, R)
    elif kind == "directed":
        work_directed(E, job, R)
    elif kind == "corpus":
        work_corpus(E, job, R)
    else:
        raise KeyError(kind)
    for k, v in E.reach.items():
        R["counters"]["reach:" + k] = v
    R["sets"] = {k: sorted(v) for k, v in R["sets"].items()}
    del R["_vkeys"]
    return R
