"""C26 - Affine expression algebra preserves values.

Reference-model differential monitor.  Random pure-affine trees are generated in an independent tuple
representation (xv/c26_ref.py).  The real xDSL code builds / transforms the corresponding AffineExpr /
AffineMap objects (operator overloads with ints and exprs on either side, raw AffineBinaryOpExpr
constructors, AffineExpr.binary, the affine parser on text produced by our own renderer, from_callable,
simplify, SimpleAffineExprFlattener (also shared between expressions), from_flat_form, compose,
replace_dims_and_symbols, str -> parser, AffineMap compose / eval / drop_* / permutation helpers), and
every resulting expression is evaluated with the real `eval` on all points of a box (plus far points) and
compared with our evaluator on the *intended* tree.  A second monitor reads the structure of every xDSL
result back into our representation and compares `eval` with that, so a mismatch is attributed either
to the transformation or to `AffineExpr.eval`."""
from __future__ import annotations

import itertools
import random

from xv import c26_ref as R
from xv.harness import shash

ID = "C26"
LEVEL = "exploration"
RULE = ("a case is (construction mode, random pure-affine tree over 1-3 dims / 0-2 symbols, depth <= 5 (6 thorough), "
        "positive constant divisors, constants incl. negative and > 2^31) generated from the seed, with re-used "
        "sub-terms and div/mod idioms; every expression derived from it by the real code (build, simplify, shared "
        "flattener, compose, replace, print->parse, map operations) is evaluated at all points of the box "
        "[-4,5]^dims x [-2,3]^syms (sampled when > 1000 points) plus far points; non-trivial = the tree has >= 2 "
        "operator nodes and mentions a dim or symbol; distinct = distinct (mode, tree) / (map case) hashes")
LEVEL_TEXT = ("The value of every built / simplified / composed / substituted / re-parsed expression was compared, point "
              "by point, with an independent evaluator of the intended tree (explicit floor / ceil / mathematical mod "
              "semantics); held = no point disagreed on the expressions explored.")
LEVEL_NOTE = ("trusts the tuple-tree evaluator and substitution of xv/c26_ref.py (fast compiled form cross-checked against "
              "the slow explicit-floor evaluator on every tree), CPython integer arithmetic")
TECHNIQUE = "reference-model differential monitor (evaluation differential at every point) with reach counters at the anchors"
ENGINES = ["harness", "models"]
ASSUMPTIONS = ["divisors of floordiv / ceildiv / mod are positive constants (the property's domain)",
               "semi-affine forms that xDSL rejects with NotImplementedError are out of scope and counted",
               "the oracle evaluator in xv/c26_ref.py is correct"]
JOB_TIMEOUT = {"quick": 3600, "thorough": 14400}

RSUB_KEY = "rsub-int-minus-expr-swapped"
# (shards, cases per shard); importing xdsl costs ~2 CPU-s per shard, a case ~25-40 ms
SHARDS = {"quick": {"expr": (16, 240), "map": (8, 120)}, "thorough": {"expr": (48, 1500), "map": (16, 900)}}


class HarnessBug(Exception):
    pass


# ====================================================================== worker state
class W:
    """Per-worker state (filled by `setup`)."""
    C: dict = {}
    sets: dict = {}
    violations: list = []
    seen_keys: dict = {}
    spaces: dict = {}
    ctx = None
    job: dict = {}
    case_id = None


def cnt(name, n=1):
    W.C[name] = W.C.get(name, 0) + n


def violation(key, summary, witness):
    W.seen_keys[key] = W.seen_keys.get(key, 0) + 1
    cnt("violations_observed")
    if W.seen_keys[key] <= 3 and len(W.violations) < 40:
        if W.case_id is not None:
            witness = dict(witness)
            witness["replay_job"] = {"kind": W.job["kind"], "seed": W.job["seed"], "tier": W.job.get("tier", "quick"),
                                     "shard": W.job["shard"], "only": W.case_id}
        W.violations.append({"key": key, "summary": summary[:400], "witness": witness})


# ====================================================================== reach counters at the anchors
def install_monitors():
    from xdsl.ir.affine import affine_expr as ae
    from xdsl.ir.affine import affine_map as am
    from xdsl.parser import affine_parser as ap

    def wrap(cls, name, label=None, static=False):
        orig = cls.__dict__[name]
        fn = orig.__func__ if static else orig
        lab = "reach:" + (label or f"{cls.__name__}.{name}")

        def w(*a, **k):
            W.C[lab] = W.C.get(lab, 0) + 1
            return fn(*a, **k)

        w.__name__ = name
        w.__qualname__ = getattr(fn, "__qualname__", name)
        setattr(cls, name, staticmethod(w) if static else w)

    for n in ("__add__", "__radd__", "__sub__", "__rsub__", "__mul__", "__rmul__", "__neg__", "__floordiv__",
              "ceil_div", "__mod__", "simplify", "compose", "replace_dims_and_symbols"):
        wrap(ae.AffineExpr, n)
    wrap(ae.AffineExpr, "binary", static=True)
    wrap(ae.AffineExpr, "from_flat_form", static=True)
    for n in ("visit_mul_expr", "visit_add_expr", "visit_div_expr", "visit_mod_expr", "add_local_floordiv_id",
              "simplify"):
        wrap(ae.SimpleAffineExprFlattener, n)
    for n in ("compose", "replace_dims_and_symbols", "eval", "drop_dims", "drop_results", "inverse_permutation",
              "inverse_and_broadcast_projected_permutation", "apply_permutation"):
        wrap(am.AffineMap, n)
    wrap(am.AffineMap, "from_callable", static=True)
    for n in ("_create_binop_expr", "parse_affine_map", "parse_affine_map_of_ssa_ids"):
        wrap(ap.AffineParser, n)

    # constant folding in the operator overloads: count by kind, and negative dividends
    fold = ae.AffineExpr._try_fold_constant

    def fold_w(self, other, kind):
        r = fold(self, other, kind)
        if r is not None:
            lab = "fold:" + kind.name
            W.C[lab] = W.C.get(lab, 0) + 1
            if kind.name in ("Mod", "FloorDiv", "CeilDiv") and self.value < 0:
                W.C["fold_negative_dividend:" + kind.name] = W.C.get("fold_negative_dividend:" + kind.name, 0) + 1
        return r

    ae.AffineExpr._try_fold_constant = fold_w
    find = ae.SimpleAffineExprFlattener.find_local_id

    def find_w(self, e):
        r = find(self, e)
        W.C["flattener_find_local_id"] = W.C.get("flattener_find_local_id", 0) + 1
        if r != -1:
            W.C["flattener_local_id_reused"] = W.C.get("flattener_local_id_reused", 0) + 1
        return r

    ae.SimpleAffineExprFlattener.find_local_id = find_w


# ====================================================================== points
def space(nd, ns):
    """Evaluation points of the (nd, ns) space: the whole box when <= 1000 points, else a fixed sample with the
    corners; plus far points.  Each point is (dims list, syms list, padded 8-tuple)."""
    key = (nd, ns)
    if key in W.spaces:
        return W.spaces[key]
    rng = random.Random(f"c26-space-{nd}-{ns}")
    box = 10 ** nd * 6 ** ns
    pts = []
    if box <= 1000:
        for d in itertools.product(range(-4, 6), repeat=nd):
            for s in itertools.product(range(-2, 4), repeat=ns):
                pts.append((d, s))
    else:
        seen = set()
        for d in itertools.product((-4, 5), repeat=nd):
            for s in itertools.product((-2, 3), repeat=ns):
                seen.add((d, s))
        while len(seen) < 420:
            seen.add((tuple(rng.randint(-4, 5) for _ in range(nd)), tuple(rng.randint(-2, 3) for _ in range(ns))))
        pts = sorted(seen)
    far = [-1000, -129, -64, -17, 17, 63, 100, 999, 2 ** 33 + 5, -(2 ** 33) - 7, 2 ** 70 + 1]
    for _ in range(14):
        pts.append((tuple(rng.choice(far) for _ in range(nd)), tuple(rng.choice(far) for _ in range(ns))))
    out = []
    for d, s in pts:
        pad = tuple(d) + (0,) * (R.MAXD - nd) + tuple(s) + (0,) * (R.MAXS - ns)
        out.append((list(d), list(s), pad))
    W.spaces[key] = out
    return out


_compiled: dict = {}


def oracle(t):
    """compiled evaluator of a tree, cross-checked against the slow explicit-floor evaluator"""
    f = _compiled.get(t)
    if f is None:
        f = R.compile_tree(t)
        if len(_compiled) > 4000:
            _compiled.clear()
        _compiled[t] = f
        rng = random.Random(len(t))
        stats: dict = {}
        for _ in range(6):
            d = [rng.choice([-1000, -7, -4, -3, -1, 0, 1, 2, 5, 9, 2 ** 40]) for _ in range(R.MAXD)]
            s = [rng.choice([-9, -2, -1, 0, 1, 3, 11]) for _ in range(R.MAXS)]
            try:
                want = R.ev(t, d, s, stats)
            except ZeroDivisionError:
                continue
            if f(*d, *s) != want:
                raise HarnessBug(f"compiled oracle disagrees with reference evaluator on {R.full_text(t)} at {d} {s}")
            cnt("oracle_selfcheck_points")
        for k, v in stats.items():
            cnt("oracle_negative_dividend_evals:" + k, v)
    return f


# ====================================================================== reading xDSL structure back
def to_tree(e):
    from xdsl.ir.affine import (AffineBinaryOpExpr, AffineBinaryOpKind, AffineConstantExpr, AffineDimExpr,
                                AffineSymExpr)
    if type(e) is AffineConstantExpr:
        return ("c", e.value)
    if type(e) is AffineDimExpr:
        return ("d", e.position)
    if type(e) is AffineSymExpr:
        return ("s", e.position)
    if type(e) is AffineBinaryOpExpr:
        k = {AffineBinaryOpKind.Add: "add", AffineBinaryOpKind.Mul: "mul", AffineBinaryOpKind.Mod: "mod",
             AffineBinaryOpKind.FloorDiv: "fd", AffineBinaryOpKind.CeilDiv: "cd"}[e.kind]
        return (k, to_tree(e.lhs), to_tree(e.rhs))
    raise HarnessBug(f"not an AffineExpr: {e!r}")


# ====================================================================== the comparison engine
def compare(tag, X, want_tree, nd, ns, info, refine=None):
    """X: xDSL AffineExpr living in the (nd, ns) space; want_tree: intended tree.  Evaluates the real `eval`
    at every point.  Returns True when everything agreed."""
    from xdsl.ir.affine import AffineExpr
    if not isinstance(X, AffineExpr):
        violation(f"{tag}:not-an-expr", f"{tag} returned {type(X).__name__}", dict(info, returned=repr(X)[:200]))
        return False
    f = oracle(want_tree)
    try:
        st_tree = to_tree(X)
        g = oracle(st_tree)
    except R.OracleError as e:
        violation(f"{tag}:index-out-of-space", f"{tag}: result mentions an out-of-space identifier: {e}",
                  dict(info, xdsl_result=str(X)))
        return False
    pts = space(nd, ns)
    cnt("compared:" + tag)
    cnt("points_compared", len(pts))
    for d, s, pad in pts:
        want = f(*pad)
        try:
            got = X.eval(d, s)
        except (ZeroDivisionError, IndexError) as e:
            violation(f"{tag}:eval-raises:{type(e).__name__}", f"{tag}: eval of the result raises {e!r}",
                      dict(info, xdsl_result=str(X), point={"dims": d, "syms": s}))
            return False
        if got == want and type(got) is int:
            continue
        try:
            st = g(*pad)
        except ZeroDivisionError:
            st = "ZeroDivisionError"
        wit = dict(info, xdsl_result=str(X), point={"dims": d, "syms": s}, got=got, want=want,
                   intended=R.full_text(want_tree))
        if st != got:
            violation("eval-disagrees-with-structure",
                      f"AffineExpr.eval gives {got} but the expression tree {X} means {st} at dims={d} syms={s}", wit)
        else:
            key = tag
            if refine is not None:
                suffix, extra = refine()
                key += suffix
                wit.update(extra)
            violation(key, f"{key}: value {got} != intended {want} at dims={d} syms={s}; intended "
                           f"{R.full_text(want_tree)[:120]}; got {str(X)[:120]}", wit)
        return False
    return True


def same_values(X, want_tree, nd, ns):
    """structure-only comparison (no xDSL eval), used by localisers / classifiers"""
    f, g = oracle(want_tree), oracle(to_tree(X))
    return all(f(*p[2]) == g(*p[2]) for p in space(nd, ns))


# ====================================================================== builders (intended tree -> xDSL)
class Builder:
    """Builds the xDSL expression of a tree in one of the modes and records python source for the witness."""

    def __init__(self, mode, rng, nd, ns, dim_leaves=None, sym_leaves=None):
        self.mode, self.rng, self.nd, self.ns = mode, rng, nd, ns
        self.dim_leaves, self.sym_leaves = dim_leaves, sym_leaves
        self.nodes: list = []  # (tree, xdsl expr, variant) in post-order, for the localiser
        self.const_left = False

    def leaf(self, t):
        from xdsl.ir.affine import AffineConstantExpr, AffineDimExpr, AffineExpr, AffineSymExpr
        k = t[0]
        alt = self.rng.random() < 0.5
        if k == "c":
            return (AffineExpr.constant(t[1]) if alt else AffineConstantExpr(t[1])), f"C({t[1]})"
        if k == "d":
            if self.dim_leaves is not None:
                return self.dim_leaves[t[1]], f"d{t[1]}"
            return (AffineExpr.dimension(t[1]) if alt else AffineDimExpr(t[1])), f"d{t[1]}"
        if self.sym_leaves is not None:
            return self.sym_leaves[t[1]], f"s{t[1]}"
        return (AffineExpr.symbol(t[1]) if alt else AffineSymExpr(t[1])), f"s{t[1]}"

    def build(self, t):
        e, src = getattr(self, "b_" + self.mode)(t)
        return e, src

    # -- operator overloads, ints or exprs on either side
    def b_ops(self, t):
        from xdsl.ir.affine import AffineConstantExpr
        k = t[0]
        rng = self.rng
        if k in ("c", "d", "s"):
            return self.leaf(t)
        if k == "neg":
            a, sa = self.b_ops(t[1])
            r, src, var = -a, f"(-{sa})", "neg"
        else:
            a_t, b_t = t[1], t[2]
            a_int = a_t[0] == "c" and k in ("add", "sub", "mul") and rng.random() < 0.5
            b_int = b_t[0] == "c" and rng.random() < 0.5
            if a_int and b_int:
                if rng.random() < 0.5:
                    a_int = False
                else:
                    b_int = False
            a, sa = (a_t[1], repr(a_t[1])) if a_int else self.b_ops(a_t)
            b, sb = (b_t[1], repr(b_t[1])) if b_int else self.b_ops(b_t)
            var = k + (":int-lhs" if a_int else "") + (":int-rhs" if b_int else "")
            if k == "add":
                r, src = a + b, f"({sa} + {sb})"
            elif k == "sub":
                r, src = a - b, f"({sa} - {sb})"
                if a_int:
                    cnt("ops_int_minus_expr")
                    r = self.check_rsub(r, a, b, b_t, src)
            elif k == "mul":
                r, src = a * b, f"({sa} * {sb})"
            elif k == "fd":
                r, src = a // b, f"({sa} // {sb})"
            elif k == "cd":
                r, src = a.ceil_div(b), f"{sa}.ceil_div({sb})"
            else:
                r, src = a % b, f"({sa} % {sb})"
            if R.is_const(t):
                cnt("ops_constant_subtree_nodes")
                if type(r) is not AffineConstantExpr:
                    cnt("ops_constant_subtree_not_folded")
        cnt("built_node:ops:" + var)
        self.nodes.append((t, r, var))
        return r, src

    def check_rsub(self, r, c, b, b_t, src):
        """`int - expr`: local check so that the known __rsub__ defect is classified narrowly (the result equals
        expr - int everywhere) and repaired for the rest of the case."""
        from xdsl.ir.affine import AffineConstantExpr
        want = ("sub", ("c", c), b_t)
        if same_values(r, want, self.nd, self.ns):
            cnt("ops_int_minus_expr_correct")
            return r
        swapped = ("sub", b_t, ("c", c))
        wit = {"python": src, "intended": R.full_text(want), "xdsl_result": str(r), "nd": self.nd, "ns": self.ns}
        if same_values(r, swapped, self.nd, self.ns):
            violation(RSUB_KEY, f"int - AffineExpr returns expr - int: {src} gave {r}", wit)
        else:
            violation("construct:ops:sub:int-lhs", f"int - AffineExpr wrong (and not the swapped form): {src} gave {r}", wit)
        return AffineConstantExpr(c) - b

    def _const_rhs(self, t):
        """raw / binary modes: constant operand of mul / div / mod as one literal"""
        from xdsl.ir.affine import AffineConstantExpr
        v = R.ev(t, (), ())
        return AffineConstantExpr(v), f"C({v})"

    def b_raw(self, t):
        from xdsl.ir.affine import AffineBinaryOpExpr as B
        from xdsl.ir.affine import AffineBinaryOpKind as K
        from xdsl.ir.affine import AffineConstantExpr
        k = t[0]
        if k in ("c", "d", "s"):
            return self.leaf(t)
        if k == "neg":
            a, sa = self.b_raw(t[1])
            r, src = B(K.Mul, a, AffineConstantExpr(-1)), f"Mul({sa}, C(-1))"
        elif k == "add":
            (a, sa), (b, sb) = self.b_raw(t[1]), self.b_raw(t[2])
            r, src = B(K.Add, a, b), f"Add({sa}, {sb})"
        elif k == "sub":
            (a, sa), (b, sb) = self.b_raw(t[1]), self.b_raw(t[2])
            r, src = B(K.Add, a, B(K.Mul, b, AffineConstantExpr(-1))), f"Add({sa}, Mul({sb}, C(-1)))"
        elif k == "mul":
            x_t, c_t = (t[1], t[2]) if R.is_const(t[2]) else (t[2], t[1])
            (a, sa), (c, sc) = self.b_raw(x_t), self._const_rhs(c_t)
            if self.rng.random() < 0.04:
                self.const_left = True
                r, src = B(K.Mul, c, a), f"Mul({sc}, {sa})"
            else:
                r, src = B(K.Mul, a, c), f"Mul({sa}, {sc})"
        else:
            (a, sa), (c, sc) = self.b_raw(t[1]), self._const_rhs(t[2])
            kind = {"fd": K.FloorDiv, "cd": K.CeilDiv, "mod": K.Mod}[k]
            r, src = B(kind, a, c), f"{kind.name}({sa}, {sc})"
        cnt("built_node:raw:" + k)
        self.nodes.append((t, r, k))
        return r, src

    def b_binary(self, t):
        from xdsl.ir.affine import AffineBinaryOpKind as K
        from xdsl.ir.affine import AffineConstantExpr, AffineExpr
        k = t[0]
        if k in ("c", "d", "s"):
            return self.leaf(t)
        if k == "neg":
            a, sa = self.b_binary(t[1])
            r, src = AffineExpr.binary(K.Mul, a, AffineConstantExpr(-1)), f"binary(Mul, {sa}, C(-1))"
        elif k == "sub":
            (a, sa), (b, sb) = self.b_binary(t[1]), self.b_binary(t[2])
            r = AffineExpr.binary(K.Add, a, AffineExpr.binary(K.Mul, b, AffineConstantExpr(-1)))
            src = f"binary(Add, {sa}, binary(Mul, {sb}, C(-1)))"
        else:
            (a, sa), (b, sb) = self.b_binary(t[1]), self.b_binary(t[2])
            kind = {"add": K.Add, "mul": K.Mul, "fd": K.FloorDiv, "cd": K.CeilDiv, "mod": K.Mod}[k]
            r, src = AffineExpr.binary(kind=kind, lhs=a, rhs=b), f"binary({kind.name}, {sa}, {sb})"
        cnt("built_node:binary:" + k)
        self.nodes.append((t, r, k))
        return r, src

    def b_text(self, t):
        names = naming(self.rng, self.nd, self.ns)
        txt = R.render(t, self.rng, names[0], names[1])
        head = "(" + ", ".join(names[0]) + ")" + ("[" + ", ".join(names[1]) + "]" if self.ns or self.rng.random() < 0.3 else "")
        text = f"{head} -> ({txt})"
        m = parse_map(text, via_attr=self.rng.random() < 0.5)
        if (m.num_dims, m.num_symbols, len(m.results)) != (self.nd, self.ns, 1):
            violation("construct:text:map-shape", f"parsed map has wrong shape for {text}", {"text": text, "parsed": str(m)})
        return m.results[0], text


def naming(rng, nd, ns):
    r = rng.random()
    if r < 0.5:
        return [f"d{i}" for i in range(nd)], [f"s{i}" for i in range(ns)]
    if r < 0.65:  # hostile: dims called s*, symbols called d*
        return [f"s{i}" for i in range(nd)], [f"d{i}" for i in range(ns)]
    if r < 0.8:  # reversed numbering
        return [f"d{nd - 1 - i}" for i in range(nd)], [f"s{ns - 1 - i}" for i in range(ns)]
    return ["i", "j", "k", "l"][:nd], ["N", "M_1", "n$x", "p.q"][:ns]


def parse_map(text, via_attr=False):
    from xdsl.parser import Parser
    from xdsl.utils.exceptions import ParseError
    try:
        if via_attr:
            cnt("parsed_via_attribute")
            return Parser(W.ctx, f"affine_map<{text}>").parse_attribute().data
        cnt("parsed_via_parse_affine_map")
        p = Parser(W.ctx, text)
        m = p.parse_affine_map()
        return m
    except ParseError as e:
        raise ParseFailed(text, e) from e


class ParseFailed(Exception):
    def __init__(self, text, err):
        super().__init__(text)
        self.text, self.err = text, err


def localise(builder, nd, ns):
    """first node (post-order) whose built value differs from its own subtree: the culprit operator application"""
    for t, e, var in builder.nodes:
        try:
            if not same_values(e, t, nd, ns):
                return var, R.full_text(t), str(e)
        except (ZeroDivisionError, R.OracleError):
            return var, R.full_text(t), str(e)
    return None


# ====================================================================== expression cases
MODES = ["ops"] * 8 + ["raw"] * 5 + ["binary"] * 2 + ["text"] * 5


def xcall(tag, info, fn, *a, allow_notimpl=False):
    """Call into xDSL; an exception raised by the real code on in-domain input is an observation."""
    try:
        return True, fn(*a)
    except NotImplementedError as e:
        if allow_notimpl:
            return False, e
        violation(f"{tag}:NotImplementedError-on-pure-affine", f"{tag} rejects a pure affine input: {e}"[:300], info)
        return False, e
    except ParseFailed as e:
        violation(f"{tag}:ParseError", f"{tag}: text does not parse: {e.text[:150]} :: {str(e.err)[-120:]}",
                  dict(info, text=e.text))
        return False, e
    except HarnessBug:
        raise
    except Exception as e:  # noqa: BLE001 - raised inside the xDSL call
        violation(f"crash:{tag}:{type(e).__name__}", f"{tag} raised {type(e).__name__}: {e}"[:300],
                  dict(info, exception=repr(e)[:300]))
        return False, e


def gen_case_tree(rng, tier):
    nd = rng.choice([1, 2, 2, 2, 3])
    ns = rng.choice([0, 1, 1, 2])
    depth = rng.choice([1, 2, 3, 3, 4, 4, 5, 5] + ([5, 6] if tier == "thorough" else []))
    for _ in range(8):
        pool: list = []
        T = R.gen_tree(rng, depth, nd, ns, pool)
        if T[0] not in "cds":
            break
    return nd, ns, depth, pool, T


def build_any(rng, t, nd, ns, modes=("ops", "raw", "binary")):
    b = Builder(rng.choice(modes), rng, nd, ns)
    e, _ = b.build(t)
    return e


def header(nd, ns):
    return "(" + ", ".join(f"d{i}" for i in range(nd)) + ")" + ("[" + ", ".join(f"s{i}" for i in range(ns)) + "]" if ns else "")


def run_expr_case(rng, tier, res):
    from xdsl.ir.affine import AffineExpr, AffineMap, SimpleAffineExprFlattener
    nd, ns, depth, pool, T = gen_case_tree(rng, tier)
    mode = rng.choice(MODES)
    info = {"mode": mode, "nd": nd, "ns": ns, "tree": R.full_text(T)}
    cnt("cases:expr")
    cnt("cases:mode:" + mode)
    kinds = R.kinds(T)
    for k, v in kinds.items():
        cnt("tree_nodes:" + k, v)
    W.sets.setdefault("tree_depths", set()).add(str(R.depth(T)))
    nontrivial = sum(v for k, v in kinds.items() if k not in "cds") >= 2 and (kinds.get("d", 0) + kinds.get("s", 0)) > 0
    if nontrivial:
        res["nontrivial"].append(shash((mode, T)))
    b = Builder(mode, rng, nd, ns)
    ok, built = xcall(f"construct:{mode}", info, b.build, T)
    if not ok:
        return
    E, src = built
    info["python" if mode != "text" else "text"] = src
    if len(res["samples"]) < 2:
        res["samples"].append(dict(info, xdsl=str(E)))

    # 1. construction
    def refine():
        c = localise(b, nd, ns) if mode != "text" else None
        if c:
            return ":" + c[0], {"culprit": {"variant": c[0], "subtree": c[1], "built": c[2]}}
        return "", {}

    if not compare(f"construct:{mode}", E, T, nd, ns, info, refine):
        return
    info["xdsl"] = str(E)

    # 2. simplify (sometimes declaring more dims / symbols than used)
    snd = nd + (1 if rng.random() < 0.15 else 0)
    sns = ns + (1 if rng.random() < 0.15 else 0)
    ok, S = xcall("simplify", info, E.simplify, snd, sns, allow_notimpl=b.const_left)
    if not ok:
        cnt("simplify_not_implemented:raw-mul-constant-on-lhs")
    else:
        if S != E:
            cnt("simplify_changed_structure")
        if R.size(to_tree(S)) < R.size(to_tree(E)):
            cnt("simplify_reduced_size")
        if compare("simplify", S, T, snd, sns, info):
            ok2, S2 = xcall("simplify:twice", info, S.simplify, snd, sns)
            if ok2:
                compare("simplify:twice", S2, T, snd, sns, dict(info, first=str(S)))
                if S2 == S:
                    cnt("simplify_idempotent_structurally")
            ok3, P = xcall("printparse:simplified", info, parse_map, f"{header(snd, sns)} -> ({S})", rng.random() < 0.5)
            if ok3:
                compare("printparse:simplified", P.results[0], T, snd, sns, dict(info, text=str(S)))

    # 3. one flattener shared between several expressions over the same identifiers
    if not b.const_left and rng.random() < 0.6:
        T2 = R.gen_tree(rng, max(1, depth - 1), nd, ns, pool)
        T3 = rng.choice(pool) if pool else T
        ok, E2 = xcall("construct:aux", info, build_any, rng, T2, nd, ns, ("ops", "raw"))
        ok3, E3 = xcall("construct:aux", info, build_any, rng, T3, nd, ns, ("ops",))
        if ok and ok3:
            fl = SimpleAffineExprFlattener(nd, ns)
            seq = [(E, T), (E2, T2), (E3, T3), (E, T)]
            for n, (Ex, Tx) in enumerate(seq):
                okf, Rx = xcall("flattener:shared", info, fl.simplify, Ex, allow_notimpl=True)
                if not okf:
                    cnt("flattener_shared_not_implemented")
                    break
                winfo = dict(info, sequence=[str(x[0]) for x in seq[:n + 1]])
                if fl.operand_expr_stack:
                    violation("flattener:stack-not-empty", "operand stack not empty after simplify", winfo)
                    break
                if not compare("flattener:shared", Rx, Tx, nd, ns, winfo):
                    break
            cnt("flattener_shared_locals", len(fl.local_exprs))

    # 4. compose with a map
    nd2 = rng.choice([1, 2, 2, 3])
    nres = nd + rng.choice([0, 0, 0, 1])
    inner = [R.gen_tree(rng, rng.choice([0, 1, 2, 2]), nd2, ns, []) for _ in range(nres)]
    ok, inner_e = xcall("construct:aux", info, lambda: tuple(build_any(rng, t, nd2, ns) for t in inner))
    if ok:
        M = AffineMap(nd2, ns, inner_e)
        winfo = dict(info, map=str(M))
        ok, Cx = xcall("compose", winfo, E.compose, M)
        if ok:
            compare("compose", Cx, R.subst(T, inner, []), nd2, ns, winfo)

    # 5. replace_dims_and_symbols (lists may be shorter than the space: those identifiers stay)
    ld, ls = rng.choice([nd, nd, nd, rng.randint(0, nd)]), rng.choice([ns, ns, rng.randint(0, ns)])
    nd3 = max(nd if ld < nd else 1, rng.choice([1, 2, 3]))
    ns3 = max(ns if ls < ns else 0, rng.choice([0, 1, 2]))
    dts = [R.gen_tree(rng, rng.choice([0, 1, 2]), nd3, ns3, []) for _ in range(ld)]
    sts = [R.gen_tree(rng, rng.choice([0, 0, 1]), nd3, ns3, []) for _ in range(ls)]
    ok, reps = xcall("construct:aux", info, lambda: ([build_any(rng, t, nd3, ns3) for t in dts],
                                                      [build_any(rng, t, nd3, ns3) for t in sts]))
    if ok:
        winfo = dict(info, new_dims=[str(x) for x in reps[0]], new_symbols=[str(x) for x in reps[1]])
        ok, Rx = xcall("replace", winfo, E.replace_dims_and_symbols, reps[0], reps[1])
        if ok:
            if ld < nd or ls < ns:
                cnt("replace_with_short_lists")
            compare("replace", Rx, R.subst(T, dts, sts), nd3, ns3, winfo)

    # 6. print -> parse
    text = f"{header(nd, ns)} -> ({E})"
    ok, P = xcall("printparse", info, parse_map, text, rng.random() < 0.5)
    if ok:
        compare("printparse", P.results[0], T, nd, ns, dict(info, text=text))

    # 7. from_flat_form with local expressions
    nl = rng.choice([0, 0, 1, 2, 3])
    loc_t = []
    for _ in range(nl):
        a = R.gen_tree(rng, rng.choice([0, 1, 2]), nd, ns, [])
        loc_t.append((rng.choice(["fd", "mod", "cd"]), a, ("c", rng.choice(R.DIVS))))
    ok, loc_e = xcall("construct:aux", info, lambda: [build_any(rng, t, nd, ns, ("ops", "raw")) for t in loc_t])
    if ok:
        flat = [rng.choice([0, 0, 1, -1, 2, -3, 4, 7, -8]) for _ in range(nd + ns + nl + 1)]
        cols = [("d", i) for i in range(nd)] + [("s", i) for i in range(ns)] + loc_t
        want = ("c", flat[-1])
        for c, col in zip(flat[:-1], cols):
            want = ("add", want, ("mul", col, ("c", c)))
        winfo = {"flat": flat, "nd": nd, "ns": ns, "local_exprs": [str(x) for x in loc_e]}
        ok, F = xcall("from_flat_form", winfo, AffineExpr.from_flat_form, flat, nd, ns, loc_e)
        if ok:
            compare("from_flat_form", F, want, nd, ns, winfo)


# ====================================================================== map cases
def ident(n, kind):
    return [(kind, i) for i in range(n)]


def eval_map_points(tag, M, trees, nd, ns, info, npts=80):
    """AffineMap.eval against the tuple of oracle values"""
    fs = [oracle(t) for t in trees]
    pts = space(nd, ns)
    step = max(1, len(pts) // npts)
    cnt("compared:" + tag)
    for d, s, pad in pts[::step]:
        want = tuple(f(*pad) for f in fs)
        ok, got = xcall(tag, info, M.eval, d, s)
        if not ok:
            return False
        cnt("map_eval_points")
        if got != want:
            violation(tag, f"{tag}: AffineMap.eval gives {got}, intended {want} at dims={d} syms={s} for {M}",
                      dict(info, map=str(M), point={"dims": d, "syms": s}, got=list(got), want=list(want)))
            return False
    return True


def compare_map(tag, M, trees, nd, ns, info):
    if (M.num_dims, M.num_symbols, len(M.results)) != (nd, ns, len(trees)):
        violation(tag + ":shape", f"{tag}: map {M} has shape ({M.num_dims},{M.num_symbols},{len(M.results)}), expected "
                                  f"({nd},{ns},{len(trees)})", dict(info, map=str(M)))
        return False
    ok = True
    for i, (e, t) in enumerate(zip(M.results, trees)):
        ok = compare(tag, e, t, nd, ns, dict(info, result_index=i, map=str(M))) and ok
    return ok


def make_callable(rng, trees, nd, ns, info):
    """a python function with explicit parameters (from_callable inspects the signature) building the results with
    the operator overloads; constant results are returned as python ints"""
    def body(args):
        out = []
        for t in trees:
            if R.is_const(t) and rng.random() < 0.7:
                out.append(R.ev(t, (), ()))
                cnt("from_callable_int_results")
            else:
                out.append(Builder("ops", rng, nd, ns, dim_leaves=args[:nd], sym_leaves=args[nd:]).build(t)[0])
        return tuple(out)

    params = ", ".join(f"a{i}" for i in range(nd + ns))
    return eval(f"lambda {params}: _b(({params}{',' if nd + ns else ''}))", {"_b": body})  # noqa: S307


def run_map_case(rng, tier, res):
    import io

    from xdsl.dialects.builtin import AffineMapAttr
    from xdsl.ir.affine import AffineExpr, AffineMap
    from xdsl.parser import Parser
    from xdsl.parser.affine_parser import AffineParser
    from xdsl.printer import Printer
    ndA, nsA, nrA = rng.choice([1, 2, 2, 3]), rng.choice([0, 1, 2]), rng.choice([1, 2, 2, 3])
    ndB, nsB = rng.choice([1, 2, 3]), rng.choice([0, 1, 2])
    poolA: list = []
    tA = [R.gen_tree(rng, rng.choice([1, 2, 3, 3, 4] if tier == "quick" else [1, 2, 3, 4, 5]), ndA, nsA, poolA)
          for _ in range(nrA)]
    tB = [R.gen_tree(rng, rng.choice([0, 1, 2, 2, 3]), ndB, nsB, []) for _ in range(ndA)]
    mode = rng.choice(["direct", "direct", "callable", "callable", "text"])
    info = {"mode": "map:" + mode, "ndA": ndA, "nsA": nsA, "A": [R.full_text(t) for t in tA],
            "ndB": ndB, "nsB": nsB, "B": [R.full_text(t) for t in tB]}
    cnt("cases:map")
    cnt("cases:map:" + mode)
    res["nontrivial"].append(shash(("map", mode, ndA, nsA, tuple(tA), ndB, nsB, tuple(tB))))

    # construction of A
    if mode == "direct":
        ok, A = xcall("map:construct:direct", info, lambda: AffineMap(ndA, nsA, tuple(build_any(rng, t, ndA, nsA) for t in tA)))
    elif mode == "callable":
        fn = make_callable(rng, tA, ndA, nsA, info)
        split = None if (nsA == 0 and rng.random() < 0.5) else (ndA, nsA)
        ok, A = xcall("map:construct:callable", info, lambda: AffineMap.from_callable(fn, dim_symbol_split=split))
    else:
        names = naming(rng, ndA, nsA)
        text = ("(" + ", ".join(names[0]) + ")" + ("[" + ", ".join(names[1]) + "]" if nsA or rng.random() < 0.3 else "")
                + " -> (" + ", ".join(R.render(t, rng, names[0], names[1]) for t in tA) + ")")
        info["text"] = text
        ok, A = xcall("map:construct:text", info, parse_map, text, rng.random() < 0.5)
    if not ok:
        return
    if len(res["samples"]) < 4 and mode != "direct":
        res["samples"].append(dict(info, xdsl=str(A)))
    if not compare_map(f"map:construct:{mode}", A, tA, ndA, nsA, info):
        return
    info["xdsl_A"] = str(A)
    eval_map_points("map:eval", A, tA, ndA, nsA, info)

    # compose: (A o B)(d, sA ++ sB) = A(B(d, sB), sA)
    ok, Bm = xcall("map:construct:direct", info, lambda: AffineMap(ndB, nsB, tuple(build_any(rng, t, ndB, nsB) for t in tB)))
    if ok and compare_map("map:construct:direct", Bm, tB, ndB, nsB, info):
        info2 = dict(info, xdsl_B=str(Bm))
        ok, AB = xcall("map:compose", info2, A.compose, Bm)
        if ok:
            shifted = [R.subst(t, ident(ndB, "d"), [("s", k + nsA) for k in range(nsB)]) for t in tB]
            want = [R.subst(t, shifted, ident(nsA, "s")) for t in tA]
            if compare_map("map:compose", AB, want, ndB, nsA + nsB, info2):
                eval_map_points("map:compose:eval", AB, want, ndB, nsA + nsB, info2, npts=25)
        if rng.random() < 0.3:  # mismatching shapes must be rejected, not mis-composed
            try:
                AffineMap(ndA + 1, nsA, A.results).compose(Bm)
                violation("map:compose:accepts-mismatch", "compose accepted num_dims != number of results", info2)
            except ValueError:
                cnt("map_compose_mismatch_rejected")

    # print -> parse of the whole map, and through the attribute printer
    ok, P = xcall("map:printparse", info, parse_map, str(A), False)
    if ok:
        compare_map("map:printparse", P, tA, ndA, nsA, dict(info, text=str(A)))
    buf = io.StringIO()
    Printer(buf).print_attribute(AffineMapAttr(A))
    ok, P = xcall("map:attr-roundtrip", info, lambda: Parser(W.ctx, buf.getvalue()).parse_attribute().data)
    if ok:
        compare_map("map:attr-roundtrip", P, tA, ndA, nsA, dict(info, text=buf.getvalue()))

    # replace_dims_and_symbols on the map
    nd3, ns3 = rng.choice([1, 2, 3]), rng.choice([0, 1, 2])
    dts = [R.gen_tree(rng, rng.choice([0, 1, 2]), nd3, ns3, []) for _ in range(ndA)]
    sts = [R.gen_tree(rng, rng.choice([0, 0, 1]), nd3, ns3, []) for _ in range(nsA)]
    ok, reps = xcall("construct:aux", info, lambda: ([build_any(rng, t, nd3, ns3) for t in dts],
                                                      [build_any(rng, t, nd3, ns3) for t in sts]))
    if ok:
        ok, Rm = xcall("map:replace", info, A.replace_dims_and_symbols, reps[0], reps[1], nd3, ns3)
        if ok:
            compare_map("map:replace", Rm, [R.subst(t, dts, sts) for t in tA], nd3, ns3,
                        dict(info, new_dims=[str(x) for x in reps[0]], new_symbols=[str(x) for x in reps[1]]))

    # drop_dims / drop_results
    st = [to_tree(e) for e in A.results]
    used_d = set().union(*[R.used(t)[0] for t in st])
    mask_unused = tuple(i not in used_d for i in range(ndA))
    if tuple(A.unused_dims_bit_vector()) != mask_unused or A.used_dims() != used_d or \
            tuple(A.used_dims_bit_vector()) != tuple(not m for m in mask_unused) or A.unused_dims() != set(range(ndA)) - used_d:
        violation("map:used_dims", f"used/unused dims of {A} disagree with its structure", info)
    drop = tuple(m and rng.random() < 0.8 for m in mask_unused)
    ok, Dm = xcall("map:drop_dims", info, A.drop_dims, drop)
    if ok:
        if any(drop):
            cnt("drop_dims_dropped_something")
        newpos, n = [], 0
        for m in drop:
            newpos.append(("c", 0) if m else ("d", n))
            n += 0 if m else 1
        compare_map("map:drop_dims", Dm, [R.subst(t, newpos, ident(nsA, "s")) for t in tA], n, nsA, dict(info, mask=list(drop)))
    rmask = tuple(rng.random() < 0.4 for _ in range(nrA))
    ok, Dr = xcall("map:drop_results", info, A.drop_results, rmask)
    if ok:
        compare_map("map:drop_results", Dr, [t for t, m in zip(tA, rmask) if not m], ndA, nsA, dict(info, mask=list(rmask)))

    run_perm_helpers(rng)

    # affine map of SSA ids: symbols are numbered by first occurrence
    nsy = rng.choice([1, 2, 3])
    ts = [R.gen_tree(rng, rng.choice([1, 2, 3]), 1, nsy, []) for _ in range(rng.choice([1, 2]))]
    ts = [R.subst(t, [("s", 0)], ident(nsy, "s")) for t in ts]  # symbols only
    names = ["%a", "%0", "%v_2", "%x.y"][:nsy]
    text = "[" + ", ".join(R.render(t, rng, [], names) for t in ts) + "]"
    order: list = []
    import re
    for m in re.finditer(r"%[A-Za-z0-9_.$]+", text):
        if m.group(0) not in order:
            order.append(m.group(0))
    perm = [("s", order.index(nm)) if nm in order else ("c", 0) for nm in names]
    winfo = {"text": text}
    ok, out = xcall("parse:ssa-ids", winfo, lambda: AffineParser(Parser(W.ctx, text)._parser_state).parse_affine_map_of_ssa_ids())
    if ok:
        compare_map("parse:ssa-ids", out[0], [R.subst(t, [], perm) for t in ts], 0, len(order), winfo)


def run_perm_helpers(rng):
    """Permutation helpers and named constructors of AffineMap (value semantics: inverse really inverts)."""
    from xdsl.ir.affine import AffineExpr, AffineMap
    n = rng.choice([1, 2, 3, 4])
    x = [rng.randint(-50, 50) for _ in range(n)]
    res = [rng.randrange(n) for _ in range(rng.choice([n, n, n + 1, n + 2, max(1, n - 1)]))]
    if rng.random() < 0.5:
        res = rng.sample(range(n), n) + res[n:]
    P = AffineMap(n, 0, tuple(AffineExpr.dimension(i) for i in res))
    info = {"map": str(P), "x": x}
    cnt("cases:perm")
    ok, inv = xcall("perm:inverse_permutation", info, P.inverse_permutation)
    if ok:
        if set(res) != set(range(n)):
            cnt("perm_not_invertible")
            if inv is not None:
                violation("perm:inverse_permutation:not-none", f"{P} is not invertible but inverse_permutation gave {inv}", info)
        elif inv is None:
            violation("perm:inverse_permutation:none", f"{P} is invertible but inverse_permutation gave None", info)
        else:
            cnt("perm_inverse_checked")
            ok, r = xcall("perm:inverse_permutation", info, lambda: (P.eval(x, []), inv.num_dims, inv.eval(list(P.eval(x, [])), [])))
            if ok and r != (tuple(x[i] for i in res), len(res), tuple(x)):
                violation("perm:inverse_permutation", f"inverse_permutation({P}) = {inv} does not invert it on {x}", info)
    if len(res) > len(set(res)):
        ok, r = xcall("perm:is_projected_permutation", info, P.is_projected_permutation)
        if ok and r:
            violation("perm:is_projected_permutation", f"duplicate dims accepted: {P}", info)
    # projected permutation with zeros
    k = rng.randint(0, n)
    items = [("d", i) for i in rng.sample(range(n), k)]
    zeros = rng.randint(0, n - k) if rng.random() < 0.6 else 0
    items += [("c", 0)] * zeros
    rng.shuffle(items)
    Q = AffineMap(n, 0, tuple(AffineExpr.dimension(i[1]) if i[0] == "d" else AffineExpr.constant(0) for i in items))
    info = {"map": str(Q), "x": x}
    want = tuple(x[i] if ("d", i) in items else 0 for i in range(n))
    src = [f"v{i}" for i in range(n)]
    want_applied = tuple(src[i[1]] for i in items if i[0] == "d")
    ok, r = xcall("perm:is_projected_permutation", info,
                  lambda: (Q.is_projected_permutation(allow_zero_in_results=True), Q.is_projected_permutation()))
    if ok and r != (True, zeros == 0):
        violation("perm:is_projected_permutation", f"is_projected_permutation wrong for {Q}: {r}", info)
    elif ok:
        cnt("perm_broadcast_inverse_checked")
        ok, z = xcall("perm:inverse_and_broadcast", info,
                      lambda: Q.inverse_and_broadcast_projected_permutation().eval(list(Q.eval(x, [])), []))
        if ok and z != want:
            violation("perm:inverse_and_broadcast", f"inverse_and_broadcast_projected_permutation({Q}): {z} != {want}", info)
        if zeros == 0:
            ok, z = xcall("perm:apply_permutation", info, Q.apply_permutation, src)
            if ok and z != want_applied:
                violation("perm:apply_permutation", f"apply_permutation wrong for {Q}: {z}", info)
    # named constructors
    s = [rng.randint(-9, 9) for _ in range(rng.choice([0, 1, 2]))]
    nr = rng.randint(0, n)
    checks = [
        ("identity", lambda: AffineMap.identity(n, len(s)).eval(x, s), tuple(x) + tuple(s)),
        ("minor_identity", lambda: AffineMap.minor_identity(n, nr).eval(x, []), tuple(x[n - nr:])),
        ("constant_map", lambda: AffineMap.constant_map(x[0]).eval([], []), (x[0],)),
        ("point_map", lambda: AffineMap.point_map(*x).eval([], []), tuple(x)),
        ("transpose_map", lambda: AffineMap.transpose_map().eval([x[0], 7], []), (7, x[0])),
        ("empty", lambda: AffineMap.empty().eval([], []), ()),
        ("is_minor_identity", lambda: AffineMap.minor_identity(n, nr).is_minor_identity(), True),
    ]
    winfo = {"n": n, "x": x, "s": s, "nr": nr}
    for name, fn, wanted in checks:
        cnt("map_helper_checked")
        ok, got = xcall("map:helpers:" + name, winfo, fn)
        if ok and got != wanted:
            violation("map:helpers:" + name, f"AffineMap.{name}: {got} != {wanted}", winfo)


# ====================================================================== plan / work / finish
def plan(tier, seed):
    jobs = []
    for kind in ("expr", "map"):
        n, count = SHARDS[tier][kind]
        for sh in range(n):
            jobs.append({"kind": kind, "seed": seed, "tier": tier, "shard": sh, "count": count})
    return jobs


def setup(job):
    from xdsl.context import Context
    from xdsl.dialects.builtin import Builtin
    W.C, W.sets, W.violations, W.seen_keys, W.spaces = {}, {}, [], {}, {}
    W.job = job
    W.ctx = Context()
    W.ctx.load_dialect(Builtin)
    install_monitors()


def work(job):
    setup(job)
    res = {"evaluations": 0, "nontrivial": [], "samples": [], "counters": W.C, "sets": {}, "violations": W.violations,
           "extra": {}}
    runner = run_expr_case if job["kind"] == "expr" else run_map_case
    only = job.get("only")
    idxs = [only] if only is not None else range(job["count"])
    for i in idxs:
        W.case_id = i
        rng = random.Random(f"c26:{job['seed']}:{job['kind']}:{job['shard']}:{i}")
        runner(rng, job.get("tier", "quick"), res)
        res["evaluations"] += 1
    W.case_id = None
    res["sets"] = {k: sorted(v) for k, v in W.sets.items()}
    res["sets"]["violation_keys"] = sorted(W.seen_keys)
    return res


NEED = {  # counter -> minimum on the quick tier (thorough: x10); measured values are >= 10x these
    "compared:construct:ops": 120, "compared:construct:raw": 80, "compared:construct:binary": 25,
    "compared:construct:text": 80, "compared:simplify": 300, "compared:simplify:twice": 300,
    "compared:flattener:shared": 500, "compared:compose": 300, "compared:replace": 300, "compared:printparse": 300,
    "compared:printparse:simplified": 300, "compared:from_flat_form": 300, "compared:map:compose": 100,
    "compared:map:construct:callable": 30, "compared:map:construct:text": 20, "compared:map:printparse": 100,
    "compared:map:drop_dims": 100, "compared:map:replace": 100, "compared:parse:ssa-ids": 50, "compared:map:eval": 50,
    "reach:AffineExpr.__rsub__": 20, "reach:AffineExpr.__radd__": 20, "reach:AffineExpr.__rmul__": 20,
    "reach:AffineExpr.__floordiv__": 200, "reach:AffineExpr.ceil_div": 200, "reach:AffineExpr.__mod__": 200,
    "reach:AffineExpr.binary": 500, "reach:SimpleAffineExprFlattener.visit_mod_expr": 300,
    "reach:SimpleAffineExprFlattener.visit_div_expr": 300, "reach:SimpleAffineExprFlattener.add_local_floordiv_id": 300,
    "flattener_local_id_reused": 50, "fold:FloorDiv": 10, "fold:CeilDiv": 10, "fold:Mod": 10,
    "fold_negative_dividend:FloorDiv": 3, "fold_negative_dividend:CeilDiv": 3, "fold_negative_dividend:Mod": 3,
    "oracle_negative_dividend_evals:fd": 100, "oracle_negative_dividend_evals:cd": 100,
    "oracle_negative_dividend_evals:mod": 100, "simplify_changed_structure": 100, "perm_inverse_checked": 20,
    "perm_broadcast_inverse_checked": 20, "drop_dims_dropped_something": 10, "replace_with_short_lists": 20,
    "reach:AffineParser._create_binop_expr": 1000,
}


def finish(agg, tier):
    inc = []
    mult = 10 if tier == "thorough" else 1
    for k, need in NEED.items():
        if agg.counters.get(k, 0) < need * mult:
            inc.append(f"monitor {k} reached {agg.counters.get(k, 0)} < {need * mult}")
    return {"inconclusive": inc,
            "coverage": {"box": "dims [-4,5], symbols [-2,3]; all points when <= 1000 else 420 sampled incl. corners; +14 far points",
                         "violation_keys_observed": sorted(agg.sets.get("violation_keys", ()))}}
