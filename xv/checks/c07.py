"""C07 - Parsing any text terminates promptly and fails only with diagnostics.

Every shard is a supervisor that forks small killable children; a child journals the in-flight input, parses it with the
real `Parser(ctx, text).parse_module()` under CPU-time accounting and classifies how the call ended:

  ok | diagnostic (ParseError family, DiagnosticException family - exactly what xdsl-opt prints as diagnostics)
     | crash (anything else escaping, incl. RecursionError / MemoryError)  -> exception-site classifier
     | over budget (CPU > 1 s + 1 ms/char)                                 -> scaling probe (>= 3.5x per doubling)
     | hang (CPU > 20 x budget: the supervisor dumps the stack with faulthandler, kills the child, continues)

Tier A (verdict for crashes) = no frame of a non-builtin dialect module / declarative format on the stack, i.e. generic
syntax + builtin attributes/types handled by the anchored files; tier B = dialect custom syntax (see TIER_B_IN_VERDICT).
Hangs and super-linear time are keyed by the innermost frame of the parser files on the stack (one key per mechanism whatever the
syntactic route); they are verdict unless dialect code lies below that frame (time spent in dialect code: observation)."""
from __future__ import annotations

import faulthandler
import json
import os
import random
import re
import select
import signal
import sys
import time
import traceback

from xv.harness import shash

ID = "C07"
LEVEL = "exploration"
RULE = ("inputs = (a) 1-5 stacked token/byte/line mutations of corpus chunks (dictionary of MLIR tokens, builtin keywords, "
        "numeric boundary literals, non-ASCII letters/digits, NUL/control chars, quote/bracket damage, fragments and lines "
        "harvested from other chunks), (b) grammar-directed soups of generic-syntax ops over a builtin attribute/type grammar "
        "with per-production error injection, (c) cross-chunk line splices, (d) repetition ladders prefix+unit*k+suffix "
        "(k doubling up to 32 KB quick / 128 KB thorough) for 85 fixed and some random families (scaling probe), (e) a lexer "
        "matrix of every (token prefix, pumped unit, stopper) combination at k=20/24/28 (exponential regexes) and a sample at "
        "k=4096..16384 (polynomial), (f) the matrix of every (numeric/complex/hex literal, builtin element type, attribute context) "
        "combination and the minimal witnesses of every mechanism found so far, (g) an end-of-input matrix (text ending in every "
        "proper token prefix in 37 syntactic positions) and truncation of every corpus chunk at its token boundaries and inside "
        "numeric/string literals (every 40th cut point per quick run, rotated by seed; all of them in thorough), (h) an affine matrix (constants of 1..1000 digits x every affine operator x operand "
        "positions, in affine_map/affine_set attributes, memref layouts and affine.apply/min/for/load), compact-DAG "
        "ladders: type/attribute alias doubling chains (printed form 2^N) used as result, operand, block-argument, attribute and "
        "function types and in diagnostics, N growing by 3 per step, (i) unmutated chunks for "
        "calibration; fuzz inputs are parsed with allow_unregistered on (70%) or off. An input is non-trivial if it differs "
        "from its seed chunk and the lexer produced >= 3 tokens (parser got past the first token); distinct = distinct input "
        "texts (sha1)")
LEVEL_TEXT = ("Every generated text is parsed by the real parser in a killable child with CPU accounting; the outcome monitor "
              "accepts only a returned module or a ParseError/DiagnosticException-family exception (and requires str() of it to "
              "work), everything else is classified by exception type and innermost raising xDSL function; time is judged "
              "against 1 s + 1 ms/char with a doubling probe, hangs are killed at 20x budget. Held = no crash in tier A (no "
              "dialect custom-syntax code on the stack) and no hang/super-linear input whose canonical site (innermost frame of the "
              "parser files on the stack, with no dialect code below it) is in the parser among the inputs explored; time spent "
              "inside dialect code called by the parser is reported as an observation.")
LEVEL_NOTE = ("trusts CPython's time.process_time / /proc CPU accounting, faulthandler stack dumps and the tier classifier (stack "
              "frames by file); recursion limit is CPython's default 1000 as under xdsl-opt; inputs are valid Python str without "
              "lone surrogates; dialect custom-syntax crash sites (tier B) are reported as observations, not in the verdict; "
              "over-budget inputs whose cost does not grow >= 3.5x on a doubled repetition are observations as well")
TECHNIQUE = ("invariant at a hook: outcome/exception-site classifier and CPU budget monitor around Parser.parse_module in killable "
             "workers, mutation + grammar fuzzing, doubling (scaling) probe for time")
ENGINES = ["harness", "corpus", "trace"]
ASSUMPTIONS = ["only ParseError (incl. MultipleSpansParseError) and DiagnosticException (incl. VerifyException) are diagnostics, as in xdsl_opt_main.run",
               "CPU budget 1 s + 1 ms/char is ~500-1000x the measured normal cost (2 us/char); super-linear needs >= 3.5x growth on a doubled repetition",
               "RecursionError escaping parse_module counts as an internal error (deep nesting is a realistic hostile input)",
               "tier B (dialect custom parsers) crash sites are observations only: their population does not saturate (3-6 new keys per 80k inputs)"]
JOB_TIMEOUT = {"quick": 1500, "thorough": 10800}

# Tier-B (dialect custom syntax) crash sites: verdict or observation?  The saturation campaign (see report) kept finding
# new (type, function) keys with every new seed, so they are evidence-only observations.
TIER_B_IN_VERDICT = False

BUDGET_A, BUDGET_B = 1.0, 0.001  # CPU seconds: a + b * len(text)
HANG_FACTOR = 20.0
GROWTH = 3.5
BATCH = 150
PUMP_MAXLEN = 131072  # repetition ladders double k until the text exceeds this many characters
MAX_HANGS_PER_SHARD = 8
RLIMIT_AS = 3 << 30

SIZES = {
    # per shard: corpus, mut, soup, attr, splice, random pumps ; shards
    "quick": dict(shards=16, corpus=30, mut=1700, soup=450, attr=750, splice=300, rpump=3, pump_maxlen=32768, lexpump_big_every=40, trunc_stride=40),
    "thorough": dict(shards=32, corpus=100, mut=22000, soup=7000, attr=11000, splice=4500, rpump=20, pump_maxlen=131072, lexpump_big_every=8, trunc_stride=1),
}


def budget(n: int) -> float:
    return BUDGET_A + BUDGET_B * n


# ====================================================================== plan
def plan(tier, seed):
    z = SIZES[tier]
    n = int(os.environ.get("XV_C07_SHARDS", z["shards"]))
    scale = float(os.environ.get("XV_C07_SCALE", "1"))
    jobs = []
    for i in range(n):
        jobs.append({"mode": "fuzz", "tier": tier, "seed": seed, "shard": i, "nshards": n,
                     "corpus": z["corpus"], "mut": int(z["mut"] * scale), "soup": int(z["soup"] * scale),
                     "attr": int(z["attr"] * scale), "splice": int(z["splice"] * scale), "rpump": int(z["rpump"] * scale),
                     "fixed_pumps": True, "deep_probe": i == 0, "pump_maxlen": z["pump_maxlen"],
                     "lexpump_big_every": z["lexpump_big_every"], "trunc_stride": z["trunc_stride"]})
    return jobs


# ====================================================================== state shared by supervisor and children
class G:
    ready = False
    chunks = None
    seeds = None
    pool = None
    ctx_unreg = None
    ctx_strict = None
    diag = None
    tokens = 0
    strings = 0
    guard_trips = 0
    guard_installed = False
    regex_probe = None
    slow_site = None
    slow_hist = {}
    fh = None


DIAG_HELPERS = {"raise_error", "expect", "_parse_token", "parse_punctuation", "parse_keyword", "_consume_token",
                "parse_characters", "_raise_wrong_str_enum_value_error"}


def frame_is_tier_b(filename: str) -> bool:
    """dialect custom syntax: any dialect module except the builtin dialect, and the declarative assembly format engine"""
    if "/xdsl/dialects/" in filename:
        return not (filename.endswith("/xdsl/dialects/builtin.py") or "/xdsl/dialects/utils/" in filename)
    return "/xdsl/irdl/declarative_assembly_format" in filename


def setup(job):
    if G.ready:
        return
    sys.setrecursionlimit(1000)  # what xdsl-opt runs with
    from xv import corpus, c07_mut
    from xdsl.utils.exceptions import DiagnosticException, ParseError
    from xdsl.utils.mlir_lexer import MLIRLexer

    G.diag = (ParseError, DiagnosticException)
    ch = corpus.chunks()
    if len(ch) < 500:
        raise RuntimeError(f"corpus too small: {len(ch)} chunks")
    G.chunks = ch
    seeds = []
    for f, i, t in ch:
        if len(t) > 3000:  # keep parse cost per mutant low: cut at a line boundary (truncation is a mutation anyway)
            cut = t.rfind("\n", 0, 3000)
            t = t[:cut if cut > 500 else 3000]
        seeds.append(t)
    G.seeds = seeds
    texts = [t for _, _, t in ch]
    G.pool = {"frags": c07_mut.harvest_fragments(texts), "lines": c07_mut.harvest_lines(texts)}
    if len(G.pool["frags"]) < 200 or len(G.pool["lines"]) < 2000:
        raise RuntimeError("harvest too small")

    c = corpus.new_ctx(allow_unregistered=True)
    for name in list(c.registered_dialect_names):  # preload: no lazy-import cost inside the timed region
        c.load_registered_dialect(name)
    G.ctx_unreg = c
    c2 = c.clone()
    c2.allow_unregistered = False
    G.ctx_strict = c2

    # reach counters (hooks on the lexer; guard env checked by xv.worker)
    if os.environ.get("XDSL_VERIF") != "1":
        raise RuntimeError("XDSL_VERIF guard not set")
    orig_lex = MLIRLexer.lex
    orig_str = MLIRLexer._lex_string_literal

    def lex(self):
        G.tokens += 1
        return orig_lex(self)

    def lex_str(self, start_pos):
        G.strings += 1
        return orig_str(self, start_pos)

    MLIRLexer.lex = lex
    MLIRLexer._lex_string_literal = lex_str
    G.regex_probe = string_regex_probe(MLIRLexer, deep=bool(job.get("deep_probe")))
    if G.regex_probe["exponential"]:
        install_string_guard(MLIRLexer)
    import gc
    gc.collect()
    gc.freeze()  # keep the preloaded ~all-dialects heap out of later full collections (they would cost ~1 s each)
    G.ready = True


# ---------------------------------------------------------------------- known mechanism: string literal regex
def string_regex_probe(MLIRLexer, deep):
    """Direct scaling probe of the string-literal token regex on an unterminated literal `"aaaa...` (the same
    mutation on a doubled repetition). Returns measured CPU times; `exponential` when doubling n grows time >= GROWTH
    and the extrapolated cost exceeds the budget for a short input."""
    rx = MLIRLexer._unescaped_characters_regex
    ts = {}
    for n in (9, 18):
        s = '"' + "a" * n
        reps = 3
        best = 1e9
        for _ in range(reps):
            t0 = time.process_time()
            r = rx.match(s, 0)
            best = min(best, time.process_time() - t0)
            if r is not None:
                raise RuntimeError("string regex matched an unterminated literal")
        ts[n] = best
    expo = ts[18] > 0.002 and ts[18] >= GROWTH * max(ts[9], 1e-5)
    out = {"t9": ts[9], "t18": ts[18], "exponential": bool(expo)}
    if expo and deep:
        # one shard shows the budget is really exceeded: n=13 vs n=26 (26 chars -> budget 1.03 s)
        for n in (13, 26):
            s = '"' + "a" * n
            t0 = time.process_time()
            rx.match(s, 0)
            out[f"t{n}"] = time.process_time() - t0
    return out


class GuardedStringRegex:
    """Installed only when the probe above found the exponential regex. Same result as the real regex (None for an
    unterminated / badly escaped literal), but predicted-exponential failures are answered by a linear scan and counted.
    This keeps the rest of the workload affordable; the mechanism itself is reported as a violation by the probe."""
    HEX = set("0123456789abcdefABCDEF")

    def __init__(self, real):
        self.real = real

    def match(self, content, pos=0):
        n = len(content)
        i = pos + 1
        danger = 0
        run = 0
        while True:
            if i >= n:
                break
            c = content[i]
            if c == '"':
                return self.real.match(content, pos)  # terminated: greedy first path succeeds, linear
            if c == "\\":
                d = content[i + 1] if i + 1 < n else ""
                if d and d in '"nt\\':
                    i += 2
                elif d in self.HEX and d and i + 2 < n and content[i + 2] in self.HEX:
                    i += 3
                else:
                    break
                danger += max(0, run - 1)
                run = 0
                continue
            if c in "\n\v\f":
                break
            run += 1
            i += 1
        danger += max(0, run - 1)
        if danger <= 14:
            return self.real.match(content, pos)
        G.guard_trips += 1
        return None


def install_string_guard(MLIRLexer):
    MLIRLexer._unescaped_characters_regex = GuardedStringRegex(MLIRLexer._unescaped_characters_regex)
    G.guard_installed = True


# ====================================================================== task list of a shard
def task_list(job):
    """[(kind, arg)] - deterministic from the job"""
    from xv import c07_mut
    tasks = []
    if job.get("mode") == "replay":
        return [("text", 0)]
    if job.get("fixed_pumps"):
        for k, fam in enumerate(c07_mut.PUMPS):
            if k % job["nshards"] == job["shard"]:
                tasks.append(("pump", k))
    for k in range(job.get("rpump", 0)):
        tasks.append(("rpump", k))
    nlex = c07_mut.lex_matrix_size()
    for k in range(nlex):  # every (prefix, unit, stopper) combination once per run, spread over the shards
        if k % job["nshards"] == job["shard"] and job.get("lexpump", True):
            tasks.append(("lexpump", k))
            if (k // job["nshards"]) % job.get("lexpump_big_every", 10) == job["seed"] % job.get("lexpump_big_every", 10):
                tasks.append(("lexpump-big", k))
    for k, fam in enumerate(c07_mut.dag_families()):  # compact DAGs: alias doubling chains in every use position
        if k % job["nshards"] == job["shard"] and job.get("dagpump", True):
            tasks.append(("dagpump", k))
    for k in range(c07_mut.eof_matrix_size()):  # input ends in every proper token prefix, in every syntactic position
        if k % job["nshards"] == job["shard"] and job.get("eofmatrix", True):
            tasks.append(("eofmatrix", k))
    if job.get("trunc_stride"):
        from xv import corpus
        for k in range(len(corpus.chunks())):  # truncation of corpus chunks at token boundaries / inside literals
            if k % job["nshards"] == job["shard"]:
                tasks.append(("trunc", k))
    naff = c07_mut.aff_matrix_size() + len(c07_mut.aff_bounds_texts())
    for k in range(naff):  # affine expressions: huge literals x every operator x every position (attribute, layout, affine ops)
        if k % job["nshards"] == job["shard"] and job.get("affmatrix", True):
            tasks.append(("affmatrix", k))
    for k in range(c07_mut.lit_matrix_size()):  # every (literal, builtin type, context) combination once per run
        if k % job["nshards"] == job["shard"] and job.get("litmatrix", True):
            tasks.append(("litmatrix", k))
    if job["shard"] == 0:  # minimal witnesses of every mechanism found so far (regression inputs; diagnostics once fixed)
        for k in range(len(witness_files())):
            tasks.append(("witness", k))
    for kind in ("corpus", "mut", "soup", "attr", "splice"):
        for k in range(job.get(kind, 0)):
            tasks.append((kind, k))
    return tasks


def witness_files():
    import glob
    return sorted(glob.glob(os.path.join(os.path.dirname(os.path.dirname(os.path.dirname(os.path.abspath(__file__)))),
                                         "witnesses", "C07", "*.txt")))


def task_rng(job, kind, k):
    return random.Random(f"c07:{job['seed']}:{job['shard']}:{kind}:{k}")


def gen_input(job, kind, k):
    """-> (text, seed_text or None, meta)"""
    from xv import c07_mut
    rng = task_rng(job, kind, k)
    if kind == "text":
        return job["text"], None, {"kind": "replay"}
    if kind == "litmatrix":
        return c07_mut.lit_matrix_text(k), None, {"kind": kind}
    if kind == "eofmatrix":
        return c07_mut.eof_matrix_text(k), None, {"kind": kind}
    if kind == "affmatrix":
        n = c07_mut.aff_matrix_size()
        return (c07_mut.aff_matrix_text(k) if k < n else c07_mut.aff_bounds_texts()[k - n]), None, {"kind": kind}
    if kind == "witness":
        f = witness_files()[k]
        with open(f, encoding="utf-8") as fh:
            return fh.read(), None, {"kind": kind, "name": os.path.basename(f)[:-4]}
    if kind == "corpus":
        idx = (job["shard"] * 7919 + k * 104729 + job["seed"] * 31) % len(G.seeds)
        return G.seeds[idx], G.seeds[idx], {"kind": kind, "chunk": G.chunks[idx][0]}
    if kind == "mut":
        idx = rng.randrange(len(G.seeds))
        base = G.seeds[idx]
        text, ops = c07_mut.mutate(rng, base, G.pool)
        return text, base, {"kind": kind, "chunk": G.chunks[idx][0], "ops": ops}
    if kind == "soup":
        text = c07_mut.soup(rng, G.pool)
        if rng.random() < 0.3:
            text, _ = c07_mut.mutate(rng, text, G.pool)
        return text, None, {"kind": kind}
    if kind == "attr":
        text = c07_mut.attr_soup(rng, G.pool)
        if rng.random() < 0.3:
            text, _ = c07_mut.mutate_once(rng, text, G.pool)
        return text, None, {"kind": kind}
    if kind == "splice":
        text = c07_mut.splice(rng, G.pool)
        if rng.random() < 0.4:
            text, _ = c07_mut.mutate(rng, text, G.pool)
        return text, None, {"kind": kind}
    raise KeyError(kind)


def clean(text: str) -> str:
    # lone surrogates cannot come out of a decoded file; keep inputs encodable
    return text.encode("utf-8", "replace").decode("utf-8") if any(0xD800 <= ord(c) < 0xE000 for c in text) else text


# ====================================================================== child: one parse under the monitors
def _msg_class(msg: str) -> str:
    m = re.match(r"[A-Za-z ,_()-]{0,48}", msg)
    s = (m.group(0) if m else "").strip().lower()
    return re.sub(r"[^a-z]+", "-", s).strip("-")[:40]


def classify_exc(e: BaseException):
    """-> (tier 'A'|'B', site qualname of innermost xdsl frame, outer (non-xdsl) raising function or '', frames summary)"""
    tb = e.__traceback__
    frames = []
    while tb is not None:
        co = tb.tb_frame.f_code
        frames.append((co.co_filename, getattr(co, "co_qualname", co.co_name), tb.tb_lineno))
        tb = tb.tb_next
    xf = [f for f in frames if "/xdsl/" in f[0] and "/verif/" not in f[0]]
    tier = "A"
    for fn, qn, ln in xf:
        if frame_is_tier_b(fn):
            tier = "B"
            break
    site = xf[-1][1] if xf else (frames[-1][1] if frames else "?")
    sfile = os.path.basename(xf[-1][0]) if xf else "?"
    outer = ""
    if frames and xf and frames[-1] is not xf[-1] and "/xdsl/" not in frames[-1][0]:
        outer = frames[-1][1]
    summ = [f"{os.path.basename(fn)}:{ln}:{qn}" for fn, qn, ln in frames[-8:]]
    return tier, site, sfile, outer, summ


def diag_site(e: BaseException):
    tb = e.__traceback__
    last = None
    while tb is not None:
        co = tb.tb_frame.f_code
        if co.co_name not in DIAG_HELPERS and "/xdsl/" in co.co_filename:
            last = (getattr(co, "co_qualname", co.co_name), tb.tb_lineno)
        tb = tb.tb_next
    return last or ("?", 0)


GENERIC_HELPERS = {"lex", "_consume_regex", "_consume_whitespace",
                   "_form_token", "text", "len", "slice", "at", "_resume_from", "_consume_token", "_parse_optional_token",
                   "_parse_token", "_parse_optional_token_in", "_current_token", "_get_chars", "_peek_chars", "_consume_chars",
                   "_is_in_bounds", "get_location", "print_with_context", "get_start_of_line", "get_end_of_line", "expect",
                   "parse_optional_punctuation", "parse_punctuation", "pos", "lexer", "__len__", "__init__", "__post_init__",
                   "__eq__", "__hash__", "<lambda>", "<genexpr>", "<listcomp>", "parse_optional_keyword", "parse_keyword",
                   "is_spelling_of_punctuation", "get_punctuation_kind_from_name", "__new__", "__setattr__", "__getattr__"}


DISPATCHERS = {"_parse_dialect_type_or_attribute_body", "_parse_extended_type_or_attribute", "parse_operation",
               "parse_optional_operation", "_parse_generic_operation"}


def _anchored(fn: str) -> bool:
    return "/xdsl/parser/" in fn or fn.endswith(("/utils/mlir_lexer.py", "/utils/lexer.py", "/utils/exceptions.py"))


def pick_site(frames):
    """Canonical mechanism site of a slow / hung parse from its stack (innermost first, [(filename, function name)]).

    Walk outwards from the innermost frame to the first frame of the anchored parser files (parser package, lexers,
    exceptions) that is not a generic token helper: that function is the key, whatever syntactic route led to it (a dense
    splat reached from a generic attribute dictionary, a property, a typed attribute or a declarative-format op such as
    arith.constant is always `attribute_parser.py:_build_dense_int_or_fp_elements_attr`).  If dialect code (tier B) lies
    BELOW that frame, the time is spent in dialect code called by the parser (e.g. `!smt.bv<N>` computing 2**N): the
    site is the innermost dialect frame, prefixed `tierB/` (reported as an observation, see TIER_B_IN_VERDICT)."""
    xf = [(fn, name) for fn, name in frames if "/xdsl/" in fn and "/verif/" not in fn]
    inner_b = None
    for fn, name in xf:
        if frame_is_tier_b(fn):
            inner_b = inner_b or f"tierB/{os.path.basename(fn)}:{name}"
        elif _anchored(fn) and name not in GENERIC_HELPERS:
            if inner_b is None and name in DISPATCHERS:
                # the parser function that hands over to attribute / operation construction code: the Python-level sampler
                # cannot see a callee that spends its time in one long C call (2**N) and returns, so time attributed to a
                # pure dispatcher is time of the dialect / IRDL code it dispatched to
                return f"tierB/{os.path.basename(fn)}:{name}(dispatch)"
            return inner_b or f"{os.path.basename(fn)}:{name}"
    if inner_b:
        return inner_b
    for fn, name in xf:  # only helpers on the stack (e.g. stuck inside a token regex)
        if _anchored(fn):
            return f"{os.path.basename(fn)}:{name}"
    return f"{os.path.basename(xf[0][0])}:{xf[0][1]}" if xf else "?"


def _site_of_frame(frame):
    frames = []
    f = frame
    while f is not None:
        frames.append((f.f_code.co_filename, f.f_code.co_name))
        f = f.f_back
    return pick_site(frames)


def _slow_handler(signum, frame):
    # CPU sampler: first fires at half the budget, then every 50 ms of CPU; the histogram names the hot function
    q = _site_of_frame(frame)
    G.slow_hist[q] = G.slow_hist.get(q, 0) + 1


def parse_once(text: str, unreg: bool, implicit: bool = True, verify_stage: bool = True):
    """The monitored call. Returns a record dict."""
    from xdsl.parser import Parser
    ctx = (G.ctx_unreg if unreg else G.ctx_strict).clone()
    G.slow_hist = {}
    tok0 = G.tokens
    rec = {"len": len(text)}
    exc = None
    module = None
    signal.setitimer(signal.ITIMER_VIRTUAL, budget(len(text)) / 2, 0.05)
    t0 = time.process_time()
    try:
        module = Parser(ctx, text, "<c07>").parse_module(implicit)
        rec["outcome"] = "ok"
    except G.diag as e:
        exc = e
        rec["parse_cpu"] = time.process_time() - t0
        try:
            s = str(e)
            if not isinstance(s, str):
                raise TypeError("str(diagnostic) is not a str")
            rec["outcome"] = "diag-parse" if isinstance(e, G.diag[0]) else "diag-verify"
        except BaseException as e2:  # noqa: BLE001  formatting the diagnostic crashed
            if isinstance(e2, (KeyboardInterrupt, SystemExit)):
                raise
            exc = e2
            rec["outcome"] = "crash"
            rec["stage"] = "format"
    except KeyboardInterrupt:
        raise
    except BaseException as e:  # noqa: BLE001
        exc = e
        rec["outcome"] = "crash"
        rec["stage"] = "parse"
    rec["cpu"] = time.process_time() - t0
    signal.setitimer(signal.ITIMER_VIRTUAL, 0, 0)
    rec["tokens"] = G.tokens - tok0
    rec["slow_site"] = max(G.slow_hist.items(), key=lambda kv: kv[1])[0] if G.slow_hist else None
    if rec["outcome"] == "crash":
        tier, site, sfile, outer, summ = classify_exc(exc)
        rec.update(tier=tier, site=site, sfile=sfile, outer=outer, frames=summ, etype=type(exc).__name__,
                   msg=str(exc)[:200] if not isinstance(exc, RecursionError) else "recursion")
    elif rec["outcome"].startswith("diag"):
        q, ln = diag_site(exc)
        rec["site"] = q
        rec["line"] = ln
        rec["etype"] = type(exc).__name__
    else:
        rec["site"] = "parse_module"
        rec["line"] = 0
    exc = None
    # observation stage: verification of what was returned (outside the verdict; C10/C17 own it)
    if module is not None and verify_stage:
        t1 = time.process_time()
        try:
            module.verify()
            rec["verify"] = "ok"
        except G.diag:
            rec["verify"] = "diag"
        except RecursionError:
            rec["verify"] = "crash:RecursionError"
        except KeyboardInterrupt:
            raise
        except BaseException as e:  # noqa: BLE001
            _, site, _, _, _ = classify_exc(e)
            rec["verify"] = f"crash:{type(e).__name__}:{site}"
        rec["verify_cpu"] = time.process_time() - t1
    return rec


class ChildOut:
    def __init__(self, fd):
        self.fd = fd

    def line(self, tag, obj):
        os.write(self.fd, (tag + " " + json.dumps(obj, default=str) + "\n").encode("utf-8", "replace"))


class Batch:
    """what a child accumulates for one batch"""

    def __init__(self):
        self.evals = 0
        self.nontrivial = []
        self.counters = {}
        self.sets = {}
        self.samples = []
        self.violations = []
        self.extra = {}

    def c(self, k, v=1):
        self.counters[k] = self.counters.get(k, 0) + v

    def s(self, k, v):
        self.sets.setdefault(k, set()).add(v)

    def dump(self):
        return {"evals": self.evals, "nontrivial": self.nontrivial, "counters": self.counters,
                "sets": {k: sorted(v) for k, v in self.sets.items()}, "samples": self.samples,
                "violations": self.violations, "extra": self.extra}


def crash_key(rec):
    k = f"crash:{rec['etype']}:{rec['site']}"
    if rec.get("outer"):
        k += f"@{rec['outer']}"
    if rec["etype"] == "RecursionError":
        return "crash:RecursionError:deep-nesting"
    mc = _msg_class(rec.get("msg", ""))
    if mc:
        k += f":{mc}"
    if rec.get("stage") == "format":
        k = "format-" + k
    return k


def replay_job(text, unreg, implicit=True):
    return {"mode": "replay", "text": text, "unreg": unreg, "implicit": implicit, "seed": 0, "shard": 0, "nshards": 1}


def account(b: Batch, rec, text, seed_text, meta, unreg):
    """turn one record into counters / violations"""
    kind = meta["kind"]
    b.evals += 1
    b.c(f"inputs_{kind}")
    b.c("outcome_" + rec["outcome"])
    b.c("tokens_lexed", rec["tokens"])
    b.c("chars_parsed", rec["len"])
    b.c("cpu_us_total", int(rec["cpu"] * 1e6))
    if not text.isascii():
        b.c("inputs_with_non_ascii")
    b.c("ctx_allow_unregistered" if unreg else "ctx_strict")
    nontriv = rec["tokens"] >= 3 and text != seed_text
    if nontriv:
        b.nontrivial.append(shash(text))
    if rec["outcome"] == "crash":
        key = crash_key(rec)
        wit = {"text": text if len(text) <= 6000 else text[:3000] + "\n...<cut>...\n" + text[-2000:], "allow_unregistered": unreg,
               "exception": rec["etype"], "message": rec.get("msg"), "frames": rec["frames"], "tier": rec["tier"], "gen": meta}
        if len(text) <= 20000:
            wit["replay_job"] = replay_job(text, unreg)
        if rec["tier"] == "A" or TIER_B_IN_VERDICT or rec["etype"] in ("RecursionError", "SystemExit"):
            b.c("crash_tierA" if rec["tier"] == "A" else "crash_tierB_verdict")
            b.violations.append({"key": key, "summary": f"{rec['etype']} escaped parse_module from {rec['sfile']}:{rec['site']}: {rec.get('msg', '')[:100]}",
                                 "witness": wit})
        else:
            b.c("crash_tierB_observed")
            b.s("tierB_crash_sites", key)
            ex = b.extra.setdefault("tierB_examples", {})
            if key not in ex and len(text) < 1500:
                ex[key] = {"text": text, "message": rec.get("msg"), "frames": rec["frames"][-4:]}
    else:
        b.s("exit_sites", f"{rec['outcome']}:{rec['site']}:{rec['line']}")
        b.s("exit_functions", f"{rec['outcome']}:{rec['site']}")
    if rec.get("verify"):
        b.c("verify_stage_" + rec["verify"].split(":")[0])
        if rec["verify"].startswith("crash"):
            b.s("verify_stage_crash_sites_observed", rec["verify"])
        if rec.get("verify_cpu", 0) > budget(rec["len"]):
            b.c("verify_stage_over_budget_observed")
    if nontriv and len(text) < 400 and kind != "corpus" and all(x["kind"] != kind for x in b.samples):
        b.samples.append({"kind": kind, "text": text, "outcome": rec["outcome"], "site": rec.get("site"),
                          "cpu_ms": round(rec["cpu"] * 1e3, 3)})
    return nontriv


def scale_variants(text):
    """repetition-doubling variants of an over-budget input (the 'same mutation on a doubled repetition')"""
    out = [("whole-doubled", text + text)]
    lines = text.split("\n")
    if lines:
        i = max(range(len(lines)), key=lambda j: len(lines[j]))
        out.append(("longest-line-doubled", "\n".join(lines[:i] + [lines[i] + lines[i]] + lines[i + 1:])))
    best = None
    for m in re.finditer(r"(.{1,60}?)\1{3,}", text[:200000], re.S):
        if best is None or m.end() - m.start() > best.end() - best.start():
            best = m
    if best is not None:
        out.append(("longest-repeat-doubled", text[:best.start()] + best.group(0) * 2 + text[best.end():]))
    # cost driven by a number's magnitude (shape product, bit width): one more digit is the smallest repetition step
    nums = sorted(re.finditer(r"\d{3,}", text[:200000]), key=lambda m: m.start() - 1000 * (m.end() - m.start()))[:3]
    for i, m in enumerate(nums):
        out.append((f"number-{i}-one-more-digit", text[:m.end()] + "0" + text[m.end():]))
    return out


def child_run(job, tasks, a, out: ChildOut):
    """Runs in the heavy child process (the only one that imports xDSL): tasks[a:], results streamed per batch."""
    from xv import c07_mut
    from xv.worker import journal
    setup(job)
    out.line("P", G.regex_probe)
    state = {"b": Batch()}

    def flush():
        # violations are streamed at once: a later kill of this child must not lose them
        b = state["b"]
        for v in b.violations:
            out.line("V", v)
        b.violations.clear()

    def end_batch(nxt):
        b = state["b"]
        flush()
        b.c("string_literals_lexed", G.strings)
        b.c("string_regex_guard_trips", G.guard_trips)
        G.strings = 0
        G.guard_trips = 0
        d = b.dump()
        d["next"] = nxt
        out.line("B", d)
        state["b"] = Batch()

    def monitored(text, seed_text, meta, tidx, sub, unreg, verify_stage=True):
        b = state["b"]
        text = clean(text)
        journal(text)
        out.line("S", {"t": tidx, "sub": sub, "len": len(text), "cpu": time.process_time(), "unreg": unreg})
        rec = parse_once(text, unreg, job.get("implicit", True), verify_stage)
        if budget(len(text)) < rec["cpu"] <= 3 * budget(len(text)):
            # near the budget: measure again and keep the cheaper run (a one-off cost - collector, page faults - is not
            # the parser's); far above it a second run would only double the cost of a hostile input
            b.c("over_budget_remeasured")
            rec2 = parse_once(text, unreg, job.get("implicit", True), False)
            if rec2["cpu"] < rec["cpu"]:
                rec2["tokens"] = rec["tokens"]
                rec = rec2
        account(b, rec, text, seed_text, meta, unreg)
        flush()
        return rec, text

    maxlen = int(job.get("pump_maxlen", PUMP_MAXLEN))
    for tidx in range(a, len(tasks)):
        b = state["b"]
        kind, k = tasks[tidx]
        if kind == "trunc":
            base = G.seeds[k]
            pts = c07_mut.truncation_points(base)
            stride = max(1, int(job.get("trunc_stride", 1)))
            b.c("trunc_chunks")
            for j, pt in enumerate(pts):
                if (j + k + job["seed"]) % stride:
                    continue
                monitored(base[:pt], base, {"kind": kind, "chunk": G.chunks[k][0], "cut": pt}, tidx, pt, (j + k) % 3 != 0)
        elif kind in ("pump", "rpump", "lexpump", "lexpump-big", "dagpump"):
            rng = task_rng(job, kind, k)
            if kind == "pump":
                fam = c07_mut.PUMPS[k]
            elif kind == "dagpump":
                fam = c07_mut.dag_families()[k]
            elif kind == "rpump":
                fam = c07_mut.random_pump(rng, G.pool)
            else:
                fam = c07_mut.lex_matrix_family(k, kind == "lexpump-big")
            out.line("F", {"family": fam[0], "prefix": fam[1][:300], "unit": (fam[2] or "<numbered items>")[:300],
                           "suffix": (fam[3] if fam[3] is not None else "<mirrored closers>")[:300],
                           "text_at_k4": c07_mut.pump_text(fam, 4)[:600]})
            unreg = True
            ladder = []
            kk = 16 if kind == "pump" else 8
            ks = list(fam[4]) if isinstance(fam[4], list) else None
            if ks:
                kk = ks.pop(0)
            b.c("lex_matrix_ladders" if kind.startswith("lex") else "dag_ladders" if kind == "dagpump" else "pump_ladders")
            while kk <= (fam[4] if kind == "rpump" else 1 << 20):
                text = c07_mut.pump_text(fam, kk)
                if len(text) > maxlen:
                    break
                rec, text = monitored(text, None, {"kind": kind, "family": fam[0], "k": kk}, tidx, kk, unreg, verify_stage=False)
                ladder.append((kk, rec))
                b.c("lex_matrix_steps" if kind.startswith("lex") else "dag_steps" if kind == "dagpump" else "pump_steps")
                if rec["outcome"] == "crash" and rec["etype"] in ("RecursionError", "MemoryError"):
                    break
                if rec["cpu"] > budget(len(text)):
                    break
                if ks is not None:
                    if not ks:
                        break
                    kk = ks.pop(0)
                else:
                    kk *= 2
            # growth analysis
            for (k0, r0), (k1, r1) in zip(ladder, ladder[1:]):
                if r1["cpu"] >= 0.1:
                    g = r1["cpu"] / max(r0["cpu"], 4e-3)
                    b.counters["max_growth_per_doubling_x100"] = max(b.counters.get("max_growth_per_doubling_x100", 0), int(g * 100))
                    if g >= GROWTH and r1["cpu"] >= 0.2 and r1["cpu"] <= budget(r1["len"]):
                        b.s("superlinear_below_budget_observed", f"{fam[0]}:{r1.get('slow_site') or r1.get('site')}")
                        b.extra.setdefault("superlinear_below_budget", {}).setdefault(
                            fam[0], {"prefix": fam[1][:80], "unit": (fam[2] or "<numbered>")[:80], "suffix": (fam[3] or "<mirrored>")[:80],
                                     "k": [k0, k1], "cpu_s": [round(r0["cpu"], 4), round(r1["cpu"], 4)]})
            if ladder and ladder[-1][1]["cpu"] > budget(ladder[-1][1]["len"]):
                k1, r1 = ladder[-1]
                b.c("over_budget_inputs")
                prev = ladder[-2][1]["cpu"] if len(ladder) > 1 else None
                g = (r1["cpu"] / max(prev, 4e-3)) if prev is not None else None
                if g is not None and len(ladder) > 2 and prev >= 0.05:
                    # a measurable previous doubling must agree (>= 3x): one noisy sample does not make a verdict
                    g0 = prev / max(ladder[-3][1]["cpu"], 4e-3)
                    if g0 < 3.0:
                        g = min(g, g0)
                site = ("pump:" + fam[0]) if kind in ("pump", "dagpump") else (r1.get("slow_site") or r1.get("site") or fam[0])
                wit = {"family": fam[0], "prefix": fam[1], "unit": fam[2], "suffix": fam[3], "k": k1, "len": r1["len"],
                       "cpu_s": [round(r["cpu"], 4) for _, r in ladder], "ks": [kq for kq, _ in ladder], "budget_s": budget(r1["len"]),
                       "text_head": c07_mut.pump_text(fam, 4)[:400]}
                if g is not None and g >= GROWTH and site.startswith("tierB/") and not TIER_B_IN_VERDICT:
                    b.c("superlinear_tierB_observed")
                    b.s("tierB_hang_sites_observed", "superlinear:" + site[6:])
                elif g is not None and g >= GROWTH:
                    b.violations.append({"key": f"superlinear:{site}", "summary":
                                         f"pump {fam[0]!r} k={k1} ({r1['len']} chars) took {r1['cpu']:.2f}s CPU (> budget {budget(r1['len']):.2f}s), x{g:.1f} vs the previous ladder step",
                                         "witness": wit})
                else:
                    b.c("over_budget_unconfirmed_observed")
                    b.extra.setdefault("over_budget_unconfirmed", []).append(wit)
            if len(ladder) >= 2:
                b.c("pump_ladders_complete" if not kind.startswith("lex") else "lex_matrix_ladders_complete")
            flush()
        else:
            text, seed_text, meta = gen_input(job, kind, k)
            rng = task_rng(job, kind + "/ctx", k)
            unreg = job["unreg"] if kind == "text" else (True if kind in ("witness", "litmatrix", "eofmatrix", "affmatrix") else rng.random() < 0.7)
            rec, text = monitored(text, seed_text, meta, tidx, 0, unreg)
            if rec["cpu"] > budget(len(text)):
                b.c("over_budget_inputs")
                best = None
                for name, v in scale_variants(text):
                    if len(v) > 400000:
                        continue
                    r2, v = monitored(v, None, {"kind": "scale-probe", "variant": name}, tidx, 1, unreg, verify_stage=False)
                    g = r2["cpu"] / max(rec["cpu"], 1e-4)
                    if best is None or g > best[0]:
                        best = (g, name, r2["cpu"], len(v))
                site = rec.get("slow_site") or rec.get("site") or "?"
                wit = {"text": text if len(text) < 20000 else text[:20000], "len": len(text), "cpu_s": round(rec["cpu"], 3), "budget_s": budget(len(text)),
                       "probe": best, "gen": meta, "replay_job": replay_job(text, unreg) if len(text) < 20000 else None}
                if best and best[0] >= GROWTH and site.startswith("tierB/") and not TIER_B_IN_VERDICT:
                    b.c("superlinear_tierB_observed")
                    b.s("tierB_hang_sites_observed", "superlinear:" + site[6:])
                elif best and best[0] >= GROWTH:
                    b.violations.append({"key": f"superlinear:{site}", "summary":
                                         f"{rec['cpu']:.2f}s CPU for {len(text)} chars; {best[1]} -> x{best[0]:.1f}", "witness": wit})
                else:
                    b.c("over_budget_unconfirmed_observed")
                    b.extra.setdefault("over_budget_unconfirmed", []).append(wit)
                flush()
        if (tidx + 1 - a) % BATCH == 0:
            end_batch(tidx + 1)
    journal("")
    end_batch(len(tasks))


# ====================================================================== supervisor (never imports xDSL: forks stay cheap)
def _proc_cpu(pid):
    try:
        with open(f"/proc/{pid}/stat") as f:
            s = f.read()
        rest = s[s.rindex(")") + 2:].split()
        return (int(rest[11]) + int(rest[12])) / os.sysconf("SC_CLK_TCK")
    except (OSError, ValueError, IndexError):
        return None


def _dump_site(path):
    """mechanism site from a faulthandler dump (most recent call first)"""
    try:
        with open(path) as f:
            txt = f.read()
    except OSError:
        return "?", ""
    frames = [(m.group(1), m.group(3)) for m in re.finditer(r'File "([^"]+)", line (\d+) in (\S+)', txt)]
    return pick_site(frames), txt[:2500]


def run_child(job, tasks, a, workdir, on_line):
    """fork a child for tasks[a:]; `on_line(tag, payload)` receives its stream. Returns
    dict(status=ok|hang|stuck|died, at=(tidx, sub, len, cpu_start, unreg, wall_start), ...)"""
    import faulthandler
    import resource
    rfd, wfd = os.pipe()
    dump_path = os.path.join(workdir, "fh.txt")
    sys.stdout.flush()
    sys.stderr.flush()
    pid = os.fork()
    if pid == 0:
        code = 3
        try:
            os.close(rfd)
            try:
                resource.setrlimit(resource.RLIMIT_AS, (RLIMIT_AS, RLIMIT_AS))
                resource.setrlimit(resource.RLIMIT_CORE, (0, 0))
            except (ValueError, OSError):
                pass
            df = open(dump_path, "w")
            faulthandler.register(signal.SIGUSR1, file=df, all_threads=False)
            signal.signal(signal.SIGVTALRM, _slow_handler)
            out = ChildOut(wfd)
            try:
                child_run(job, tasks, a, out)
                code = 0
            except BaseException:  # noqa: BLE001  harness failure: report, never swallow
                out.line("E", {"tb": traceback.format_exc()[-3000:]})
        finally:
            os._exit(code)
    os.close(wfd)
    buf = b""
    cur = None  # (tidx, sub, len, cpu_start, unreg, wall_start)
    err = None
    status = None
    done = False
    site, dump = "?", ""
    while True:
        r, _, _ = select.select([rfd], [], [], 0.25)
        if r:
            data = os.read(rfd, 1 << 16)
            if not data:
                break
            buf += data
            while b"\n" in buf:
                line, buf = buf.split(b"\n", 1)
                tag, payload = line[:1].decode(), json.loads(line[2:].decode("utf-8"))
                if tag == "S":
                    cur = (payload["t"], payload["sub"], payload["len"], payload["cpu"], payload["unreg"], time.time())
                elif tag == "E":
                    err = payload["tb"]
                else:
                    if tag == "B" and payload.get("next") == len(tasks):
                        done = True
                    on_line(tag, payload)
            continue
        if cur is not None:
            cpu = _proc_cpu(pid)
            limit = HANG_FACTOR * budget(cur[2])
            wall = time.time() - cur[5]
            over_cpu = cpu is not None and cpu - cur[3] > limit
            if over_cpu or wall > 15 * limit:
                status = "hang" if over_cpu else "stuck"
                try:
                    os.kill(pid, signal.SIGUSR1)
                    time.sleep(0.3)
                    site, dump = _dump_site(dump_path)
                    os.kill(pid, signal.SIGKILL)
                except ProcessLookupError:
                    pass
                break
    os.close(rfd)
    _, st = os.waitpid(pid, 0)
    if status in ("hang", "stuck"):
        return {"status": status, "at": cur, "site": site, "dump": dump, "cpu_limit": HANG_FACTOR * budget(cur[2])}
    if err is not None:
        raise RuntimeError("C07 child harness error:\n" + err)
    if os.WIFSIGNALED(st):
        return {"status": "died", "at": cur, "signal": os.WTERMSIG(st)}
    if not done:
        raise RuntimeError(f"C07 child ended without finishing its tasks (wait status {st})")
    return {"status": "ok"}


def work(job):
    import shutil
    import tempfile
    tasks = task_list(job)
    workdir = tempfile.mkdtemp(prefix="c07-")
    total = Batch()
    st = {"next": 0, "probe": None, "family": None}

    def on_line(tag, p):
        if tag == "V":
            total.violations.append(p)
        elif tag == "F":
            st["family"] = p
        elif tag == "P":
            st["probe"] = p
        elif tag == "B":
            total.evals += p["evals"]
            total.nontrivial.extend(p["nontrivial"])
            for k, v in p["counters"].items():
                if k.startswith("max_"):
                    total.counters[k] = max(total.counters.get(k, 0), v)
                else:
                    total.c(k, v)
            for k, v in p["sets"].items():
                total.sets.setdefault(k, set()).update(v)
            for x in p["samples"]:
                if all(y["kind"] != x["kind"] for y in total.samples):
                    total.samples.append(x)
            for k, v in p["extra"].items():
                if isinstance(v, dict):
                    d = total.extra.setdefault(k, {})
                    for kk, vv in v.items():
                        d.setdefault(kk, vv)
                elif isinstance(v, list):
                    total.extra.setdefault(k, []).extend(v[:5])
            st["next"] = p["next"]

    hangs = 0
    a = 0
    n = len(tasks)
    try:
        while a < n:
            res = run_child(job, tasks, a, workdir, on_line)
            total.c("children_spawned")
            if res["status"] == "ok":
                break
            # the child was killed (hang) or died (native crash) inside task `tidx`
            if res["at"] is None:
                raise RuntimeError(f"C07 child lost before its first input: {res}")
            tidx, sub, ln, _, unreg, _ = res["at"]
            kind, k = tasks[tidx]
            jp = os.environ.get("XV_JOURNAL")
            text = ""
            if jp and os.path.exists(jp):
                with open(jp, encoding="utf-8", errors="replace") as f:
                    text = f.read()
            total.evals += 1
            total.c("inputs_lost_in_killed_batch", max(0, tidx - st["next"]))
            wit = {"text": text if len(text) <= 20000 else text[:10000] + "\n...<cut>...\n" + text[-5000:], "len": ln,
                   "task": [kind, k, sub], "allow_unregistered": unreg}
            if kind in ("pump", "rpump", "lexpump", "lexpump-big", "dagpump") and st["family"]:
                wit.update(st["family"], k=sub)
            if len(text) <= 20000:
                wit["replay_job"] = replay_job(text, unreg)
            if res["status"] in ("hang", "stuck") and res["site"].startswith("tierB/") and not TIER_B_IN_VERDICT:
                hangs += 1
                total.c("hangs_killed")
                total.c("hangs_tierB_observed")
                total.s("tierB_hang_sites_observed", "hang:" + res["site"][6:])
                total.extra.setdefault("tierB_hang_examples", {}).setdefault(res["site"][6:], {"text": wit["text"][:1500], "stack": res["dump"][:1500]})
            elif res["status"] in ("hang", "stuck"):
                hangs += 1
                total.c("hangs_killed")
                wit["stack"] = res["dump"]
                wit["cpu_limit_s"] = res["cpu_limit"]
                total.violations.append({"key": f"hang:{res['site']}", "summary":
                                         f"parse of {ln} chars did not return within {res['cpu_limit']:.0f}s CPU (20x budget); stuck in {res['site']}",
                                         "witness": wit})
            else:
                total.c("native_crashes")
                total.violations.append({"key": f"native-crash:signal{res['signal']}", "summary":
                                         f"parser process died with signal {res['signal']} on {ln} chars", "witness": wit})
            if hangs >= MAX_HANGS_PER_SHARD:
                total.c("tasks_skipped_after_repeated_hangs", n - tidx - 1)
                break
            a = tidx + 1  # a fresh child continues after the offending task
    finally:
        shutil.rmtree(workdir, ignore_errors=True)
    # the known mechanism, measured directly in the child (every shard: cheap probe; shard 0: budget-exceeding probe)
    pr = st["probe"]
    if pr is None:
        raise RuntimeError("C07 child never reported the string-regex probe")
    total.c("string_regex_probe_runs")
    total.extra["string_regex_probe"] = pr
    total.c("string_guard_installed", 1 if pr["exponential"] else 0)
    if pr["exponential"] and job.get("mode") == "fuzz":
        total.c("string_regex_probe_exponential")
        total.violations.append({
            "key": "superlinear:MLIRLexer._lex_string_literal:string-regex-backtracking",
            "summary": "string-literal token regex backtracks exponentially on an unterminated literal: "
                       f"'\"'+'a'*9 {pr['t9'] * 1e3:.3f} ms, '\"'+'a'*18 {pr['t18'] * 1e3:.1f} ms"
                       + (f", n=13 {pr['t13'] * 1e3:.2f} ms, n=26 {pr['t26']:.2f} s (budget 1.03 s)" if "t26" in pr else ""),
            "witness": {"text": '"' + "a" * 26, "measured": pr, "note": "2x per extra character; any unterminated string literal with a "
                        "30+ character tail hangs the lexer", "replay_job": replay_job('"' + "a" * 30, True)}})
    total.c("shards_done")
    d = total.dump()
    return {"evaluations": d["evals"], "nontrivial": d["nontrivial"], "samples": sorted(d["samples"], key=lambda x: x["kind"] in ("pump", "lexpump", "litmatrix"))[:6], "counters": d["counters"],
            "sets": d["sets"], "violations": d["violations"], "extra": d["extra"]}


# ====================================================================== lost shard -> violation (backstop)
def on_lost(info):
    """Backstop. The supervisor in `work` kills hung children itself, so a shard that still exceeds its wall watchdog is
    ambiguous (overloaded machine or a hang the supervisor could not see). The journalled in-flight input is parsed once
    more under the CPU watchdog: if that run hangs or crashes, it is the witness of a violation; otherwise the shard stays
    lost (inconclusive)."""
    if info.get("status") != "timeout":
        return None
    text = info.get("journal") or ""
    if not text.strip():
        return None
    os.environ.setdefault("XDSL_VERIF", "1")
    try:
        res = work(replay_job(text[:20000], True))
    except Exception:  # noqa: BLE001  could not confirm: leave the shard lost
        return None
    vs = [v for v in res.get("violations", []) if v["key"].startswith(("hang:", "native-crash:", "superlinear:"))]
    for v in vs:
        v["summary"] = f"(shard {info.get('idx')} lost; journalled input re-run) " + v.get("summary", "")
    return vs or None


# ====================================================================== finish: reach thresholds
def finish(agg, tier):
    c = agg.counters
    z = SIZES[tier]
    reasons = []
    scaled = bool(os.environ.get("XV_C07_SCALE") or os.environ.get("XV_C07_SHARDS"))

    def need(name, lo):
        if c.get(name, 0) < lo:
            reasons.append(f"{name}={c.get(name, 0)} < {lo}")

    need("shards_done", z["shards"])
    exp = z["shards"] * (z["mut"] + z["soup"] + z["attr"] + z["splice"])
    if agg.evaluations < 0.9 * exp:
        reasons.append(f"evaluations={agg.evaluations} < 90% of planned {exp}")
    need("outcome_ok", exp // 50)
    need("outcome_diag-parse", exp // 4)
    need("outcome_diag-verify", exp // 2000)
    need("tokens_lexed", 20 * exp)
    need("string_literals_lexed", exp // 2)
    need("inputs_with_non_ascii", exp // 100)
    need("pump_ladders_complete", 60)
    need("lex_matrix_ladders", 15000)
    need("inputs_witness", 30)
    need("inputs_litmatrix", 20000)
    need("inputs_eofmatrix", 4000)
    need("inputs_affmatrix", 20000)
    need("inputs_trunc", 10000)
    need("dag_ladders", 60)
    need("string_regex_probe_runs", z["shards"])
    if len(agg.sets.get("exit_functions", ())) < 120:
        reasons.append(f"only {len(agg.sets.get('exit_functions', ()))} distinct parser exit functions reached (< 120)")
    if len(agg.nontrivial) < exp // 3:
        reasons.append(f"distinct non-trivial inputs {len(agg.nontrivial)} < {exp // 3}")
    cov = {"tierB_hang_sites_observed": sorted(agg.sets.get("tierB_hang_sites_observed", ())),
           "tierB_crash_keys_observed": len(agg.sets.get("tierB_crash_sites", ())),
           "tierB_crash_keys": sorted(agg.sets.get("tierB_crash_sites", ())),
           "verify_stage_crash_keys_observed": sorted(agg.sets.get("verify_stage_crash_sites_observed", ())),
           "tier_b_in_verdict": TIER_B_IN_VERDICT,
           "normal_cost_us_per_char": round(c.get("cpu_us_total", 0) / max(1, c.get("chars_parsed", 1)), 3),
           "extra": {k: (v if not isinstance(v, dict) or len(v) <= 40 else dict(list(v.items())[:40])) for k, v in agg.extra.items()}}
    if scaled:  # development runs only
        cov["note"] = "scaled run (XV_C07_SCALE/XV_C07_SHARDS): thresholds not applied: " + "; ".join(reasons)
        reasons = []
    return {"inconclusive": reasons, "coverage": cov}
