"""C25 - Liveness dataflow analysis computes its specified fixpoint under any schedule.

Reference-model differential monitor + schedule perturbation.  Branch-free programs (explicit JSON-able specs) are
realised as real IR; the real `DataFlowSolver` + `LivenessAnalysis` is run on the SAME IR objects many times, each
time under a different schedule, and the set of values it marks live is compared with an independent reference
(reverse reachability over use-def edges from the operands of non-removable ops and from the exit/boundary seeds;
removability comes from a fixed table of the op vocabulary written from the MLIR effect semantics, not from
`would_be_trivially_dead`).

Schedule control (no source hooks):
  * `solver._worklist` is replaced by a deque subclass whose popleft removes a PRNG-chosen element, or the newest
    element (LIFO); the untouched default FIFO is always one of the runs;
  * the op order inside a graph-region block (module body) is permuted in place between runs - forward references and
    use-def cycles are legal there - which forces re-enqueues through the result->defining-op dependency edges
    (a topologically ordered block is resolved by the initial backward sweep alone and never touches the worklist);
  * analysis load order: executability preset (as the unit tests do) / DeadCodeAnalysis loaded before / after the
    liveness analysis (after => the initial sweep sees a non-executable block and ALL ops go through the worklist);
  * boundary seeds ("returned from a public function" in the docstring's terms) are planted three ways: lattice
    preset before the run, `set_to_exit_state` before the sweep, `set_to_exit_state` after the sweep (which
    propagates purely through the worklist, also in SSA-ordered function bodies).
The worklist-phase visit sequence of every run is recorded; distinct non-empty sequences are the schedules explored."""
from __future__ import annotations

import collections
import random
import signal

from xv.harness import shash

ID = "C25"
LEVEL = "exploration"
RULE = ("generated branch-free programs of 2..40 ops over a 13-kind vocabulary (test pure/read/write/unknown/term, "
        "arith.addi/muli/constant, memref.load/store, func.call/return, unregistered op) with 0..3 operands and 0..3 "
        "results, dead chains, unused block arguments, boundary seeds; three shapes: module-body graph-region block "
        "(forward references, use-def cycles, op order re-permuted between runs), function body inside a module, "
        "function analysed as the top-level op; each program is solved 8 times under different (op order, analysis load "
        "order, worklist discipline fifo/random/lifo, seed mechanism). A program is non-trivial if the reference has "
        ">=1 live and >=1 dead value and >=1 value that is live only transitively (through a removable op); distinct by "
        "hash of the program spec. Schedules: distinct non-empty worklist-phase visit sequences (per program hash)")
LEVEL_TEXT = ("The live set computed by the real solver is compared with a reference reachability computation for every "
              "run of every generated program, the same IR being solved under randomized worklist orders, permuted op "
              "orders and different analysis load orders; held = every run equalled the reference (hence each other) on "
              "the programs and schedules explored.")
LEVEL_NOTE = ("trusts the reference (reverse reachability + a hand-written removability table of 13 op kinds, cross-checked "
              "against would_be_trivially_dead and reported separately), the IR builder and CPython; schedule space is "
              "sampled, not enumerated")
TECHNIQUE = ("reference-model differential monitor with schedule perturbation (randomized-pop worklist container, permuted "
             "graph-region op order, analysis load order)")
ENGINES = ["harness", "models"]
ASSUMPTIONS = ["removability table of the generated op vocabulary follows MLIR's wouldOpBeTriviallyDead (terminators, "
               "writes, unknown effects, calls, unregistered ops are not removable; pure and read-only ops are)",
               "every generated block is executable (control flow is outside the supported fragment)",
               "a value without a Liveness state after the run counts as dead",
               "boundary seeds model values escaping through a public function's exit (set_to_exit_state / preset lattice)"]
JOB_TIMEOUT = {"quick": 900, "thorough": 3600}

RUNS_PER_PROGRAM = 8
CPU_GUARD_S = 20

# kind -> (removable?, min operands, max operands, min results, max results)
VOCAB = {
    "pure": (True, 0, 3, 0, 3),
    "read": (True, 0, 2, 0, 2),
    "write": (False, 0, 2, 0, 2),
    "unknown": (False, 0, 2, 0, 2),
    "addi": (True, 2, 2, 1, 1),
    "muli": (True, 2, 2, 1, 1),
    "const": (True, 0, 0, 1, 1),
    "load": (True, 2, 2, 1, 1),      # memref, index -> only in function shapes (needs typed block arguments)
    "store": (False, 3, 3, 0, 0),    # value, memref, index
    "call": (False, 0, 3, 0, 2),
    "unreg": (False, 0, 2, 0, 2),
    "term": (False, 0, 2, 0, 0),     # test.termop (module shape, always last)
    "ret": (False, 0, 3, 0, 0),      # func.return (function shapes, always last)
}
OP_NAMES = {"pure": "test.pureop", "read": "test.op_with_memread", "write": "test.op_with_memwrite", "unknown": "test.op",
            "addi": "arith.addi", "muli": "arith.muli", "const": "arith.constant", "load": "memref.load",
            "store": "memref.store", "call": "func.call", "unreg": "foo.unregistered", "term": "test.termop",
            "ret": "func.return"}


class Hang(Exception):
    pass


def _on_timer(signum, frame):
    raise Hang()


# ------------------------------------------------------------------ generator (specs are plain JSON)
def gen_program(rng: random.Random):
    shape = rng.choice(["module", "module", "module", "func_in_module", "func_top"])
    nops = rng.choice([2, 3, 5, 8, 12, 20, 30, 40])
    fn = shape != "module"
    nargs = rng.choice([0, 1, 2, 3]) if fn else 0
    has_mem = fn and rng.random() < .6
    style = rng.choice(["mixed", "mixed", "mostly_pure", "chains", "effectful"])
    weights = {
        "mixed": {"pure": 6, "read": 2, "write": 2, "unknown": 2, "addi": 2, "muli": 1, "const": 2, "call": 1, "unreg": 1},
        "mostly_pure": {"pure": 10, "read": 2, "addi": 3, "muli": 1, "const": 2, "write": 1, "unknown": 1},
        "chains": {"pure": 8, "addi": 4, "read": 2, "const": 1, "write": 1},
        "effectful": {"pure": 3, "write": 4, "unknown": 3, "call": 3, "unreg": 2, "read": 2, "const": 1},
    }[style]
    if has_mem:
        weights = dict(weights, load=2, store=2)
    kinds = list(weights)
    wts = [weights[k] for k in kinds]
    cyclic = shape == "module" and rng.random() < .35  # forward refs / use-def cycles (graph region only)
    ops = []
    nres_of = []
    for i in range(nops):
        k = rng.choices(kinds, wts)[0]
        rem, lo, hi, rlo, rhi = VOCAB[k]
        nres = rng.choice([rlo, rhi, rng.randint(rlo, rhi), min(rhi, max(rlo, 1))])
        ops.append({"k": k, "nres": nres, "in": []})
        nres_of.append(nres)
    last = {"k": "ret" if fn else "term", "nres": 0, "in": []}
    with_term = fn or rng.random() < .7
    if with_term:
        ops.append(last)
        nres_of.append(0)
    n = len(ops)

    def pool(i):
        """int-typed values op i may use"""
        vs = [["a", j] for j in range(nargs)]
        rng_ops = range(n) if cyclic else range(i)
        for j in rng_ops:
            if with_term and j == n - 1:
                continue
            for r in range(nres_of[j]):
                vs.append(["r", j, r])
        return vs

    for i, o in enumerate(ops):
        k = o["k"]
        rem, lo, hi, rlo, rhi = VOCAB[k]
        p = pool(i)
        if style == "chains" and not cyclic and p:
            p = p[-4:]  # long dependency chains
        if k == "load":
            o["in"] = [["m"], ["x"]]
        elif k == "store":
            o["in"] = ([rng.choice(p)] if p else [["x"]]) + [["m"], ["x"]]
            if not p:
                o["k"], o["in"] = "write", []
        else:
            cnt = rng.randint(lo, hi) if p else 0
            if cnt < lo:
                # not enough values for a fixed-arity op: degrade to a generic pure op
                o["k"] = "pure"
                cnt = 0
            o["in"] = [rng.choice(p) for _ in range(cnt)]
    # boundary seeds: values declared to escape (public-function exit / externally demanded)
    allvals = [["a", j] for j in range(nargs)] + [["r", j, r] for j in range(n) for r in range(nres_of[j])]
    seeds = []
    if allvals and rng.random() < .6:
        seeds = [rng.choice(allvals) for _ in range(rng.choice([1, 1, 2, 3]))]
    return {"shape": shape, "nargs": nargs, "mem": has_mem, "ops": ops, "seeds": seeds,
            "public": rng.random() < .5, "terminated": with_term}


# ------------------------------------------------------------------ reference
def vkey(ref):
    return tuple(ref)


def reference_live(spec):
    """-> (live set of value keys, cause per live value: 'seed' | 'direct' | 'transitive')"""
    ops = spec["ops"]
    cause = {}
    work = []
    for o in ops:
        if not VOCAB[o["k"]][0]:
            for v in o["in"]:
                work.append((vkey(v), "direct"))
    for v in spec["seeds"]:
        work.append((vkey(v), "seed"))
    order = {"direct": 0, "seed": 1, "transitive": 2}
    work.sort(key=lambda t: order[t[1]])
    while work:
        v, why = work.pop(0)
        if v in cause:
            continue
        cause[v] = why
        if v[0] == "r":
            for u in ops[v[1]]["in"]:
                if vkey(u) not in cause:
                    work.append((vkey(u), "transitive"))
    return set(cause), cause


def all_values(spec):
    vs = [("a", j) for j in range(spec["nargs"])]
    if spec["mem"]:
        vs += [("m",), ("x",)]
    for j, o in enumerate(spec["ops"]):
        vs += [("r", j, r) for r in range(o["nres"])]
    return vs


# ------------------------------------------------------------------ real IR
_X = {}


def _imports():
    if _X:
        return
    from xdsl.analysis.dataflow import ChangeResult, DataFlowSolver, ProgramPoint
    from xdsl.analysis.dead_code_analysis import DeadCodeAnalysis, Executable
    from xdsl.analysis.liveness_analysis import Liveness, LivenessAnalysis
    from xdsl.context import Context
    from xdsl.dialects import arith, func, memref, test
    from xdsl.dialects.builtin import (IndexType, IntegerAttr, MemRefType, ModuleOp, SymbolRefAttr, UnregisteredOp, i32)
    from xdsl.ir import Block, Region
    from xdsl.transforms.dead_code_elimination import would_be_trivially_dead
    _X.update(locals())

    class MonitoredLiveness(LivenessAnalysis):
        """The real analysis, unchanged, plus observation: which op each solver-phase visit touches, and the
        boundary seeds planted through the analysis' own set_to_exit_state."""

        def __init__(self, solver, mon):
            super().__init__(solver)
            self.mon = mon

        def initialize(self, op):
            mon = self.mon
            mon["in_init"] = True
            try:
                if mon["seed_mech"] == "exit_before":
                    for v in mon["seed_values"]:
                        self.set_to_exit_state(self.get_lattice_element(v))
                        mon["exit_state_calls"] += 1
                super().initialize(op)
                if mon["seed_mech"] == "exit_after":
                    for v in mon["seed_values"]:
                        self.set_to_exit_state(self.get_lattice_element(v))
                        mon["exit_state_calls"] += 1
            finally:
                mon["in_init"] = False

        def visit(self, point):
            mon = self.mon
            if mon["in_init"]:
                mon["sweep_visits"] += 1
            else:
                mon["trace"].append(mon["op_index"].get(id(point.op), -1))
                if len(mon["trace"]) > mon["visit_limit"]:
                    raise Hang()
            super().visit(point)

        def visit_operation_impl(self, op, operand_lattices, result_lattices):
            self.mon["transfer_calls"] += 1
            super().visit_operation_impl(op, operand_lattices, result_lattices)

    _X["MonitoredLiveness"] = MonitoredLiveness


class RandDeque(collections.deque):
    """popleft removes a PRNG-chosen element (every fair schedule is a possible outcome)"""

    def __init__(self, rng):
        super().__init__()
        self.rng = rng
        self.pops = 0
        self.maxlen_seen = 0

    def popleft(self):
        self.maxlen_seen = max(self.maxlen_seen, len(self))
        i = self.rng.randrange(len(self))
        self.rotate(-i)
        x = super().popleft()
        self.rotate(i)
        self.pops += 1
        return x


class LifoDeque(collections.deque):
    pops = 0
    maxlen_seen = 0

    def popleft(self):
        self.maxlen_seen = max(self.maxlen_seen, len(self))
        self.pops += 1
        return super().pop()


def build(spec):
    X = _X
    i32 = X["i32"]
    fn = spec["shape"] != "module"
    arg_types = [i32] * spec["nargs"]
    if spec["mem"]:
        arg_types += [X["MemRefType"](i32, [4]), X["IndexType"]()]
    block = X["Block"](arg_types=arg_types)
    args = list(block.args)
    ops = []
    test, arith, memref, func = X["test"], X["arith"], X["memref"], X["func"]
    for o in spec["ops"]:
        k, rt = o["k"], [i32] * o["nres"]
        if k == "pure":
            op = test.TestPureOp.create(result_types=rt)
        elif k == "read":
            op = test.TestReadOp.create(result_types=rt)
        elif k == "write":
            op = test.TestWriteOp.create(result_types=rt)
        elif k == "unknown":
            op = test.TestOp.create(result_types=rt)
        elif k == "addi":
            op = arith.AddiOp.create(result_types=rt)
        elif k == "muli":
            op = arith.MuliOp.create(result_types=rt)
        elif k == "const":
            op = arith.ConstantOp(X["IntegerAttr"](7, i32))
        elif k == "load":
            op = memref.LoadOp.create(result_types=rt)
        elif k == "store":
            op = memref.StoreOp.create()
        elif k == "call":
            op = func.CallOp.create(result_types=rt, properties={"callee": X["SymbolRefAttr"]("ext")})
        elif k == "unreg":
            op = X["UnregisteredOp"].with_name(OP_NAMES[k]).create(result_types=rt)
        elif k == "term":
            op = test.TestTermOp.create()
        elif k == "ret":
            op = func.ReturnOp.create()
        else:
            raise ValueError(k)
        ops.append(op)

    def resolve(ref):
        if ref[0] == "a":
            return args[ref[1]]
        if ref[0] == "m":
            return args[spec["nargs"]]
        if ref[0] == "x":
            return args[spec["nargs"] + 1]
        return ops[ref[1]].results[ref[2]]

    for o, op in zip(spec["ops"], ops):
        if o["in"]:
            op.operands = [resolve(r) for r in o["in"]]
    for op in ops:
        block.add_op(op)
    body = X["Region"](block)
    if fn:
        f = func.FuncOp.create(regions=[body], properties={
            "sym_name": _string_attr("f"),
            "function_type": _fn_type(arg_types, [i32] * len(spec["ops"][-1]["in"])),
            **({} if spec["public"] else {"sym_visibility": _string_attr("private")})})
        if spec["shape"] == "func_in_module":
            top = X["ModuleOp"]([f])
            exec_blocks = [top.body.block, block]
        else:
            top = f
            exec_blocks = [block]
    else:
        top = X["ModuleOp"](body)
        exec_blocks = [block]
    return {"top": top, "block": block, "ops": ops, "resolve": resolve, "exec_blocks": exec_blocks}


def _string_attr(s):
    from xdsl.dialects.builtin import StringAttr
    return StringAttr(s)


def _fn_type(ins, outs):
    from xdsl.dialects.builtin import FunctionType
    return FunctionType.from_lists(ins, outs)


def reorder(built, perm, terminated):
    """re-insert the block's ops in the order given by perm (indices into the spec), terminator stays last"""
    block, ops = built["block"], built["ops"]
    for op in list(block.ops):
        op.detach()
    for i in perm:
        block.add_op(ops[i])


def ir_text(top):
    from io import StringIO
    from xdsl.printer import Printer
    s = StringIO()
    try:
        Printer(stream=s, print_generic_format=True).print_op(top)
    except Exception as e:  # noqa: BLE001 - witness text only
        return f"<unprintable: {type(e).__name__}: {e}>"
    return s.getvalue()


def solve(built, spec, cfg, rng_seed):
    """One run of the real solver. Returns (live value keys | None, mon, error)"""
    X = _X
    solver = X["DataFlowSolver"](X["Context"]())
    mon = {"in_init": False, "seed_mech": cfg["seed_mech"], "seed_values": [built["resolve"](s) for s in spec["seeds"]],
           "exit_state_calls": 0, "sweep_visits": 0, "trace": [], "transfer_calls": 0,
           "op_index": {id(op): i for i, op in enumerate(built["ops"])},
           "visit_limit": 60 * (len(built["ops"]) + 4) ** 2}
    scen = cfg["scenario"]
    if scen == "dca_first":
        solver.load(X["DeadCodeAnalysis"])
    solver.load(X["MonitoredLiveness"], mon)
    if scen == "dca_last":
        solver.load(X["DeadCodeAnalysis"])
    if scen == "preset":
        for b in built["exec_blocks"]:
            solver.get_or_create_state(X["ProgramPoint"].at_start_of_block(b), X["Executable"]).live = True
    if cfg["seed_mech"] == "pre_state":
        for v in mon["seed_values"]:
            solver.get_or_create_state(v, X["Liveness"]).is_live = True
    wl = None
    if cfg["deque"] == "rand":
        wl = solver._worklist = RandDeque(random.Random(rng_seed))
    elif cfg["deque"] == "lifo":
        wl = solver._worklist = LifoDeque()
    err = None
    signal.setitimer(signal.ITIMER_VIRTUAL, CPU_GUARD_S)
    try:
        try:
            solver.initialize_and_run(built["top"])
        finally:
            signal.setitimer(signal.ITIMER_VIRTUAL, 0)
    except Hang:
        return None, mon, ("does-not-terminate", f"more than {mon['visit_limit']} worklist visits or {CPU_GUARD_S}s CPU")
    except Exception as e:  # noqa: BLE001 - a raise of the code under test is the observation
        import traceback
        tb = traceback.extract_tb(e.__traceback__)
        inner = next((f for f in reversed(tb) if "/xdsl/" in f.filename), tb[-1])
        return None, mon, (f"raises:{type(e).__name__}:{inner.name}", repr(e)[:200])
    if len(solver._worklist) or solver._is_running:
        err = ("solver-state-after-run", f"worklist has {len(solver._worklist)} items / is_running={solver._is_running}")
    live = set()
    for v in all_values(spec):
        st = solver.lookup_state(built["resolve"](list(v)), X["Liveness"])
        if st is not None and st.is_live:
            live.add(v)
    mon["wl_pops"] = wl.pops if wl is not None else len(mon["trace"])
    mon["wl_maxlen"] = wl.maxlen_seen if wl is not None else 0
    return live, mon, err


def configs_for(spec, rng):
    """8 run configurations; run 0 is the unperturbed one (what the unit tests exercise)."""
    n = len(spec["ops"])
    body = list(range(n - 1)) if spec["terminated"] else list(range(n))
    tail = [n - 1] if spec["terminated"] else []
    shape = spec["shape"]
    scen_choices = {"module": ["preset", "dca_first", "dca_last"], "func_top": ["preset", "dca_first", "dca_last"],
                    "func_in_module": ["preset"]}[shape]
    mechs = ["pre_state", "exit_before", "exit_after"]
    cfgs = [{"perm": None, "scenario": "preset", "deque": "fifo", "seed_mech": "pre_state"}]
    for i in range(1, RUNS_PER_PROGRAM):
        perm = None
        if shape == "module" and rng.random() < .8:
            p = body[:]
            if rng.random() < .15:
                p.reverse()
            else:
                rng.shuffle(p)
            perm = p + tail
        cfgs.append({"perm": perm, "scenario": rng.choice(scen_choices),
                     "deque": rng.choice(["fifo", "rand", "rand", "rand", "lifo"]),
                     "seed_mech": rng.choice(mechs) if spec["seeds"] else "pre_state"})
    return cfgs


# ------------------------------------------------------------------ one program
class Ctx:
    def __init__(self):
        self.counters: dict[str, int] = {}
        self.sets: dict[str, set] = {}
        self.violations: list[dict] = []
        self.per_key: dict[str, int] = {}
        self.hashes: list[str] = []
        self.samples: list = []

    def c(self, k, n=1):
        self.counters[k] = self.counters.get(k, 0) + n

    def viol(self, key, summary, witness):
        self.c("violating_runs")
        self.c("viol:" + key)
        self.per_key[key] = self.per_key.get(key, 0) + 1
        if self.per_key[key] <= 3:
            self.violations.append({"key": key, "summary": summary, "witness": witness})


def run_program(cx: Ctx, spec, cfg_seed, cfgs=None):
    X = _X
    built = build(spec)
    want, cause = reference_live(spec)
    vals = all_values(spec)
    phash = shash(("p", spec["shape"], spec["nargs"], spec["mem"], [(o["k"], o["nres"], o["in"]) for o in spec["ops"]],
                   sorted(map(tuple, spec["seeds"]))))
    cx.c("programs")
    cx.c("shape:" + spec["shape"])
    cx.c("ops_generated", len(spec["ops"]))
    cx.c("values", len(vals))
    cx.c("values_live_in_reference", len(want))
    ntrans = sum(1 for v in cause.values() if v == "transitive")
    cx.c("values_live_only_transitively", ntrans)
    if any(o["in"] and any(r[0] == "r" and r[1] >= i for r in o["in"]) for i, o in enumerate(spec["ops"])):
        cx.c("programs_with_forward_refs_or_cycles")
    # the removability table is part of the oracle: report disagreement with the implementation's predicate separately
    for o, op in zip(spec["ops"], built["ops"]):
        impl = bool(X["would_be_trivially_dead"](op))
        cx.c("removability_table_compared")
        if impl != VOCAB[o["k"]][0]:
            cx.viol(f"liveness:removability-predicate-differs-from-table:{OP_NAMES[o['k']]}",
                    f"would_be_trivially_dead({OP_NAMES[o['k']]}) = {impl}, table says {VOCAB[o['k']][0]}", {"spec": spec})
    nontriv = bool(want) and len(want) < len(vals) and ntrans >= 1
    if nontriv:
        cx.hashes.append(phash)
        cx.c("programs_nontrivial")
    rng = random.Random(cfg_seed)
    if cfgs is None:
        cfgs = configs_for(spec, rng)
    results = []
    traces_by_order: dict[tuple, set] = {}
    cur_perm = None
    for ri, cfg in enumerate(cfgs):
        if cfg["perm"] is not None or cur_perm is not None:
            perm = cfg["perm"] if cfg["perm"] is not None else list(range(len(spec["ops"])))
            reorder(built, perm, spec["terminated"])
            cur_perm = cfg["perm"]
        live, mon, err = solve(built, spec, cfg, cfg_seed * 131 + ri)
        cx.c("solver_runs")
        cx.c("run_scenario:" + cfg["scenario"])
        cx.c("run_deque:" + cfg["deque"])
        cx.c("run_seed_mech:" + (cfg["seed_mech"] if spec["seeds"] else "none"))
        if cfg["perm"] is not None:
            cx.c("runs_with_permuted_op_order")
        cx.c("sweep_visits", mon["sweep_visits"])
        cx.c("worklist_visits", len(mon["trace"]))
        cx.c("transfer_function_calls", mon["transfer_calls"])
        cx.c("set_to_exit_state_calls", mon["exit_state_calls"])
        wit = {"spec": spec, "config": cfg, "run_index": ri,
               "replay_job": {"kind": "one", "spec": spec, "cfgs": cfgs, "cfg_seed": cfg_seed}}
        if err is not None and live is None:
            wit["ir"] = ir_text(built["top"])
            cx.viol("liveness:" + err[0], f"solver run {err[0]}: {err[1]} (scenario={cfg['scenario']} deque={cfg['deque']})", wit)
            results.append(None)
            continue
        if err is not None:
            cx.viol("liveness:" + err[0], err[1], wit)
        if mon["trace"]:
            cx.c("runs_using_worklist")
            if cfg["deque"] != "fifo":
                cx.c("runs_using_perturbed_worklist")
            t = tuple(mon["trace"])
            cx.sets.setdefault("schedules", set()).add(shash((phash, t)))
            okey = (tuple(cfg["perm"]) if cfg["perm"] else None, cfg["scenario"], cfg["seed_mech"])
            traces_by_order.setdefault(okey, set()).add(t)
            cx.c("worklist_maxlen_sum", mon.get("wl_maxlen", 0))
        results.append(live)
        if live != want:
            missing = sorted(want - live)
            extra = sorted(live - want)
            base_bad = results[0] is not None and results[0] != want
            tag = "all-schedules" if (ri == 0 or base_bad) else "schedule-dependent"
            if missing:
                causes = sorted({cause[v] for v in missing})
                key = f"liveness:missed-live:{'+'.join(causes)}:{tag}"
            else:
                key = f"liveness:spurious-live:{tag}"
            w = dict(wit)
            w.update(missing=[list(v) for v in missing], spurious=[list(v) for v in extra],
                     reference_live=[list(v) for v in sorted(want)], worklist_trace=mon["trace"][:200])
            if cx.per_key.get(key, 0) < 3:
                w["ir"] = ir_text(built["top"])
            cx.viol(key, f"{len(missing)} value(s) live in the reference but dead in the analysis, {len(extra)} spurious; "
                         f"scenario={cfg['scenario']} deque={cfg['deque']} seeds={cfg['seed_mech']} "
                         f"permuted={cfg['perm'] is not None} shape={spec['shape']} first missing={missing[:3]} extra={extra[:3]}", w)
        else:
            cx.c("runs_equal_reference")
    ok = [r for r in results if r is not None]
    for i in range(1, len(ok)):
        cx.c("schedule_pairs_compared")
        if ok[i] != ok[0]:
            cx.c("schedule_pairs_differ")
    if any(len(s) >= 2 for s in traces_by_order.values()):
        cx.c("programs_with_ge2_schedules_on_identical_setup")
    if sum(len(s) for s in traces_by_order.values()) >= 2:
        cx.c("programs_with_ge2_distinct_schedules")
    if len(cx.samples) < 2 and nontriv and 5 <= len(spec["ops"]) <= 12:
        cx.samples.append({"spec": spec, "reference_live": [list(v) for v in sorted(want)],
                           "configs": cfgs[:3], "ir": ir_text(built["top"])})


# ------------------------------------------------------------------ plan / work / finish
def plan(tier, seed):
    shards, per = (32, 150) if tier == "quick" else (64, 1600)
    return [{"kind": "rand", "seed": seed * 100003 + i, "count": per} for i in range(shards)]


def work(job):
    _imports()
    signal.signal(signal.SIGVTALRM, _on_timer)
    cx = Ctx()
    evals = 0
    if job["kind"] == "rand":
        rng = random.Random(job["seed"])
        for i in range(job["count"]):
            spec = gen_program(rng)
            run_program(cx, spec, cfg_seed=rng.randrange(1 << 30))
            evals += 1
    elif job["kind"] == "one":
        run_program(cx, job["spec"], cfg_seed=job.get("cfg_seed", 0), cfgs=job.get("cfgs"))
        evals = 1
    else:
        raise ValueError(job["kind"])
    return {"evaluations": evals, "nontrivial": cx.hashes, "samples": cx.samples, "counters": cx.counters,
            "sets": {k: sorted(v) for k, v in cx.sets.items()}, "violations": cx.violations}


def finish(agg, tier):
    c = agg.counters
    inc = []
    nsched = len(agg.sets.get("schedules", ()))
    need = {"programs": 2000, "solver_runs": 16000, "runs_using_worklist": 5000, "runs_using_perturbed_worklist": 3000,
            "worklist_visits": 40000, "transfer_function_calls": 100000, "set_to_exit_state_calls": 5000,
            "runs_with_permuted_op_order": 4000, "programs_with_ge2_schedules_on_identical_setup": 200,
            "programs_with_ge2_distinct_schedules": 800, "programs_nontrivial": 800,
            "values_live_only_transitively": 3000, "removability_table_compared": 20000}
    for k, v in need.items():
        if c.get(k, 0) < v:
            inc.append(f"{k}={c.get(k, 0)} below reach threshold {v}")
    if nsched < 2000:
        inc.append(f"only {nsched} distinct non-empty worklist schedules (threshold 2000; design minimum 50)")
    for k in ("run_scenario:preset", "run_scenario:dca_first", "run_scenario:dca_last", "run_deque:fifo", "run_deque:rand",
              "run_deque:lifo", "run_seed_mech:pre_state", "run_seed_mech:exit_before", "run_seed_mech:exit_after",
              "shape:module", "shape:func_in_module", "shape:func_top"):
        if c.get(k, 0) < 200:
            inc.append(f"{k} reached only {c.get(k, 0)} times")
    return {"inconclusive": inc, "coverage": {"distinct_schedules": nsched, "runs_per_program": RUNS_PER_PROGRAM}}
