"""C13 - Dead-code elimination removes only unobservable code (and, for the dce pass, everything removable).

Reference-model differential monitor + invariants at hooks.

* structural tier: generated generic-IR modules (test dialect, ops of an unregistered dialect incl. unregistered
  last ops with successors, ops with trait combinations defined by this check,
  scf.if/for/while with opaque conditions) with multi-block regions, unreachable blocks, dead use-def cycles across
  blocks, block-argument cycles, nested regions in live and dead parents, unused effectful results, symbols and
  recursive-effect ops. Every op carries a unique `id` attribute; the set of ids (and the number of blocks of every
  region) that survives `dce`, `canonicalize`, a bare `GreedyRewritePatternApplier([], dce_enabled=True)` walk and the
  `dce()` RemoveUnusedOperations walker is compared with the reference liveness of `xv/c13_ref.py` (own per-op-name
  effect table with MLIR's wouldOpBeTriviallyDead semantics, own reachability DFS, uses found by scanning operands).
* executable tier: generated func/arith/scf/cf/memref/printf/test programs (allocs that are unused / only stored to /
  stored and loaded, stores to argument memrefs, external calls and prints with unused results, effectful bodies in
  result-less scf.if, unreachable cf blocks); same set comparison for dce / bare / legacy walks, and `xv.refsem`
  results + ordered effect log before/after every pass (canonicalize included: trivially-dead removal by the
  PatternRewriter during other patterns).
* hooks: `would_be_trivially_dead` and `is_trivially_dead` are wrapped; every call is compared with the reference
  classification of the live op (a `True` for an op with uses found by scanning, or for a terminator / symbol /
  op with write, free, foreign-alloc or unknown effects is a violation at the call site).
"""
from __future__ import annotations

import itertools
import random

from xv.harness import shash

ID = "C13"
LEVEL = "exploration"
RULE = ("one case = one generated module (structural generic IR, or executable func/arith/scf/cf/memref program) run "
        "through one of dce / canonicalize / bare greedy-applier walk / dce() walker and compared by op id with the "
        "reference liveness (and by refsem results + effect log for executable programs); non-trivial = the reference "
        "removes >= 1 op and keeps >= 1 op that is a removal candidate (pure / read-only / own-allocation, kept alive "
        "only through a live user); distinct = distinct structural hash of the input module (names, operand sources, "
        "region/block shape, successors)")
LEVEL_TEXT = ("Each generated module is transformed by the real passes and the surviving op ids / block counts are "
              "compared with an independent reference liveness (exact equality for dce and canonicalize, soundness for "
              "the trivially-dead walks), executable programs are additionally run in the reference semantics before "
              "and after, and every call of would_be_trivially_dead / is_trivially_dead is compared with the "
              "reference classification; held = no disagreement on the modules explored.")
LEVEL_NOTE = ("trusts xv/c13_ref.py (per-op-name effect table following MLIR's wouldOpBeTriviallyDead, least-fixpoint "
              "liveness, DFS reachability), xv/refsem.py for executed programs, the generators, and CPython")
TECHNIQUE = ("reference-model differential monitor (surviving-op-id sets vs independent liveness; refsem results and "
             "ordered effect log before/after) plus invariant at a hook (would_be_trivially_dead / is_trivially_dead "
             "answers vs reference classification)")
ENGINES = ["harness", "refsem"]
ASSUMPTIONS = [
    "the per-op-name effect table of xv/c13_ref.py states the intended (MLIR) effects of the generated vocabulary",
    "a terminator's operands are live (dead block arguments / successor operands are not expected to be removed)",
    "an op declared Pure / read-only is removable whatever its regions contain (non-recursive effect declaration)",
    "refsem models external calls, prints and test.op/test.op_with_memwrite as logged effects",
]
JOB_TIMEOUT = {"quick": 600, "thorough": 3600}

STRUCT_PASSES = ["dce", "canonicalize", "bare", "bare_rev", "legacy"]
EXEC_PASSES = ["dce", "canonicalize", "bare", "legacy"]

KNOWN_KEYS = {
    "oneshot": "dce:incomplete:single-liveness-round",
    "extsi": "incomplete:arith.extsi-declares-no-effects",
    "remui": "incomplete:arith.remui-declares-no-effects",
    "alloc": "incomplete:memref.alloc-effect-not-tied-to-its-result",
}

_D = None


def _defs():
    """Ops with trait combinations the stock dialects do not offer (inputs, not oracle)."""
    global _D
    if _D is not None:
        return _D
    from xdsl.irdl import (IRDLOperation, irdl_op_definition, traits_def, var_operand_def, var_region_def,
                           var_result_def, var_successor_def)
    from xdsl.traits import (EffectInstance, IsTerminator, MemoryEffect, MemoryEffectKind, MemoryFreeEffect,
                             MemoryReadEffect, MemoryWriteEffect, Pure, RecursiveMemoryEffect, SymbolOpInterface)

    class OwnAlloc(MemoryEffect):
        @classmethod
        def get_effects(cls, op):
            return {EffectInstance(MemoryEffectKind.ALLOC, r) for r in op.results}

    class ForeignAlloc(MemoryEffect):
        @classmethod
        def get_effects(cls, op):
            if op.operands:
                return {EffectInstance(MemoryEffectKind.ALLOC, op.operands[0])}
            return {EffectInstance(MemoryEffectKind.ALLOC)}

    def mk(opname, *traits, succ=False):
        ns = {"name": opname, "res": var_result_def(), "ops": var_operand_def(), "regs": var_region_def(),
              "traits": traits_def(*traits)}
        if succ:
            ns["successor"] = var_successor_def()
        return irdl_op_definition(type("C13_" + opname.split(".")[1], (IRDLOperation,), ns))

    _D = {
        "c13.sym_pure": mk("c13.sym_pure", SymbolOpInterface(), Pure()),
        "c13.term_pure": mk("c13.term_pure", IsTerminator(), Pure(), succ=True),
        "c13.rec": mk("c13.rec", RecursiveMemoryEffect()),
        "c13.rec_read": mk("c13.rec_read", RecursiveMemoryEffect(), MemoryReadEffect()),
        "c13.rec_write": mk("c13.rec_write", RecursiveMemoryEffect(), MemoryWriteEffect()),
        "c13.alloc_own": mk("c13.alloc_own", OwnAlloc()),
        "c13.alloc_other": mk("c13.alloc_other", ForeignAlloc()),
        "c13.free": mk("c13.free", MemoryFreeEffect()),
        "c13.read_write": mk("c13.read_write", MemoryReadEffect(), MemoryWriteEffect()),
        "c13.read_alloc": mk("c13.read_alloc", MemoryReadEffect(), OwnAlloc()),
    }
    from xdsl.dialects.builtin import UnregisteredOp
    # ops of an unregistered dialect (op.name == "builtin.unregistered"): nothing known about them
    _D["unreg.op"] = UnregisteredOp.with_name("c13u.op")
    _D["unreg.br"] = UnregisteredOp.with_name("c13u.br")
    from xdsl.dialects import test
    _D.update({"test.pureop": test.TestPureOp, "test.op_with_memread": test.TestReadOp,
               "test.op_with_memwrite": test.TestWriteOp, "test.op": test.TestOp, "test.termop": test.TestTermOp,
               "test.op_with_symbol": test.TestSymbolOp})
    return _D


# ====================================================================== structural generator
GENERIC = [("test.pureop", 24), ("test.op_with_memread", 8), ("test.op_with_memwrite", 14), ("test.op", 12),
           ("test.op_with_symbol", 2), ("c13.sym_pure", 3), ("c13.rec", 7), ("c13.rec_read", 2), ("c13.rec_write", 1),
           ("c13.alloc_own", 4), ("c13.alloc_other", 2), ("c13.free", 2), ("c13.read_write", 2), ("c13.read_alloc", 2),
           ("scf.if", 5), ("scf.for", 3), ("scf.while", 2), ("unreg.op", 5)]
PURELIKE = ("test.pureop", "test.op_with_memread", "c13.alloc_own", "c13.read_alloc", "c13.rec")
REWIRABLE = ("builtin.unregistered", "test.pureop", "test.op_with_memread", "test.op_with_memwrite", "test.op", "c13.rec", "c13.rec_read",
             "c13.alloc_own", "c13.read_alloc", "c13.read_write", "c13.free", "c13.sym_pure")


class SGen:
    def __init__(self, rng):
        from xdsl.dialects import builtin, scf
        self.rng = rng
        self.n = 0
        self.D = _defs()
        self.b = builtin
        self.scf = scf
        self.i32, self.i1, self.index = builtin.i32, builtin.i1, builtin.IndexType()
        self.names = [n for n, _ in GENERIC]
        self.weights = [w for _, w in GENERIC]
        self.top_vals = []

    def tag(self, op):
        op.attributes["id"] = self.b.StringAttr(f"o{self.n}")
        self.n += 1
        return op

    def rtype(self):
        return self.rng.choice([self.i32, self.i32, self.i32, self.i32, self.i1, self.index])

    def pick(self, pool, ty, block):
        c = [v for v in pool if v.type == ty]
        if c and self.rng.random() < 0.85:
            return self.rng.choice(c)
        op = self.tag(self.D["test.pureop"].create(result_types=[ty]))
        block.add_op(op)
        pool.append(op.results[0])
        return op.results[0]

    def module(self):
        m = self.b.ModuleOp([])
        blk = m.body.block
        self.top_vals = pool = []
        self.fill(blk, pool, 0, self.rng.choice([2, 3, 5, 7, 9]))
        return m

    def fill(self, block, pool, depth, nops, ban=()):
        for _ in range(nops):
            self.one(block, pool, depth, ban)

    def one(self, block, pool, depth, ban=()):
        rng = self.rng
        name = rng.choices(self.names, self.weights)[0]
        if name in ban:
            name = "test.op"
        if name.startswith("scf.") and depth >= 2:
            name = "test.pureop"
        if name == "scf.if":
            return self.mk_if(block, pool, depth)
        if name == "scf.for":
            return self.mk_for(block, pool, depth)
        if name == "scf.while":
            return self.mk_while(block, pool, depth)
        if name == "c13.alloc_other":
            src = [v for v in self.top_vals]
            operands = [rng.choice(src)] if src and rng.random() < 0.8 else []
        else:
            operands = [rng.choice(pool) for _ in range(rng.choice([0, 1, 1, 2, 3]))] if pool else []
        nres = rng.choice([0, 1, 1, 2])
        if name in ("c13.alloc_own", "c13.read_alloc"):
            nres = max(nres, 1)
        regions = []
        p_reg = (0.40, 0.12, 0.04, 0.0)[min(depth, 3)]
        if name.startswith("c13.rec"):
            p_reg = (0.9, 0.7, 0.3, 0.0)[min(depth, 3)]
        if name not in ("c13.alloc_other",) and rng.random() < p_reg:
            for _ in range(rng.choice([1, 1, 1, 2])):
                regions.append(self.region(depth + 1, list(pool)))
        op = self.tag(self.D[name].create(operands=operands, result_types=[self.rtype() for _ in range(nres)],
                                          regions=regions))
        block.add_op(op)
        pool.extend(op.results)

    def region(self, depth, outer):
        from xdsl.ir import Block, Region
        rng = self.rng
        nb = rng.choice([1, 1, 2, 3, 4])
        blocks = [Block(arg_types=[self.rtype() for _ in range(rng.choice([0, 0, 1, 2]))]) for _ in range(nb)]
        if nb == 1:
            term = [rng.random() < 0.7]
            succ = [[0] if term[0] and rng.random() < 0.1 else []]
        else:
            term = [True] * nb
            succ = [[rng.randrange(nb) for _ in range(rng.choice([0, 1, 1, 2, 2]))] for _ in range(nb)]
        reach = [False] * nb
        st = [0]
        while st:
            i = st.pop()
            if reach[i]:
                continue
            reach[i] = True
            st.extend(succ[i])
        vals_of = [[] for _ in range(nb)]
        direct = []  # (op, block index) directly in this region's blocks
        for i, b in enumerate(blocks):
            pool = list(outer) + list(b.args)
            for j in range(i):  # cross-block uses (graph-region style), never reachable-uses-unreachable
                if (reach[j] or not reach[i]) and rng.random() < 0.5:
                    pool.extend(vals_of[j])
            before = len(pool)
            self.fill(b, pool, depth, rng.choice([0, 1, 2, 3, 4]))
            vals_of[i] = pool[before:]
            if term[i]:
                tname = rng.choice(["test.termop", "test.termop", "c13.term_pure", "unreg.br"])
                operands = [rng.choice(pool) for _ in range(rng.choice([0, 1, 1, 2]))] if pool else []
                t = self.tag(self.D[tname].create(operands=operands, successors=[blocks[k] for k in succ[i]]))
                b.add_op(t)
            for o in b.ops:
                direct.append((o, i))
        # dead (or live) use-def cycles across blocks: mutually-using ops, 2- and 3-cycles, plus forward references
        cand = [(o, i) for o, i in direct if o.name in REWIRABLE and o.results]
        for _ in range(rng.choice([0, 0, 1, 1, 2, 3])):
            if len(cand) < 2:
                break
            pl = [c for c in cand if c[0].name in PURELIKE]
            src = pl if len(pl) >= 2 and rng.random() < 0.75 else cand
            k = 3 if len(src) >= 3 and rng.random() < 0.3 else 2
            grp = rng.sample(src, k)
            if len({reach[i] for _, i in grp}) != 1:
                continue
            for a in range(k):
                u, d = grp[a][0], grp[(a + 1) % k][0]
                u.operands = list(u.operands) + [rng.choice(list(d.results))]
        users = [(o, i) for o, i in direct if o.name in REWIRABLE]
        for _ in range(rng.choice([0, 0, 1, 2])):
            if not users or not cand:
                break
            (u, ui), (d, di) = rng.choice(users), rng.choice(cand)
            if u is d or (reach[ui] and not reach[di]):
                continue
            u.operands = list(u.operands) + [rng.choice(list(d.results))]
        return Region(blocks)

    def mk_if(self, block, pool, depth):
        from xdsl.ir import Block, Region
        rng = self.rng
        cond = self.pick(pool, self.i1, block)
        rtypes = [self.i32] * rng.choice([0, 0, 1, 1, 2])
        regs = []
        for k in range(2):
            if k == 1 and not rtypes and rng.random() < 0.4:
                regs.append(Region())
                continue
            b = Block()
            inner = list(pool)
            self.fill(b, inner, depth + 1, rng.choice([0, 1, 2, 4]))
            ys = [self.pick(inner, t, b) for t in rtypes]
            b.add_op(self.tag(self.scf.YieldOp.create(operands=ys)))
            regs.append(Region(b))
        op = self.tag(self.scf.IfOp.create(operands=[cond], result_types=rtypes, regions=regs))
        block.add_op(op)
        pool.extend(op.results)

    def mk_for(self, block, pool, depth):
        from xdsl.ir import Block, Region
        rng = self.rng
        lb, ub, st = (self.pick(pool, self.index, block) for _ in range(3))
        k = rng.choice([0, 1, 1, 2])
        inits = [self.pick(pool, self.i32, block) for _ in range(k)]
        b = Block(arg_types=[self.index] + [self.i32] * k)
        inner = list(pool) + list(b.args)
        # no unregistered op DIRECTLY in an scf.for body: scf's RehoistConstInLoops canonicalization asks
        # has_trait(ConstantLike) with value_if_unregistered=True and hoists such ops out of the loop (a defect of
        # that pattern, not of DCE; it would make canonicalize legitimately delete the emptied loop afterwards)
        self.fill(b, inner, depth + 1, rng.choice([0, 1, 2, 4]), ban=("unreg.op",))
        ys = [self.pick(inner, self.i32, b) for _ in range(k)]
        b.add_op(self.tag(self.scf.YieldOp.create(operands=ys)))
        op = self.tag(self.scf.ForOp.create(operands=[lb, ub, st] + inits, result_types=[self.i32] * k,
                                            regions=[Region(b)]))
        block.add_op(op)
        pool.extend(op.results)

    def mk_while(self, block, pool, depth):
        from xdsl.ir import Block, Region
        rng = self.rng
        init = self.pick(pool, self.i32, block)
        b1 = Block(arg_types=[self.i32])
        inner = list(pool) + list(b1.args)
        self.fill(b1, inner, depth + 1, rng.choice([0, 1, 3]))
        c = self.pick(inner, self.i1, b1)
        fw = self.pick(inner, self.i32, b1)
        b1.add_op(self.tag(self.scf.ConditionOp.create(operands=[c, fw])))
        b2 = Block(arg_types=[self.i32])
        inner2 = list(pool) + list(b2.args)
        self.fill(b2, inner2, depth + 1, rng.choice([0, 1, 3]))
        y = self.pick(inner2, self.i32, b2)
        b2.add_op(self.tag(self.scf.YieldOp.create(operands=[y])))
        op = self.tag(self.scf.WhileOp.create(operands=[init], result_types=[self.i32],
                                              regions=[Region(b1), Region(b2)]))
        block.add_op(op)
        pool.extend(op.results)


def gen_struct(seed):
    return SGen(random.Random(seed)).module()


# ====================================================================== executable generator (text)
MEM_T = "memref<4xi32>"


def _egen_class():
    from xv import genprog

    class EGen(genprog.Gen):
        def __init__(self, rng):
            super().__init__(rng, allow_float=True, allow_loops=True, effects=False, ext_calls=True, safe_div=0.9)
            self.inited = set()
            self.marg = None

        def cidx(self, lines, ind):
            return self.const_idx(lines, ind, self.rng.randrange(4))

        def i32val(self, env, lines, ind):
            return self.pick(env, "i32", lines, ind)

        def stmt(self, env, lines, ind, depth):
            if self.rng.random() < 0.38:
                return self.special(env, lines, ind, depth)
            return super().stmt(env, lines, ind, depth)

        def effect_stmt(self, env, lines, ind):
            rng = self.rng
            r = rng.random()
            scal = [(v, t) for v, t in env if t != MEM_T]
            if r < 0.3 and self.marg:
                v = self.i32val(env, lines, ind)
                lines.append(f"{ind}memref.store {v}, {self.marg}[{self.cidx(lines, ind)}] : {MEM_T}")
            elif r < 0.55 and scal:
                v, t = rng.choice(scal)
                lines.append(f'{ind}printf.print_format "p {{}}", {v} : {t}')
            elif r < 0.8 and scal:
                v, t = rng.choice(scal)
                lines.append(f'{ind}"test.op_with_memwrite"({v}) : ({t}) -> ()')
            else:
                a = self.i32val(env, lines, ind)
                v = self.fresh()
                lines.append(f"{ind}{v} = func.call @ext_i32({a}) : (i32) -> i32")

        def special(self, env, lines, ind, depth):
            rng = self.rng
            r = rng.random()
            mems = [v for v, t in env if t == MEM_T and v != self.marg]
            scal = [(v, t) for v, t in env if t != MEM_T]
            if r < 0.22:
                m = self.fresh()
                kind = rng.choice(["alloc", "alloc", "alloca"])
                lines.append(f"{ind}{m} = memref.{kind}() : {MEM_T}")
                mode = rng.choice(["unused", "stores", "init", "init", "init_dealloc", "dealloc"])
                if mode == "stores":
                    for _ in range(rng.choice([1, 2])):
                        v = self.i32val(env, lines, ind)
                        lines.append(f"{ind}memref.store {v}, {m}[{self.cidx(lines, ind)}] : {MEM_T}")
                elif mode.startswith("init"):
                    for k in range(4):
                        v = self.i32val(env, lines, ind)
                        c = self.const_idx(lines, ind, k)
                        lines.append(f"{ind}memref.store {v}, {m}[{c}] : {MEM_T}")
                    self.inited.add(m)
                    if rng.random() < 0.5:
                        l = self.fresh()
                        lines.append(f"{ind}{l} = memref.load {m}[{self.cidx(lines, ind)}] : {MEM_T}")
                        env.append((l, "i32"))
                if mode.endswith("dealloc") and kind == "alloc":
                    lines.append(f"{ind}memref.dealloc {m} : {MEM_T}")
                else:
                    env.append((m, MEM_T))
            elif r < 0.34 and mems:
                m = rng.choice(mems)
                if m in self.inited and rng.random() < 0.6:
                    l = self.fresh()
                    lines.append(f"{ind}{l} = memref.load {m}[{self.cidx(lines, ind)}] : {MEM_T}")
                    env.append((l, "i32"))
                else:
                    v = self.i32val(env, lines, ind)
                    lines.append(f"{ind}memref.store {v}, {m}[{self.cidx(lines, ind)}] : {MEM_T}")
            elif r < 0.46 and self.marg:
                if rng.random() < 0.5:
                    l = self.fresh()
                    lines.append(f"{ind}{l} = memref.load {self.marg}[{self.cidx(lines, ind)}] : {MEM_T}")
                    env.append((l, "i32"))
                else:
                    v = self.i32val(env, lines, ind)
                    lines.append(f"{ind}memref.store {v}, {self.marg}[{self.cidx(lines, ind)}] : {MEM_T}")
            elif r < 0.62 and scal:
                v, t = rng.choice(scal)
                opn = rng.choice(["test.op", "test.op", "test.pureop", "test.pureop", "test.op_with_memread",
                                  "test.op_with_memwrite"])
                if rng.random() < 0.65:
                    o = self.fresh()
                    lines.append(f'{ind}{o} = "{opn}"({v}) : ({t}) -> i32')
                    if rng.random() < 0.6:
                        env.append((o, "i32"))
                else:
                    lines.append(f'{ind}"{opn}"({v}) : ({t}) -> ()')
            elif r < 0.80 and depth < 2:
                c = self.pick(env, "i1", lines, ind)
                lines.append(f"{ind}scf.if {c} {{")
                e2 = list(env)
                for _ in range(rng.choice([1, 2])):
                    if rng.random() < 0.7:
                        self.effect_stmt(e2, lines, ind + "  ")
                    else:
                        self.stmt(e2, lines, ind + "  ", depth + 1)
                if rng.random() < 0.4:
                    lines.append(f"{ind}}} else {{")
                    e3 = list(env)
                    for _ in range(rng.choice([1, 2])):
                        if rng.random() < 0.5:
                            self.effect_stmt(e3, lines, ind + "  ")
                        else:
                            self.stmt(e3, lines, ind + "  ", depth + 1)
                lines.append(f"{ind}}}")
            else:
                self.effect_stmt(env, lines, ind)

        # ---- whole functions
        def signature(self):
            rng = self.rng
            types = self.int_types + self.flt_types
            args = [(f"%arg{i}", rng.choice(types)) for i in range(rng.randint(0, 4))]
            if rng.random() < 0.6:
                self.marg = "%marg"
                args.append((self.marg, MEM_T))
            return args

        def rets(self, env, lines, ind, rtypes=None):
            rng = self.rng
            if rtypes is None:
                scal = [(v, t) for v, t in env if t != MEM_T]
                out = [rng.choice(scal) for _ in range(rng.randint(1, 3))] if scal else []
                if not out:
                    out = [(self.const("i32", lines, ind), "i32")]
                return out
            return [(self.pick(env, t, lines, ind), t) for t in rtypes]

        def func_flat(self, name="main"):
            args = self.signature()
            env = list(args)
            lines = []
            for _ in range(self.rng.choice([3, 6, 10, 16])):
                self.stmt(env, lines, "  ", 0)
            rets = self.rets(env, lines, "  ")
            sig = ", ".join(f"{a}: {t}" for a, t in args)
            text = (f"func.func @{name}({sig}) -> ({', '.join(t for _, t in rets)}) {{\n" + "\n".join(lines) +
                    f"\n  func.return {', '.join(v for v, _ in rets)} : {', '.join(t for _, t in rets)}\n}}\n")
            return text, [t for _, t in args]

        def func_cfg(self, name="main"):
            rng = self.rng
            args = self.signature()
            rtypes = [rng.choice(["i32", "i64", "i1", "i8", "index"]) for _ in range(rng.randint(1, 2))]
            nb = rng.choice([2, 3, 4, 5])
            nu = rng.choice([0, 1, 1, 2])
            labels = [f"^bb{i}" for i in range(nb)] + [f"^ub{i}" for i in range(nu)]
            bargs = [[]] + [[(f"%b{i}_{k}", rng.choice(["i32", "i64", "i1", "index"]))
                             for k in range(rng.choice([0, 0, 1, 2]))] for i in range(1, nb + nu)]
            env0 = list(args)
            lines = []
            for _ in range(rng.choice([2, 4, 7])):
                self.stmt(env0, lines, "  ", 0)

            def jump(env, j):
                vs = [(self.pick(env, t, lines, "  "), t) for _, t in bargs[j]]
                if not vs:
                    return labels[j]
                return f"{labels[j]}({', '.join(v for v, _ in vs)} : {', '.join(t for _, t in vs)})"

            def terminate(env, targets, may_return):
                r = rng.random()
                if not targets or (may_return and r < 0.2):
                    rs = self.rets(env, lines, "  ", rtypes)
                    lines.append(f"  func.return {', '.join(v for v, _ in rs)} : {', '.join(t for _, t in rs)}")
                elif r < 0.6:
                    lines.append(f"  cf.br {jump(env, rng.choice(targets))}")
                else:
                    c = self.pick(env, "i1", lines, "  ")
                    a, b = jump(env, rng.choice(targets)), jump(env, rng.choice(targets))
                    lines.append(f"  cf.cond_br {c}, {a}, {b}")

            terminate(env0, list(range(1, nb)), True)
            for i in range(1, nb + nu):
                hdr = labels[i]
                if bargs[i]:
                    hdr += "(" + ", ".join(f"{v}: {t}" for v, t in bargs[i]) + ")"
                lines.append(hdr + ":")
                env = list(env0) + list(bargs[i])
                for _ in range(rng.choice([0, 1, 3, 5])):
                    self.stmt(env, lines, "  ", 0)
                if i < nb:
                    terminate(env, list(range(i + 1, nb)), True)
                else:  # unreachable block: may jump anywhere except the entry block
                    terminate(env, list(range(1, nb + nu)), True)
            sig = ", ".join(f"{a}: {t}" for a, t in args)
            text = f"func.func @{name}({sig}) -> ({', '.join(rtypes)}) {{\n" + "\n".join(lines) + "\n}\n"
            return text, [t for _, t in args]

    return EGen


def gen_exec(seed):
    """-> (module text, argument types, input rows)"""
    from xv import genprog
    rng = random.Random(seed)
    g = _egen_class()(rng)
    text, argtypes = g.func_cfg() if rng.random() < 0.4 else g.func_flat()
    text = g.prelude() + text
    scal = [t for t in argtypes if t != MEM_T]
    rows = []
    for row in genprog.gen_inputs(rng, scal, 3):
        it = iter(row)
        full = []
        for t in argtypes:
            if t == MEM_T:
                full.append(("memref", [4], [rng.choice([0, 1, 7, 0xFFFFFFFF, rng.getrandbits(32)]) for _ in range(4)]))
            else:
                full.append(next(it))
        rows.append(full)
    return text, argtypes, rows


_CTX = None


def exec_ctx():
    global _CTX
    if _CTX is None:
        from xdsl.context import Context
        from xdsl.dialects import arith, builtin, cf, func, memref, printf, scf, test
        _CTX = Context()
        for d in (builtin.Builtin, arith.Arith, func.Func, memref.MemRef, scf.Scf, test.Test, cf.Cf, printf.Printf):
            _CTX.load_dialect(d)
    return _CTX


def parse_tagged(text):
    from xdsl.dialects.builtin import StringAttr
    from xdsl.parser import Parser
    m = Parser(exec_ctx(), text).parse_module()
    k = 0
    for op in m.walk():
        if op is m:
            continue
        op.attributes["id"] = StringAttr(f"e{k}")
        k += 1
    return m


# ====================================================================== hooks
class Hooks:
    def __init__(self):
        self.c = {}
        self.missed = {}
        self.viol = []
        self.not_in_table = set()
        self.installed = False

    def bump(self, k, n=1):
        self.c[k] = self.c.get(k, 0) + n

    def install(self):
        if self.installed:
            return
        self.installed = True
        import xdsl.transforms.canonicalize as CZ
        import xdsl.transforms.dead_code_elimination as DM
        from xv import c13_ref as R
        real_w, real_i, real_r = DM.would_be_trivially_dead, DM.is_trivially_dead, DM.region_dce
        real_prop, real_del = DM.LiveSet.propagate_op_liveness, DM.LiveSet.delete_dead
        H = self

        def describe(op):
            try:
                return str(op)[:400]
            except Exception:  # noqa: BLE001
                return op.name

        def would(op):
            got = real_w(op)
            H.bump("hook_would_be_trivially_dead_calls")
            try:
                why = R.live_why_not(op)
            except R.NotInTable:
                H.bump("hook_op_not_in_table")
                H.not_in_table.add(op.name)
                return got
            if got and why is not None:
                H.viol.append({"key": f"hook:would_be_trivially_dead:true-for-{why}",
                               "summary": f"would_be_trivially_dead({op.name}) is True but the reference says {why}",
                               "witness": {"op": describe(op)}})
            elif not got and why is None:
                H.bump("hook_would_be_false_but_reference_candidate")
                H.missed[op.name] = H.missed.get(op.name, 0) + 1
            elif got:
                H.bump("hook_would_be_true_agreed")
            else:
                H.bump("hook_would_be_false_agreed")
            return got

        def istd(op):
            got = real_i(op)
            H.bump("hook_is_trivially_dead_calls")
            if got:
                H.bump("hook_is_trivially_dead_true")
                users = R.scan_users(op)
                if users:
                    H.viol.append({"key": "hook:is_trivially_dead:true-for-op-with-uses",
                                   "summary": f"is_trivially_dead({op.name}) is True but {users[0].name} uses a result",
                                   "witness": {"op": describe(op), "user": describe(users[0])}})
                try:
                    why = R.live_why_not(op)
                except R.NotInTable:
                    why = None
                if why is not None:
                    H.viol.append({"key": f"hook:is_trivially_dead:true-for-{why}",
                                   "summary": f"is_trivially_dead({op.name}) is True but the reference says {why}",
                                   "witness": {"op": describe(op)}})
            return got

        def rdce(region, listener=None):
            H.bump("hook_region_dce_calls")
            return real_r(region, listener)

        def prop(self, op):
            H.bump("hook_propagate_op_liveness_calls")
            return real_prop(self, op)

        def dele(self, region, listener):
            H.bump("hook_delete_dead_calls")
            return real_del(self, region, listener)

        DM.would_be_trivially_dead = would
        DM.is_trivially_dead = istd
        DM.region_dce = rdce
        CZ.region_dce = rdce
        DM.LiveSet.propagate_op_liveness = prop
        DM.LiveSet.delete_dead = dele


def run_pass(pname, module, ctx):
    import xdsl.transforms.dead_code_elimination as DM
    from xdsl.pattern_rewriter import GreedyRewritePatternApplier, PatternRewriteWalker
    if pname == "dce":
        DM.DeadCodeElimination().apply(ctx, module)
    elif pname == "canonicalize":
        from xdsl.transforms.canonicalize import CanonicalizePass
        CanonicalizePass().apply(ctx, module)
    elif pname == "bare":
        PatternRewriteWalker(GreedyRewritePatternApplier([], dce_enabled=True)).rewrite_module(module)
    elif pname == "bare_rev":
        PatternRewriteWalker(GreedyRewritePatternApplier([], dce_enabled=True), walk_reverse=True,
                             walk_regions_first=True).rewrite_module(module)
    elif pname == "legacy":
        DM.dce(module)
    else:
        raise AssertionError(pname)


# ====================================================================== comparison
def _names(snap, ids, limit=4):
    return sorted({snap.by_id[i].name for i in ids})[:limit]


def compare_sets(pname, snap, got, blocks_after, problems, exact):
    """-> list of (key, summary, detail). `exact`: dce / canonicalize (equality with the precise reference);
    otherwise the trivially-dead walks (soundness against the trivial fixpoint)."""
    from xv import c13_ref as R
    out = []
    allids = set(snap.by_id)
    for kind, what in problems[:3]:
        out.append((f"{pname}:dangling:{kind}", f"after {pname}: {kind} ({what})", {"what": what}))
    if exact:
        want, _rounds = R.complete(snap)
        wblocks = R.surviving_blocks(snap, want)
        if got == want:
            for k, n in wblocks.items():
                if blocks_after.get(k) != n:
                    kind = "unreachable-block-remains" if blocks_after.get(k, 0) > n else "reachable-block-removed"
                    out.append((f"{pname}:{kind}", f"after {pname}: region {k} has {blocks_after.get(k)} blocks, "
                                f"reference {n}", {"region": list(k)}))
                    break
            return out
        # is the disagreement exactly one of the KNOWN wrong-behaviour models (or a combination)?
        devs = ["extsi", "remui", "alloc"] + (["oneshot"] if pname == "dce" else [])
        present = {n.name for n in snap.nodes}
        devs = [d for d in devs if d == "oneshot" or present & set(R.DEVIATIONS[d])]
        for size in range(1, len(devs) + 1):
            for sub in itertools.combinations(devs, size):
                dv = [d for d in sub if d != "oneshot"]
                w = R.one_round(snap, None, dv) if "oneshot" in sub else R.complete(snap, dv)[0]
                if w == got:
                    for d in sub:
                        key = KNOWN_KEYS[d] if d == "oneshot" else f"{pname}:{KNOWN_KEYS[d]}"
                        out.append((key, f"after {pname} ops remain that the reference removes "
                                    f"({_names(snap, got - want)}); explained exactly by known model {sub}",
                                    {"kept_removable": sorted(got - want)[:8], "model": list(sub)}))
                    return out
        removed_live = want - got
        kept_dead = got - want
        gone_blocks = [b for n in snap.nodes if n.id in got for reg in n.regions for b in reg[1:]
                       if b.reach and b.ops and all(o.id not in got for o in b.ops)]
        gone_blocks += [b for b in snap.top[1:] if b.reach and b.ops and all(o.id not in got for o in b.ops)]
        if gone_blocks:
            last = sorted({b.ops[-1].name for b in gone_blocks})
            out.append((f"{pname}:reachable-block-removed",
                        f"{pname} deleted {len(gone_blocks)} reachable block(s) (ending in {last[:3]}) with everything in "
                        f"them: {_names(snap, removed_live)}",
                        {"removed_live": sorted(removed_live)[:8], "kept_removable": sorted(kept_dead)[:8]}))
        elif removed_live:
            why = _top_reasons(snap, removed_live, allids - got, "used-by-live-op")
            out.append((f"{pname}:removed-live:{'|'.join(why)}",
                        f"{pname} removed ops the reference keeps: {_names(snap, removed_live)}",
                        {"removed_live": sorted(removed_live)[:8], "kept_removable": sorted(kept_dead)[:8]}))
        else:
            unreachable = [i for i in kept_dead if not _visible(snap.by_id[i])]
            kind = "unreachable-block-remains" if unreachable else "removable-op-remains"
            out.append((f"{pname}:{kind}", f"after {pname} ops remain that the reference removes: "
                        f"{_names(snap, kept_dead)}", {"kept_removable": sorted(kept_dead)[:8]}))
        return out
    gone_max = R.trivially_removable(snap)
    removed = allids - got
    bad = removed - gone_max
    if bad:
        why = _top_reasons(snap, bad, removed, "has-live-uses")
        out.append((f"{pname}:removed-not-trivially-dead:{'|'.join(why)}",
                    f"{pname} removed ops that are not trivially dead: {_names(snap, bad)}",
                    {"removed": sorted(bad)[:8]}))
    return out


def _top_reasons(snap, wrong, removed, default):
    """Reference reasons (terminator / symbol / effect atoms) of the TOP-MOST wrongly removed ops (those whose parent
    op was not removed as well); ops that merely vanished with a removed ancestor do not name the mechanism."""
    from xv import c13_ref as R
    why = set()
    for i in wrong:
        n = snap.by_id[i]
        if n.parent is not None and n.parent.id in removed:
            continue
        if not _visible(n):
            continue
        why.add(R.why_not(n, allblocks=False) or default)
    intrinsic = sorted(w for w in why if w != default)
    return intrinsic[:2] or [default]


def _visible(n):
    while n is not None:
        if not n.blk.reach:
            return False
        n = n.parent
    return True


# ====================================================================== plan / work / finish
def plan(tier, seed):
    jobs = []
    if tier == "quick":
        ns, ne, per_s, per_e = 12, 4, 140, 40
    else:
        ns, ne, per_s, per_e = 64, 32, 2500, 400
    for i in range(ns):
        jobs.append({"kind": "struct", "seed": seed * 100003 + i, "n": per_s})
    for i in range(ne):
        jobs.append({"kind": "exec", "seed": seed * 100003 + 50000 + i, "n": per_e})
    return jobs


def work(job):
    from xdsl.context import Context
    from xv import c13_ref as R
    H = Hooks()
    H.install()
    res = {"evaluations": 0, "nontrivial": [], "samples": [], "counters": {}, "sets": {}, "violations": [],
           "extra": {}}
    C = res["counters"]
    nt = set()
    opnames = set()

    def bump(k, n=1):
        C[k] = C.get(k, 0) + n

    def viol(key, summary, witness):
        bump("violations_raw")
        if sum(1 for v in res["violations"] if v["key"] == key) < 2 and len(res["violations"]) < 30:
            res["violations"].append({"key": key, "summary": summary, "witness": witness})

    def flush_hooks(ctxinfo):
        for v in H.viol:
            w = dict(v["witness"])
            w.update(ctxinfo)
            viol(v["key"], v["summary"], w)
        H.viol.clear()

    cases = job.get("cases") or range(job["n"])
    only_pass = job.get("pass")
    if job["kind"] == "struct":
        ctx = Context()
        for k in cases:
            cseed = job["seed"] * 1000003 + k
            m = gen_struct(cseed)
            snap = R.snapshot(m)
            canon = shash(R.canon(snap))
            want, rounds = R.complete(snap)
            ncand_kept = sum(1 for i in want if R.candidate(snap.by_id[i], allblocks=False))
            nontriv = len(want) < len(snap.nodes) and ncand_kept >= 1
            if nontriv:
                nt.add(canon)
            opnames.update(n.name for n in snap.nodes)
            bump("struct_modules")
            bump("struct_modules_needing_more_than_one_round", int(rounds > 1))
            bump("struct_modules_where_precise_beats_iterated", int(R.precise_survivors(snap) != want))
            bump("struct_ops_generated", len(snap.nodes))
            bump("struct_ops_reference_removes", len(snap.nodes) - len(want))
            nu = R.regions_needing_unregistered_edges(snap)
            bump("struct_modules_with_block_reachable_only_through_unregistered_terminator", int(nu > 0))
            bump("struct_unregistered_ops_generated", sum(1 for n in snap.nodes if n.name == "builtin.unregistered"))
            bump("struct_modules_with_unreachable_block",
                 int(any(not b.reach for n in snap.nodes for reg in n.regions for b in reg)))
            triv = set(snap.by_id) - R.trivially_removable(snap)
            bump("struct_modules_where_liveness_beats_trivial", int(triv != want))
            passes = [only_pass] if only_pass else ["dce", STRUCT_PASSES[1 + k % 4]]
            for pi, pname in enumerate(passes):
                if pi > 0:
                    m = gen_struct(cseed)
                before_text = None
                rj = {"kind": "struct", "seed": job["seed"], "n": job["n"], "cases": [k], "pass": pname}
                res["evaluations"] += 1
                bump(f"runs_{pname}")
                try:
                    run_pass(pname, m, ctx)
                except Exception as e:  # noqa: BLE001  (the pass under test raised on a generated module)
                    viol(f"{pname}:raised:{type(e).__name__}", f"{pname} raised {type(e).__name__}: {e}"[:300],
                         {"pass": pname, "module_before": str(gen_struct(cseed)), "replay_job": rj})
                    flush_hooks({"pass": pname, "replay_job": rj})
                    continue
                got, noid, blocks_after, problems = R.collect(m)
                if noid:
                    raise AssertionError(f"structural module gained ops without id: {noid[:3]}")
                exact = pname in ("dce", "canonicalize")
                diffs = compare_sets(pname, snap, got, blocks_after, problems, exact)
                if not exact:
                    left = got - triv
                    if left:
                        bump(f"{pname}_runs_leaving_trivially_dead_ops")
                if not diffs:
                    bump(f"agree_{pname}")
                for key, summary, detail in diffs:
                    if before_text is None:
                        before_text = str(gen_struct(cseed))
                    detail = dict(detail)
                    detail.update({"pass": pname, "module_before": before_text, "replay_job": rj})
                    viol(key, summary, detail)
                flush_hooks({"pass": pname, "replay_job": rj})
            if len(res["samples"]) < 2 and nontriv:
                res["samples"].append({"kind": "struct", "ops": len(snap.nodes), "reference_keeps": len(want),
                                       "module": str(gen_struct(cseed))[:1500]})
    else:
        from xv import refsem
        ctx = exec_ctx()
        for k in cases:
            cseed = job["seed"] * 1000003 + k
            text, argtypes, rows = gen_exec(cseed)
            m0 = parse_tagged(text)
            m0.verify()
            snap = R.snapshot(m0)
            canon = shash(R.canon(snap))
            want, rounds = R.complete(snap)
            ncand_kept = sum(1 for i in want if R.candidate(snap.by_id[i], allblocks=False))
            nontriv = len(want) < len(snap.nodes) and ncand_kept >= 1
            if nontriv:
                nt.add(canon)
            opnames.update(n.name for n in snap.nodes)
            bump("exec_programs")
            bump("exec_programs_needing_more_than_one_round", int(rounds > 1))
            bump("exec_ops_generated", len(snap.nodes))
            bump("exec_ops_reference_removes", len(snap.nodes) - len(want))
            bump("exec_programs_with_unreachable_block",
                 int(any(not b.reach for n in snap.nodes for reg in n.regions for b in reg)))
            base = []
            for row in rows:
                try:
                    base.append(("ok",) + tuple(map(_freeze, refsem.run(m0, "main", row, step_limit=20000))))
                except refsem.Undefined:
                    base.append(("ub",))
                    bump("exec_inputs_excluded_source_ub")
                except refsem.StepLimit:
                    base.append(("steps",))
                    bump("exec_inputs_excluded_step_limit")
            triv = set(snap.by_id) - R.trivially_removable(snap)
            for pname in ([only_pass] if only_pass else EXEC_PASSES):
                m = parse_tagged(text)
                res["evaluations"] += 1
                bump(f"runs_{pname}")
                rj = {"kind": "exec", "seed": job["seed"], "n": job["n"], "cases": [k], "pass": pname}
                wit = {"pass": pname, "program": text, "replay_job": rj}
                try:
                    run_pass(pname, m, ctx)
                except Exception as e:  # noqa: BLE001  (the pass under test raised on a verified program)
                    attributed = True
                    if pname == "canonicalize":
                        # folders / other patterns may raise on their own (C14's subject): does the pass raise the
                        # same way with every dead-code removal switched off?
                        try:
                            _canonicalize_without_dce(text, ctx)
                        except Exception as e2:  # noqa: BLE001
                            attributed = type(e2) is not type(e)
                    if attributed:
                        viol(f"exec:{pname}:raised:{type(e).__name__}", f"{pname} raised {type(e).__name__}: {e}"[:300],
                             wit)
                    else:
                        bump("exec_canonicalize_raises_also_without_any_dce")
                        res["sets"].setdefault("canonicalize_exceptions_not_attributed_to_dce", [])
                        if type(e).__name__ not in res["sets"]["canonicalize_exceptions_not_attributed_to_dce"]:
                            res["sets"]["canonicalize_exceptions_not_attributed_to_dce"].append(type(e).__name__)
                    flush_hooks(wit)
                    continue
                try:
                    m.verify()
                except Exception as e:  # noqa: BLE001
                    viol(f"exec:{pname}:output-does-not-verify", f"{pname} output fails verification: {e}"[:300], wit)
                    flush_hooks(wit)
                    continue
                got, noid, blocks_after, problems = R.collect(m)
                diffs = []
                if pname != "canonicalize":
                    if noid:
                        raise AssertionError(f"{pname} created ops: {noid[:3]}")
                    diffs = compare_sets(pname, snap, got, blocks_after, problems, pname == "dce")
                    if pname != "dce" and got - triv:
                        bump(f"{pname}_runs_leaving_trivially_dead_ops")
                else:
                    for kind, what in problems[:3]:
                        diffs.append((f"{pname}:dangling:{kind}", f"after {pname}: {kind} ({what})", {}))
                for key, summary, detail in diffs:
                    d = dict(detail)
                    d.update(wit)
                    viol(key, summary, d)
                same = True
                for row, b in zip(rows, base):
                    if b[0] != "ok":
                        continue
                    bump("exec_runs_compared")
                    try:
                        a = ("ok",) + tuple(map(_freeze, refsem.run(m, "main", row, step_limit=40000)))
                    except refsem.Undefined as e:
                        a = ("ub", str(e))
                    except refsem.StepLimit:
                        a = ("steps",)
                    if a != b:
                        if a[0] != "ok":
                            kind = "introduced-ub-or-nontermination"
                        elif a[1] != b[1]:
                            kind = "results-differ"
                        else:
                            kind = "effect-log-differs"
                        if pname == "canonicalize":
                            # attribute: the same pass with every dead-code removal switched off (folding and the
                            # other patterns untouched). Same wrong answer => not caused by DCE (C14's subject).
                            m2 = _canonicalize_without_dce(text, ctx)
                            try:
                                a2 = ("ok",) + tuple(map(_freeze, refsem.run(m2, "main", row, step_limit=40000)))
                            except refsem.Undefined as e:
                                a2 = ("ub", str(e))
                            except refsem.StepLimit:
                                a2 = ("steps",)
                            if a2 != b:
                                bump("exec_canonicalize_differences_present_without_any_dce")
                                res["sets"].setdefault("canonicalize_differences_not_attributed_to_dce", [])
                                if kind not in res["sets"]["canonicalize_differences_not_attributed_to_dce"]:
                                    res["sets"]["canonicalize_differences_not_attributed_to_dce"].append(kind)
                                continue
                        same = False
                        d = dict(wit)
                        d.update({"input": _freeze(row), "before": b, "after": a, "program_after": str(m)[:3000]})
                        viol(f"exec:{pname}:{kind}", f"{pname}: reference execution differs ({kind})", d)
                        break
                if not diffs and same:
                    bump(f"agree_{pname}")
                flush_hooks(wit)
            if len(res["samples"]) < 1 and nontriv:
                res["samples"].append({"kind": "exec", "program": text[:1500], "inputs": _freeze(rows[:1])})
    for k, v in H.c.items():
        C[k] = C.get(k, 0) + v
    for name, n in H.missed.items():
        C[f"hook_missed_candidate:{name}"] = n
    res["nontrivial"] = sorted(nt)
    res["sets"]["op_names_generated"] = sorted(opnames)
    res["sets"]["hook_ops_not_in_table"] = sorted(H.not_in_table)
    C["nontrivial_cases"] = len(nt)
    return res


def _canonicalize_without_dce(text, ctx):
    import xdsl.transforms.canonicalize as CZ
    import xdsl.transforms.dead_code_elimination as DM
    saved = (DM.is_trivially_dead, CZ.region_dce)
    DM.is_trivially_dead = lambda op: False
    CZ.region_dce = lambda region, listener=None: False
    try:
        m = parse_tagged(text)
        run_pass("canonicalize", m, ctx)
    finally:
        DM.is_trivially_dead, CZ.region_dce = saved
    return m


def _freeze(x):
    if isinstance(x, (list, tuple)):
        return [_freeze(y) for y in x]
    if isinstance(x, float):
        return repr(x)
    return x


def finish(agg, tier):
    c = agg.counters
    inc = []
    scale = 1 if tier == "quick" else 10
    need = {"struct_modules": 1000, "exec_programs": 80, "runs_dce": 1100, "runs_canonicalize": 250, "runs_bare": 250,
            "runs_bare_rev": 150, "runs_legacy": 250, "exec_runs_compared": 500,
            "hook_would_be_trivially_dead_calls": 70000, "hook_is_trivially_dead_true": 6000,
            "hook_region_dce_calls": 1000, "hook_propagate_op_liveness_calls": 70000, "hook_delete_dead_calls": 5000,
            "struct_modules_with_unreachable_block": 400, "struct_modules_where_liveness_beats_trivial": 300,
            "struct_modules_needing_more_than_one_round": 80,
            "struct_modules_with_block_reachable_only_through_unregistered_terminator": 150,
            "exec_programs_with_unreachable_block": 20, "nontrivial_cases": 500}
    for k, n in need.items():
        if c.get(k, 0) < n * scale:
            inc.append(f"{k}={c.get(k, 0)} below the reach threshold {n * scale}")
    if agg.sets.get("hook_ops_not_in_table"):
        inc.append(f"ops outside the reference table reached the hooks: {sorted(agg.sets['hook_ops_not_in_table'])[:5]}")
    return {"inconclusive": inc, "coverage": {"passes": STRUCT_PASSES}}
