"""C28 - equality saturation preserves program results.

Reference-model differential monitor.  Generated pure arith DAG functions go through the REAL passes
  eqsat-create-eclasses, [convert-pdl-to-pdl-interp, convert-pdl-interp-to-eqsat-pdl-interp, apply-eqsat-pdl-interp],
  eqsat-add-costs, eqsat-extract
with rewrite rules that were first VALIDATED as sound by the independent reference semantics `xv.refsem` on
exhaustive i4 inputs (rules that fail the validation - several are in the candidate list on purpose - are never
used).  The function before and after the pipeline is executed by `xv.refsem` on boundary-biased inputs and the
results compared; the extracted function must verify and contain no e-class op; with no rules the extracted
program must be the input program modulo op order and dead ops (order-independent expression form built on
`xv.canon.canon_attr`)."""
from __future__ import annotations

import random
import shutil
import tempfile

from xv.harness import shash

ID = "C28"
LEVEL = "exploration"
RULE = ("a case is (module of 1-3 pure single-block arith functions (later ones fresh or an identical copy of the first, so constants and sub-expressions occur in several functions) over one integer type i8/i16/i32/i64/index: 2-14 ops from "
        "addi/muli/subi/shli/andi/ori/xori and constants 0/1/2/3/4/-1/-2/-4 and 64-bit values with colliding python hashes (2**63-1, -2**63, 2**61-1) with shared sub-terms, dead ops and 1-3 returns; a set "
        "of 0-5 rewrite rules drawn from the refsem-validated candidates (identities with constants 0/1/2, commutativity, "
        "associativity, distributivity / factoring, x*2 -> x<<1, x+x -> x*2, x-x -> 0 ...) rendered as PDL with constant or "
        "free result types and re-used or re-created constants; max_iterations 1-20; uniform or random per-op cost table), "
        "each executed on 8 boundary-biased input vectors; non-trivial = saturation produced an e-class with >= 2 nodes "
        "(rules) or the function has >= 2 ops (no rules); distinct = distinct (function, rule set, parameters) hashes")
LEVEL_TEXT = ("For every explored function, rule set and parameter choice the extracted function verified, contained no e-class "
              "op and returned, on every explored input on which the source is defined, exactly the results of the source "
              "under the independent reference semantics; with no rules the extracted program was the source modulo order "
              "and dead ops; held = no comparison disagreed.")
LEVEL_NOTE = ("trusts xv.refsem (reference semantics, also used to validate every rule on all i4 inputs), xv.canon.canon_attr, "
              "the xDSL parser / verifier, CPython")
TECHNIQUE = "reference-model differential monitor (refsem results before/after the real eqsat pipeline) with refsem-validated rule sets and an executable model of the known wrong behaviour as classifier"
ENGINES = ["harness", "refsem", "canon"]
ASSUMPTIONS = ["a rule that holds for all i4 inputs (both sides defined and equal) is sound for every integer width used (rule constants are in -4..4, no width-dependent constants)",
               "inputs on which the source function is undefined (shift amount >= width) are excluded on the source side only",
               "rule sets that contain an expanding rule (distributivity, factoring, associativity, x+x -> x*2) run with max_iterations <= 6; a saturation that still needs more than 5 CPU-s is excluded and counted (budget, not verdict)",
               "cost tables are positive integers; eqsat-add-costs is always given a default so that every e-class gets a min_cost_index"]
JOB_TIMEOUT = {"quick": 900, "thorough": 5400}

SIZES = {"quick": (24, 40), "thorough": (64, 480)}
NINPUTS = 8
FALSY_KEY = "eqsat:falsy-constant-attribute-constraint-dropped"
UBD_KEY = "extract:operand-defined-after-use-in-extracted-block"
EXPANDING = {"distrib", "factor", "add-assoc", "mul-assoc", "add-self"}
OVERRIDABLE = ("extracted-program-result-differs", "extracted-program-introduces-undefined-behaviour")


def plan(tier, seed):
    n, per = SIZES[tier]
    return [{"kind": "gen", "seed": seed, "shard": i, "n": per} for i in range(n)]


class Tally:
    def __init__(self):
        self.res = {"evaluations": 0, "nontrivial": [], "samples": [], "counters": {}, "sets": {}, "violations": [], "extra": {}}
        self.per_key: dict = {}

    def c(self, k, n=1):
        self.res["counters"][k] = self.res["counters"].get(k, 0) + n

    def s(self, k, v):
        self.res["sets"].setdefault(k, [])
        if v not in self.res["sets"][k]:
            self.res["sets"][k].append(v)

    def viol(self, key, summary, witness):
        self.c("violating_cases:" + key)
        n = self.per_key.get(key, 0)
        self.per_key[key] = n + 1
        if n < 4:
            self.res["violations"].append({"key": key, "summary": summary, "witness": witness})


def exc_key(e):
    import traceback
    tb = traceback.extract_tb(e.__traceback__)
    fn = "?"
    for fr in reversed(tb):
        if "/xdsl/" in fr.filename:
            fn = fr.filename.split("/xdsl/")[-1].replace("/", ".").removesuffix(".py") + ":" + fr.name
            break
    return f"{type(e).__name__}@{fn}"


class PipelineTimeout(BaseException):
    pass


CPU_LIMIT_S = 5  # a pipeline normally costs 0.03 CPU-s; process CPU time, not wall


def _cpu_limited(fn):
    """Run fn() under a process-CPU-time alarm (ITIMER_VIRTUAL): a pass that loops forever is an observation, not a
    lost shard.  Pure-Python loops are interruptible by signal handlers."""
    import signal

    def handler(signum, frame):
        raise PipelineTimeout()
    old = signal.signal(signal.SIGVTALRM, handler)
    signal.setitimer(signal.ITIMER_VIRTUAL, CPU_LIMIT_S)
    try:
        return fn()
    finally:
        signal.setitimer(signal.ITIMER_VIRTUAL, 0)
        signal.signal(signal.SIGVTALRM, old)


def run_case(L, case, workdir, interner, snapshot=None):
    """Run the pipeline for a case dict.  Returns (outcome, module|None, stages, pattern text).
    outcome = ("raised", stage, key, msg) | ("invalid", msg) | ("eclass-left", names) | ("cyclic",) | ("ok", expr_form).
    snapshot: optional dict filled with the e-graph reference taken between eqsat-add-costs and eqsat-extract."""
    rules = [L.RULES_BY_NAME[n] for n in case["rules"]]
    if case.get("relaxed"):
        rules = [L.relaxed(r)[0] for r in rules]
    rrng = random.Random(case["render_seed"])
    ptext = "".join(L.rule_pdl(r, case["type"], rrng, case["reuse_const"]) for r in rules)
    st: dict = {}
    cm = case["cost_mode"]
    table, default = ({}, cm[1]) if cm[0] == "default" else (cm[1], cm[2])

    def before_extract(m):
        if snapshot is not None:
            snapshot.update(L.module_egraph_reference(m, lambda name: table.get(name, default), interner))
    try:
        ctx, m = _cpu_limited(lambda: L.run_pipeline(case["func"] + ptext, bool(rules) or case.get("empty_rule_pipeline", False),
                                                    case["max_iterations"], tuple(cm), workdir, st, before_extract))
    except PipelineTimeout:
        return ("raised", st.get("stage"), "no-termination", f"more than {CPU_LIMIT_S} CPU-s in {st.get('stage')}"), None, st, ptext
    except Exception as e:  # noqa: BLE001
        return ("raised", st.get("stage"), exc_key(e), str(e).strip().splitlines()[-1][:200] if str(e).strip() else ""), None, st, ptext
    fs = L.funcs(m)
    left = sorted({o.name for f in fs for o in f.walk() if o.name.startswith("equivalence.")})
    if left:
        return ("eclass-left", tuple(left)), m, st, ptext
    try:
        m.verify()  # whole module: also catches a function using a value of another function (IsolatedFromAbove)
    except Exception as e:  # noqa: BLE001
        return ("invalid", type(e).__name__ + ": " + str(e).strip().splitlines()[-1][:160]), m, st, ptext
    if not all(L.is_acyclic(f) for f in fs):
        return ("cyclic",), m, st, ptext
    return ("ok", L.module_form(m, interner)), m, st, ptext


def work(job):
    from xdsl.parser import Parser
    from xv import c28_lib as L
    from xv.corpus import new_ctx
    from xv.worker import journal
    T = Tally()
    if job["kind"] == "replay":
        cases = [job["case"]]
    else:
        cases = None
    # ---- rule validation (every shard re-validates: the rule set actually used is the validated one)
    sound = []
    relaxed_unsound: dict = {}
    for r in L.RULE_CANDIDATES:
        ok, n, cex = L.validate_rule(r)
        T.c("rule_validation_inputs", n)
        if ok:
            sound.append(r)
            T.s("rules_validated_sound", r[0])
        else:
            T.s("rules_rejected_unsound", r[0])
    T.c("rules_validated_sound", len(sound))
    T.c("rules_rejected_unsound", len(L.RULE_CANDIDATES) - len(sound))
    L.RULES_BY_NAME = {r[0]: r for r in L.RULE_CANDIDATES}
    sound_names = {r[0] for r in sound}
    _install_reach_counters(T)
    workdir = tempfile.mkdtemp(prefix="xv-c28-")
    try:
        n = 1 if cases else job["n"]
        hangs = 0
        for i in range(n):
            if hangs >= 3:
                # every hang costs CPU_LIMIT_S; three observations of the same kind are enough for a verdict
                T.c("shards_cut_short_after_repeated_nontermination")
                break
            if cases:
                case = cases[0]
                if not set(case["rules"]) <= sound_names:
                    raise RuntimeError("replay uses a rule that is not validated as sound")
                rng = random.Random(case["input_seed"])
            else:
                rng = random.Random(f"c28:{job['seed']}:{job['shard']}:{i}")
                k = rng.choice([0, 0, 1, 2, 3, 3, 4, 5])
                chosen = rng.sample(sound, k)
                if k and rng.random() < 0.4:
                    # at least one rule that materialises a constant with a hash-colliding partner
                    mat = [r for r in sound if r[0] in L.MATERIALISING and r not in chosen[1:]]
                    chosen[0] = rng.choice(mat)
                rules = [r[0] for r in chosen]
                ty = rng.choice(L.PROG_TYPES + ["index"])
                nfuncs = rng.choice([1, 1, 2, 2, 3])
                ftext, fsigs = "", []
                first = None
                for fi in range(nfuncs):
                    fname = "main" if fi == 0 else f"aux{fi}"
                    if first is not None and rng.random() < 0.35:
                        # identical body under another name: every sub-expression / constant exists in two functions
                        t1, a1 = first[0].replace("@main(", f"@{fname}(", 1), first[1]
                    else:
                        t1, a1, _n, _t = L.gen_func(rng, ty, plant=[(r[1], r[2]) for r in chosen if rng.random() < 0.75], name=fname)
                    if first is None:
                        first = (t1, a1)
                    ftext += t1
                    fsigs.append([fname, a1])
                argt = fsigs[0][1]
                cm = ["default", rng.choice([1, 1, 3])] if rng.random() < 0.5 else \
                    ["file", {nm: rng.randint(1, 9) for nm in L.OPS.values()} | {"arith.constant": rng.randint(1, 3)}, 1]
                maxit = rng.randint(1, 20) if rng.random() < 0.6 else 20
                if EXPANDING & set(rules):
                    maxit = min(maxit, rng.choice([2, 3, 4, 6]))  # these rule sets never saturate: bounded exploration
                case = {"func": ftext, "type": ty, "argtypes": argt, "funcs": fsigs, "rules": rules,
                        "max_iterations": maxit, "cost_mode": cm,
                        "reuse_const": rng.random() < 0.7, "render_seed": rng.getrandbits(32), "input_seed": rng.getrandbits(32),
                        "empty_rule_pipeline": (k == 0 and rng.random() < 0.5)}
            journal(case["func"])
            T.res["evaluations"] += 1
            T.c("functions")
            T.c("functions_in_modules", len(case.get("funcs") or [1]))
            if len(case.get("funcs") or [1]) > 1:
                T.c("multi_function_modules")
            T.c("functions_with_rules" if case["rules"] else "functions_without_rules")
            for rn in case["rules"]:
                T.c("rule_used:" + rn)
            T.c("cost_mode:" + case["cost_mode"][0])
            m0 = Parser(new_ctx(), case["func"]).parse_module()
            m0.verify()
            interner = L.Interner()
            form0 = L.module_form(m0, interner)
            snap: dict = {}
            out, m, st, ptext = run_case(L, case, workdir, interner, snap)
            T.c("eclasses_created", st.get("eclasses_created", 0))
            T.c("eclasses_after_saturation", st.get("eclasses_after_saturation", 0))
            T.c("enodes_after_saturation", st.get("enodes_after_saturation", 0))
            T.c("multi_node_classes", st.get("multi_node_classes", 0))
            nontrivial = (st.get("multi_node_classes", 0) > 0) if case["rules"] else (len(form0[1]) >= 2)
            if nontrivial:
                T.res["nontrivial"].append(shash((case["func"], case["rules"], case["max_iterations"], case["cost_mode"], case["reuse_const"])))
                T.c("nontrivial_cases")
            problems = []  # (generic key, summary, extra witness)
            if snap:
                T.c("egraph_snapshots")
                T.c("egraph_classes", snap["classes"])
                T.c("egraph_nodes", snap["nodes"])
                T.c("min_cost_designations_checked", snap["checked"])
                for kind, txt in snap["problems"][:1]:
                    problems.append(("add-costs:" + kind, txt, {}))
            if out[0] == "raised" and out[2] == "no-termination" and out[1] == "apply-eqsat-pdl-interp":
                # e-graph blow-up (distributivity / associativity / x+x -> x*2 feed each other): a saturation budget
                # problem of the workload, not a verdict; a hang in any OTHER stage is reported below
                T.c("excluded_saturation_cpu_budget_exceeded")
                continue
            if out[0] == "raised":
                problems.append((f"pipeline-raised:{out[1]}:{out[2]}", f"{out[1]} raised {out[2]}: {out[3]}", {}))
                if out[2] == "no-termination":
                    hangs += 1
            elif out[0] == "eclass-left":
                problems.append(("eclass-op-left-after-extract", f"extracted function still contains {out[1]}", {"extracted": L.funcs_text(m)}))
            elif out[0] == "cyclic":
                problems.append(("extract:cyclic-use-in-extracted-function", "an op of the extracted function uses (transitively) its own result",
                                 {"extracted": L.funcs_text(m)}))
            elif out[0] == "invalid":
                problems.append(("extracted-function-does-not-verify", out[1], {"extracted": L.funcs_text(m)}))
            else:
                T.c("pipelines_completed")
                form1 = out[1]
                if form1 != form0:
                    T.c("extracted_program_differs_structurally")
                if snap and not snap["problems"]:
                    T.c("designated_extractions_compared")
                    if snap["returns"] != form1[0]:
                        problems.append(("extract:program-is-not-the-designated-min-cost-extraction",
                                         "the returned expressions differ from the nodes designated by min_cost_index",
                                         {"extracted": L.funcs_text(m)}))
                if not case["rules"]:
                    T.c("no_rule_roundtrips")
                    extra_ops = _multiset_minus(form1[1], form0[1])
                    if form1[0] != form0[0] or extra_ops:
                        problems.append(("no-rules:program-changed", "create-eclasses + add-costs + extract changed the program",
                                         {"extracted": L.funcs_text(m)}))
                    else:
                        T.c("no_rule_roundtrips_identical_modulo_order_and_dead_ops")
                nubd = sum(L.use_before_def(f) for f in L.funcs(m))
                executable = True
                if nubd:
                    # right ops in an order that is not executable: reported under its own key; the comparison below
                    # runs on the topologically sorted block, so a wrong RESULT is still seen (and keyed differently)
                    T.c("extracted_functions_with_use_before_def")
                    before = L.funcs_text(m)
                    if not all(L.toposort_block(f) for f in L.funcs(m)):
                        raise RuntimeError("acyclic block could not be sorted (harness bug)")
                    problems.append((UBD_KEY, f"{nubd} operand(s) of the extracted function are defined after their use",
                                     {"extracted": before}))
                bad = compare_results(L, m0, m, case, T)
                if bad:
                    problems.append((bad[0], f"args {bad[1]}: source returns {bad[2]}, extracted returns {bad[3]}",
                                     {"args": bad[1], "want": bad[2], "got": bad[3], "extracted": L.funcs_text(m)}))
                elif len(T.res["samples"]) < 2 and form1 != form0:
                    T.res["samples"].append({"function": case["func"], "rules": case["rules"], "extracted": L.funcs_text(m),
                                             "max_iterations": case["max_iterations"], "cost_mode": case["cost_mode"]})
            if not problems:
                continue
            # ---- classification against the executable model of the known wrong behaviour
            key_override = None
            nrel = sum(L.relaxed(L.RULES_BY_NAME[r])[1] for r in case["rules"])
            det = {"constant_zero_constraints_in_rules": nrel}
            if nrel:
                # (1) the rule set with 'any constant' in place of the constant 0 is refuted by refsem,
                # (2) the generated matcher contains no value check for a constant 0 (structural observation),
                # (3) the pipeline with exactly that relaxed rule set has the same outcome,
                # (4) the pipeline WITHOUT the rules that mention a constant 0 extracts a correct program.
                unsound = False
                for rn in case["rules"]:
                    rr, k = L.relaxed(L.RULES_BY_NAME[rn])
                    if k:
                        if rn not in relaxed_unsound:
                            relaxed_unsound[rn] = not L.validate_rule(rr)[0]
                        unsound = unsound or relaxed_unsound[rn]
                det["relaxed_rules_unsound"] = unsound
                det["zero_value_checks_in_matcher"] = st.get("zero_attr_checks")
                if unsound and st.get("zero_attr_checks") == 0 and out[0] == "ok":
                    out2, _m2, _st2, _p2 = run_case(L, dict(case, relaxed=True), workdir, interner)
                    det["same_outcome_with_relaxed_rules"] = out2 == out
                    if out2 == out:
                        rest = [rn for rn in case["rules"] if L.relaxed(L.RULES_BY_NAME[rn])[1] == 0]
                        out3, m3, _st3, _p3 = run_case(L, dict(case, rules=rest), workdir, interner)
                        ok3 = out3[0] == "ok"
                        if ok3:
                            for f3 in L.funcs(m3):
                                if L.use_before_def(f3):
                                    L.toposort_block(f3)
                            ok3 = compare_results(L, m0, m3, case) is None
                        det["correct_without_the_zero_constant_rules"] = ok3
                        if ok3:
                            key_override = FALSY_KEY
            for key, summ, extra in problems:
                wit = {"function": case["func"], "rules": case["rules"], "patterns": ptext, "max_iterations": case["max_iterations"],
                       "cost_mode": case["cost_mode"], "classifier": det, "replay_job": {"kind": "replay", "case": case}}
                wit.update(extra)
                # only wrong-result symptoms can be explained by the known unsound-merge model
                ko = key_override if key.startswith(OVERRIDABLE) else None
                T.viol(ko or key, (f"[{key}] " if ko else "") + summ, wit)
    finally:
        shutil.rmtree(workdir, ignore_errors=True)
    return T.res


_reach = {"installed": False, "T": None, "in_repair": 0}


def _install_reach_counters(T):
    """Reach counters at the anchored e-class merging code (wrappers around methods, looked up at call time)."""
    _reach["T"] = T
    if _reach["installed"]:
        return
    from xdsl.interpreters.eqsat_pdl_interp import EqsatPDLInterpFunctions as E
    orig_union, orig_repair = E.eclass_union, E.repair

    def eclass_union(self, interpreter, a, b):
        r = orig_union(self, interpreter, a, b)
        if r:
            _reach["T"].c("eclass_unions")
            if _reach["in_repair"]:
                _reach["T"].c("eclass_unions_by_congruence_repair")
        return r

    def repair(self, interpreter, eclass):
        _reach["in_repair"] += 1
        try:
            return orig_repair(self, interpreter, eclass)
        finally:
            _reach["in_repair"] -= 1
    E.eclass_union = eclass_union
    E.repair = repair
    _reach["installed"] = True


def compare_results(L, m0, m, case, T=None):
    """refsem results of the source and of the (executable) extracted module on the case's input vectors.
    Returns None or (generic key, args, wanted results, obtained)."""
    from xv import genprog, refsem
    irng = random.Random(case["input_seed"])
    bad = None
    sigs = case.get("funcs") or [["main", case["argtypes"]]]
    for fname, args in [(fn, a) for fn, at in sigs for a in genprog.gen_inputs(irng, at, NINPUTS if len(sigs) == 1 else 5)]:
        try:
            want = refsem.run(m0, fname, args)
        except refsem.Undefined:
            if T:
                T.c("inputs_excluded_source_undefined")
            continue
        if T:
            T.c("comparisons")
        try:
            got = refsem.run(m, fname, args)
        except refsem.Undefined as e:
            bad = bad or ("extracted-program-introduces-undefined-behaviour", [fname] + list(args), want[0], "Undefined: " + str(e)[:80])
            continue
        if got != want:
            bad = bad or ("extracted-program-result-differs", [fname] + list(args), want[0], got[0])
        elif T:
            T.c("comparisons_equal")
    return bad


def _multiset_minus(a, b):
    from collections import Counter
    return list((Counter(a) - Counter(b)).elements())


def finish(agg, tier):
    c = agg.counters
    inc = []
    need = {"quick": (800, 4000, 300, 100), "thorough": (25000, 120000, 9000, 3000)}[tier]
    if c.get("functions", 0) < need[0]:
        inc.append(f"only {c.get('functions', 0)} functions explored (< {need[0]})")
    if c.get("comparisons", 0) < need[1]:
        inc.append(f"only {c.get('comparisons', 0)} result comparisons (< {need[1]})")
    if c.get("nontrivial_cases", 0) < need[2]:
        inc.append(f"only {c.get('nontrivial_cases', 0)} non-trivial cases (< {need[2]})")
    if c.get("no_rule_roundtrips", 0) < need[3]:
        inc.append(f"only {c.get('no_rule_roundtrips', 0)} no-rule round trips (< {need[3]})")
    if c.get("functions", 0) and c.get("pipelines_completed", 0) < 0.6 * c["functions"]:
        inc.append(f"only {c.get('pipelines_completed', 0)}/{c['functions']} pipelines completed")
    if c.get("rules_rejected_unsound", 0) == 0 or c.get("rules_validated_sound", 0) == 0:
        inc.append("rule validation did not separate sound from unsound candidates")
    if c.get("min_cost_designations_checked", 0) == 0 or c.get("designated_extractions_compared", 0) == 0:
        inc.append("e-graph reference (min-cost designation / designated extraction) never evaluated")
    if c.get("eclass_unions", 0) == 0 or c.get("eclass_unions_by_congruence_repair", 0) < (15 if tier == "quick" else 500):
        inc.append(f"e-class merging hardly reached: {c.get('eclass_unions', 0)} unions, "
                   f"{c.get('eclass_unions_by_congruence_repair', 0)} by congruence repair")
    if c.get("multi_function_modules", 0) < (200 if tier == "quick" else 5000):
        inc.append(f"only {c.get('multi_function_modules', 0)} modules with several functions")
    if c.get("multi_node_classes", 0) == 0 or c.get("extracted_program_differs_structurally", 0) == 0:
        inc.append("saturation never merged e-classes / extraction never changed a program")
    return {"inconclusive": inc, "coverage": {}}
