"""C18 - Pass pipeline specifications round-trip through text; arbitrary pipeline strings fail only
with the documented errors.

Reference-model differential monitor.  Four workloads, all on the REAL xdsl.utils.arg_spec / xdsl.passes:

* rt      every registered pass class, every registered target class and synthetic ArgSpecConvertible
          classes covering the documented option types (float, tuple[int|float, ...], unions, literals,
          optionals) x generated option assignments; each instance is printed (real printer, defaults
          elided / included; independent reference printer with escaped strings and `-` keys) and read
          back with the real parser + from_spec; field-wise typed comparison (floats by bit pattern).
* argspec random ArgSpec objects (no class): real print -> real parse, real print -> REFERENCE parse,
          reference print -> real parse.
* pipe    pipelines of 1-4 generated passes through PassPipeline.parse_spec.
* fuzz    mutated valid specs / token soup / grammar-generated / pathological strings: the real
          parser must answer exactly like the independent reference parser (xv/c18_ref.py), may only
          raise ArgSpecParseError or ValueError, and must stay inside a CPU budget.

sys.monitoring PY_START counters on the anchored functions show reach."""
import dataclasses
import json
import mmap
import os
import random
import resource
import signal
import sys
import time
import types
import typing
from dataclasses import dataclass
from typing import Literal, Union, get_args, get_origin

from xv import c18_ref as R
from xv.harness import shash

ID = "C18"
LEVEL = "exploration"
RULE = ("rt/pipe: one case = (option-carrying class, generated assignment of values of the declared field types, "
        "print variant); non-trivial if >=1 field differs from its default; distinct by (class, per-field value class: "
        "sign/magnitude bucket, float form, character classes of strings, tuple shape). argspec: distinct by (value "
        "classes per key). fuzz: one case = one input string; non-trivial if the reference lexer yields >=3 tokens; "
        "distinct by (token-kind sequence, accepted/rejected)")
LEVEL_TEXT = ("Every generated option assignment of every registered pass/target class (plus synthetic classes for the "
              "documented option types no registered pass uses) is printed and parsed back by the real code and compared "
              "field-wise; every fuzz string is parsed by the real parser and by an independent reference parser and the "
              "answers, exception classes and CPU time are compared; held = no disagreement on the cases explored.")
LEVEL_NOTE = ("trusts the hand-written reference lexer/parser/printer in xv/c18_ref.py (written from the grammar documented in "
              "arg_spec.py), the typed canonical form of option values, dataclasses/typing introspection and CPython")
TECHNIQUE = ("reference-model differential monitor (round trip real print -> real parse, reference print -> real parse, "
             "real print -> reference parse, real parse vs reference parse on fuzz) with sys.monitoring reach counters "
             "and a CPU-time budget per parse")
ENGINES = ["harness", "models"]
ASSUMPTIONS = ["option string values are sequences of Unicode scalar values (no lone surrogates)",
               "integers have fewer than 4300 decimal digits (CPython int<->str limit)",
               "NaN payloads are not distinguished (the text form has a single NaN spelling)",
               "a field elided from the printed spec because it compares == to its default may come back as the default",
               "the reference parser in xv/c18_ref.py reads the documented grammar correctly"]
JOB_TIMEOUT = {"quick": 600, "thorough": 3600}

SIZES = {
    "quick": {"rt_shards": 8, "rt_assign": 60, "as_shards": 2, "as_n": 2500, "pipe_shards": 2, "pipe_n": 800,
              "fuzz_shards": 8, "fuzz_n": 4000},
    "thorough": {"rt_shards": 16, "rt_assign": 2000, "as_shards": 8, "as_n": 60000, "pipe_shards": 16, "pipe_n": 8000,
                 "fuzz_shards": 32, "fuzz_n": 40000},
}
CPU_BUDGET = (2.0, 0.002)  # seconds: a + b*len(input); measured normal cost is <= ~6 us per input character (linear), up to ~20x more CPU time was seen on a heavily oversubscribed machine

KNOWN_STR_SPECIAL = set('"\\\n\f\v\r')


# ----------------------------------------------------------------------------- plan
def plan(tier, seed):
    z = dict(SIZES[tier])
    scale = float(os.environ.get("XV_C18_SCALE", "1"))  # self-test runs only (smaller workload; finish() then reports
    if scale != 1:                                        # "inconclusive" unless a violation is found first)
        for k in ("rt_assign", "as_n", "pipe_n", "fuzz_n"):
            z[k] = max(1, int(z[k] * scale))
    jobs = []
    for i in range(z["rt_shards"]):
        jobs.append({"kind": "rt", "shard": i, "nshards": z["rt_shards"], "n": z["rt_assign"], "seed": seed * 100003 + i})
    for i in range(z["as_shards"]):
        jobs.append({"kind": "argspec", "n": z["as_n"], "seed": seed * 100003 + 1000 + i})
    for i in range(z["pipe_shards"]):
        jobs.append({"kind": "pipe", "n": z["pipe_n"], "seed": seed * 100003 + 2000 + i})
    for i in range(z["fuzz_shards"]):
        jobs.append({"kind": "fuzz", "n": z["fuzz_n"], "seed": seed * 100003 + 3000 + i})
    return jobs


# ----------------------------------------------------------------------------- environment (real code + reach)
class Env:
    pass


def _env():
    import warnings
    warnings.simplefilter("ignore")
    from xdsl import passes as passes_mod
    from xdsl.utils import arg_spec as A
    from xdsl.utils.exceptions import ArgSpecParseError

    E = Env()
    E.A = A
    E.ArgSpec = A.ArgSpec
    E.ParseErr = ArgSpecParseError
    E.PassPipeline = passes_mod.PassPipeline
    E.ModulePass = passes_mod.ModulePass
    E.reach = {}
    mon = sys.monitoring
    tool = 4
    mon.use_tool_id(tool, "xv-c18")
    codes = {}

    E.anchor_notes = {}

    def code_of(fn):
        """Code object behind staticmethod / classmethod / bound method / functools wrappers (lru_cache, wraps,
        partial).  -> (code | None, went through a wrapper that has no code object of its own?)"""
        wrapped = False
        for _ in range(12):
            code = getattr(fn, "__code__", None)
            if isinstance(code, types.CodeType):
                return code, wrapped
            nxt = getattr(fn, "__func__", None)
            if nxt is None:
                nxt = getattr(fn, "__wrapped__", None) or getattr(fn, "func", None)
                wrapped = wrapped or nxt is not None
            if nxt is None:
                return None, wrapped
            fn = nxt
        return None, wrapped

    def add(label, owner, path):
        E.reach[label] = 0
        fn = owner
        try:
            for part in path.split("."):
                fn = getattr(fn, part)
        except AttributeError:
            E.anchor_notes[label] = "missing"
            return
        code, wrapped = code_of(fn)
        if code is None:
            E.anchor_notes[label] = "not-instrumentable"  # reach of this anchor cannot be measured; evidence says so
            return
        if wrapped:
            E.anchor_notes[label] = "behind-wrapper"  # e.g. a cache: the counter sees only calls that reach the body
        codes[code] = label
        mon.set_local_events(tool, code, mon.events.PY_START)

    def on_start(code, _off):
        E.reach[codes[code]] += 1

    mon.register_callback(tool, mon.events.PY_START, on_start)
    add("ArgSpec.__str__", A, "ArgSpec.__str__")
    add("ArgSpec._spec_parameter_type_str", A, "ArgSpec._spec_parameter_type_str")
    add("ArgSpec.normalize_parameter_names", A, "ArgSpec.normalize_parameter_names")
    add("ArgSpecConvertible.from_spec", A, "ArgSpecConvertible.from_spec")
    add("ArgSpecConvertible.spec", A, "ArgSpecConvertible.spec")
    add("_convert_arg_to_type", A, "_convert_arg_to_type")
    add("PipelineLexer._generator", A, "PipelineLexer._generator")
    add("PipelineLexer.lex", A, "PipelineLexer.lex")
    add("parse_pipeline", A, "parse_pipeline")
    add("_parse_spec", A, "_parse_spec")
    add("_parse_pass_parameters", A, "_parse_pass_parameters")
    add("_parse_parameter_value_element", A, "_parse_parameter_value_element")
    add("PassPipeline.parse_spec", passes_mod, "PassPipeline.parse_spec")
    return E


def _synthetic(E):
    """ArgSpecConvertible classes covering the option types the arg_spec docstring documents but which no
    registered pass uses (float and its tuples/unions, optional bool, literal ints, tuple | None of str)."""
    Conv = E.A.ArgSpecConvertible

    @dataclass(frozen=True)
    class SynthFloat(Conv):
        name = "xv-synth-float"
        req: float
        opt: float | None = None
        dflt: float = 1.25
        many: tuple[float, ...] = ()
        mixed: tuple[int | float, ...] = (1, 2.5)
        either: tuple[int, ...] | tuple[float, ...] = (3,)
        num: int | float = 7

    @dataclass(frozen=True)
    class SynthOpt(E.ModulePass):
        name = "xv-synth-opt"
        req_s: str
        req_i: int
        req_t: tuple[str, ...]
        flag: bool | None = None
        strs: tuple[str, ...] | None = None
        bools: tuple[bool, ...] = (True,)
        mode: Literal["a", "b-c", "true", "1"] = "a"
        level: Literal[0, 1, 2] | None = None
        my_long_option_name: int = 0
        s_dflt: str = "d\"q"

        def apply(self, ctx, op):  # pragma: no cover
            return None

    @dataclass(frozen=True)
    class SynthTarget(Conv):
        name = "xv-synth-target"
        out_dir: str = "."
        width: int | None = None
        ratio: float = 0.5
        tags: Union[Literal["all", "none"], tuple[str, ...]] = "all"

    return {c.name: c for c in (SynthFloat, SynthOpt, SynthTarget)}


def _factories(E):
    """label -> zero-argument factory of every option-carrying class known to the repo (passes, targets) and the
    synthetic ones; nothing is imported until a factory is called."""
    from xdsl.targets import get_all_targets
    from xdsl.transforms import get_all_passes
    out = {}
    for n, f in get_all_passes().items():
        out["pass:" + n] = f
    for n, f in get_all_targets().items():
        out["target:" + n] = f
    for n, c in _synthetic(E).items():
        out["synth:" + n] = (lambda c=c: c)
    return out


def _materialize(facts, labels, O=None):
    out = {}
    for label in labels:
        try:
            out[label] = facts[label]()
        except ImportError:  # optional backend dependency missing
            if O is not None:
                O.setadd("classes_not_importable", label)
    return out


# ----------------------------------------------------------------------------- helpers
def _exc_key(e: BaseException) -> str:
    tb = e.__traceback__
    qual = "?"
    while tb is not None:
        qual = getattr(tb.tb_frame.f_code, "co_qualname", tb.tb_frame.f_code.co_name)
        tb = tb.tb_next
    return f"{type(e).__name__}:{qual}"


def _reraise_fatal(e: BaseException):
    if isinstance(e, (KeyboardInterrupt, SystemExit, GeneratorExit)):
        raise e


def enc(v):
    """JSON-able encoding of an option value (tuples and floats tagged)."""
    if isinstance(v, tuple):
        return {"t": [enc(x) for x in v]}
    if isinstance(v, float):
        return {"f": repr(v)}
    return v


def dec(v):
    if isinstance(v, dict) and "t" in v:
        return tuple(dec(x) for x in v["t"])
    if isinstance(v, dict) and "f" in v:
        return float(v["f"])
    return v


def _fields(cls):
    return [f for f in dataclasses.fields(cls) if f.init and f.name != "name"]


def _default(f):
    if f.default is not dataclasses.MISSING:
        return f.default
    if f.default_factory is not dataclasses.MISSING:
        return f.default_factory()
    return None


def _typeclass(v) -> str:
    ks = sorted({type(x).__name__ for x in R.leaves(v)} if isinstance(v, tuple) else {type(v).__name__})
    return ("tuple-of-" if isinstance(v, tuple) else "") + ("+".join(ks) if ks else "empty")


class Out:
    """Result accumulator of one shard."""

    def __init__(self):
        self.evaluations = 0
        self.nontrivial = set()
        self.samples = []
        self.C = {}
        self.S = {}
        self.violations = []
        self.vkeys = {}

    def count(self, k, n=1):
        self.C[k] = self.C.get(k, 0) + n

    def setadd(self, k, v):
        self.S.setdefault(k, set()).add(v)

    def viol(self, key, summary, witness):
        self.count("violating_cases")
        self.count("mechanism:" + key)
        n = self.vkeys.get(key, 0)
        self.vkeys[key] = n + 1
        if n < 3:  # a few witnesses per mechanism per shard
            self.violations.append({"key": key, "summary": summary[:400], "witness": witness})

    def result(self, E):
        for k, v in E.reach.items():
            self.C["anchor:" + k] = v
        for k, note in E.anchor_notes.items():
            self.setadd("anchors_" + note, k)
        return {"evaluations": self.evaluations, "nontrivial": sorted(self.nontrivial), "samples": self.samples[:3],
                "counters": self.C, "sets": {k: sorted(v) for k, v in self.S.items()}, "violations": self.violations}


# ----------------------------------------------------------------------------- instance round trip
VARIANTS = ("real", "real-all", "ref", "ref-all")


def _print_instance(E, p, variant, alt=False):
    inc = variant.endswith("-all")
    spec = p.spec(include_default=inc)
    if variant.startswith("real"):
        if alt and not inc:
            txt = str(p)
        elif alt and hasattr(p, "pipeline_pass_spec"):
            txt = str(p.pipeline_pass_spec(include_default=inc))
        else:
            txt = str(spec)
    else:
        txt = R.print_spec(spec.name, spec.parameters, dash_keys=True)
    return spec, txt


def _read_instance(E, cls, txt, alt=False):
    """-> ('ok', instance) | (kind, exception)"""
    try:
        if alt:
            spec = E.A.parse_spec(txt)
        else:
            specs = list(E.A.parse_pipeline(txt))
            if len(specs) != 1:
                return "count", ValueError(f"{len(specs)} specs parsed from one printed spec")
            spec = specs[0]
        q = cls.from_pass_spec(spec) if (alt and hasattr(cls, "from_pass_spec")) else cls.from_spec(spec)
        return "ok", q
    except E.ParseErr as e:
        return "parse-error", e
    except ValueError as e:
        return "option-error", e
    except BaseException as e:  # noqa: BLE001
        _reraise_fatal(e)
        return "crash:" + _exc_key(e), e


def rt_once(E, cls, p, variant, alt=False):
    """One print -> parse -> from_spec round trip.  -> (kind, txt, per-field differences, q, exception)"""
    spec, txt = _print_instance(E, p, variant, alt)
    kind, q = _read_instance(E, cls, txt, alt)
    if kind != "ok":
        return kind, txt, [], None, q
    if type(q) is not cls:
        return "differs", txt, [("<class>", cls.__name__, type(q).__name__)], q, None
    diffs = []
    for f in _fields(cls):
        pv, qv = getattr(p, f.name), getattr(q, f.name)
        if f.name in spec.parameters:
            if R.canon(pv) != R.canon(qv):
                diffs.append((f.name, pv, qv))
        else:
            d = _default(f)
            if R.canon(qv) != R.canon(d) or not (pv == d):
                diffs.append((f.name, pv, qv))
    return ("differs" if diffs else "ok"), txt, diffs, q, None


def _equal_other_types(x):
    """Values that compare == to x (and hash alike) but differ in type or float sign."""
    out = []
    for conv in (bool, int, float):
        try:
            y = conv(x)
        except (OverflowError, ValueError):
            continue
        if y == x and R.canon(y) != R.canon(x):
            out.append(y)
    if isinstance(x, float) and x == 0:
        out.append(-x)
    if x == 0 and not isinstance(x, float):
        out.append(-0.0)
    return out


def _conflated(E, vt):
    """Elements of vt whose real text is the reference text of an ==-equal value of another type, provided every
    other element prints as the reference printer prints it; [] if the text is not explained that way."""
    out = []
    for x in vt:
        real = E.ArgSpec._spec_parameter_type_str(x)
        if real == R.print_value(x):
            continue
        if isinstance(x, (bool, int, float)) and x == x and any(real == R.print_value(a) for a in _equal_other_types(x)):
            out.append(x)
        else:
            return []
    return out


def classify_value(E, t, v, variant, kind, qv, err, have_q):
    """Mechanism keys for ONE option value whose round trip failed in isolation.  Known keys are assigned only
    when the observed behaviour matches the model of the known wrong behaviour; otherwise a generic key."""
    vt = v if isinstance(v, tuple) else (() if v is None else (v,))
    lv = list(R.leaves(vt))
    strs = [x for x in lv if isinstance(x, str)]
    flts = [x for x in lv if isinstance(x, float)]
    keys = []
    if variant.startswith("real") and vt:
        real_txt = E.ArgSpec._spec_parameter_list_type_str("k", vt)
        ref_txt = R.print_spec("n", {"k": vt})[2:-1]
        if real_txt != ref_txt:
            un = R.print_spec("n", {"k": vt}, escape=False)[2:-1]
            np_ = R.print_spec("n", {"k": vt}, point=False)[2:-1]
            both = R.print_spec("n", {"k": vt}, escape=False, point=False)[2:-1]
            if real_txt == un and any(KNOWN_STR_SPECIAL & set(s) for s in strs):
                keys.append("rt:str-printed-unescaped")
            elif real_txt == np_ and flts:
                keys.append("rt:float-exponent-printed-without-point")
            elif real_txt == both:
                keys += ["rt:str-printed-unescaped", "rt:float-exponent-printed-without-point"]
            elif _conflated(E, vt):
                # the text of a value that compares == but has another type (True / 1 / 1.0, 0.0 / -0.0): value-keyed state
                keys.append("rt:print-conflates-equal-values:" + "+".join(sorted({type(x).__name__ for x in _conflated(E, vt)})))
            else:
                keys.append("rt:print-unexpected:" + _typeclass(v))
            return keys
    # the text is what the reference printer would write: the reader (or the format) is responsible
    if any(set(s) & set("\f\v\r") for s in strs) and (
            kind.startswith("crash:ParseError:") or (kind == "option-error" and isinstance(err, UnicodeDecodeError))):
        try:
            for s in strs:
                R.decode_string_known_wrong(R.esc_string(s))
        except R.WrongModel:
            return ["parse:strlit-escape-fvr-undecodable"]
    if any(x != x or x in (float("inf"), float("-inf")) for x in flts) and kind in ("option-error", "parse-error", "differs"):
        return ["rt:float-nonfinite-unrepresentable"]
    if t is not None:
        o = get_origin(t)
        is_union = o in (Union, types.UnionType)
        has_none = is_union and type(None) in get_args(t)
        if v == () and isinstance(v, tuple) and is_union:
            if has_none and kind == "differs" and have_q and qv is None:
                return ["rt:empty-tuple-optional-reads-none"]
            if not has_none and kind == "option-error" and "Argument must contain a value" in str(err):
                return ["rt:empty-tuple-in-union-rejected"]
        if isinstance(v, tuple) and len(v) == 1 and R.admits(v[0], t) and kind == "differs" and have_q \
                and R.canon(qv) == R.canon(v[0]):
            return ["rt:singleton-tuple-reads-scalar"]
    return [f"rt:{kind.split(':')[0]}:{_typeclass(v)}" + (":" + kind.split(":", 1)[1] if kind.startswith("crash:") else "")]


def _make(cls, kw):
    try:
        return cls(**kw), None
    except Exception as e:  # noqa: BLE001  constructor validation (__post_init__) is outside the property
        return None, e


def diagnose(E, cls, hints, kw, variant, alt, rng, O):
    """Attribute a failed whole-assignment round trip to single fields (each tried on a benign baseline)."""
    fields = _fields(cls)
    base = None
    for _ in range(40):
        kw0 = {f.name: R.gen_value(hints[f.name], rng, hostile=False) for f in fields}
        p0, _e = _make(cls, kw0)
        if p0 is None:
            continue
        if rt_once(E, cls, p0, variant, alt)[0] == "ok":
            base = kw0
            break
    if base is None:
        return [("rt:no-benign-assignment-round-trips", f"{cls.name}: 40 benign assignments all failed ({variant})")]
    found = []
    for f in fields:
        if R.canon(kw[f.name]) == R.canon(base[f.name]):
            continue
        kw1 = dict(base)
        kw1[f.name] = kw[f.name]
        p1, _e = _make(cls, kw1)
        if p1 is None:
            O.count("diag_ctor_rejected")
            continue
        kind, txt, diffs, q, err = rt_once(E, cls, p1, variant, alt)
        if kind == "ok":
            continue
        qv = getattr(q, f.name) if q is not None else None
        for k in classify_value(E, hints[f.name], kw[f.name], variant, kind, qv, err, q is not None):
            found.append((k, f"{cls.name}.{f.name}={kw[f.name]!r:.80} ({variant}): {kind}; text {txt!r:.160}"
                          + (f"; read back {qv!r:.60}" if q is not None else f"; {type(err).__name__}")))
    if not found:
        found.append(("rt:multi-field-interaction", f"{cls.name}: no single field reproduces the failure ({variant})"))
    return found


def check_instance(E, O, label, cls, hints, kw, rng, variants=VARIANTS):
    """All print variants of one assignment.  Returns True if every variant round-tripped."""
    p, e = _make(cls, kw)
    if p is None:
        O.count("ctor_rejected")
        O.setadd("ctor_rejected_classes", label)
        return None
    fields = _fields(cls)
    kw = {f.name: getattr(p, f.name) for f in fields}  # complete a partial assignment with the defaults
    nondefault = [f.name for f in fields if R.canon(getattr(p, f.name)) != R.canon(_default(f))]
    sig = (label, tuple((f.name, R.vclass(getattr(p, f.name))) for f in fields))
    all_ok = True
    for variant in variants:
        alt = rng.random() < 0.4
        O.evaluations += 1
        kind, txt, diffs, q, err = rt_once(E, cls, p, variant, alt)
        O.count("rt_" + variant)
        if nondefault:
            O.nontrivial.add(shash((sig, variant)))
        if kind == "ok":
            O.count("rt_ok")
            if len(O.samples) < 2 and nondefault and variant == "real":
                O.samples.append({"class": label, "text": txt, "roundtrip": "ok"})
            continue
        all_ok = False
        O.count("rt_failed:" + kind.split(":")[0])
        for key, summ in diagnose(E, cls, hints, kw, variant, alt, rng, O):
            O.viol(key, summ, {"class": label, "kw": {k: enc(v) for k, v in kw.items()}, "variant": variant, "text": txt,
                               "outcome": kind,
                               "replay_job": {"kind": "rt1", "class": label, "kw": {k: enc(v) for k, v in kw.items()},
                                              "variant": variant, "alt": alt}})
    for f in fields:
        O.setadd("field_types", str(hints[f.name]).replace("typing.", ""))
    return all_ok


def gen_kw(cls, hints, rng, hostile):
    kw = {}
    for f in _fields(cls):
        h = hostile and rng.random() < 0.8
        if not hostile and rng.random() < 0.3 and (f.default is not dataclasses.MISSING):
            kw[f.name] = f.default
        else:
            kw[f.name] = R.gen_value(hints[f.name], rng, hostile=h)
    return kw


def conflation_probes(E, O, facts, rng, flip):
    """Values that are == with equal hashes but of different types (True / 1 / 1.0, False / 0 / 0.0 / -0.0) are printed
    one after the other in ONE process, FIRST thing in the shard (before anything else was printed), in one order for
    the 1-family and the opposite order for the 0-family; odd shards use the mirrored orders.  Registered passes with
    bool / int options are interleaved with the synthetic float-option classes, scalars with tuple elements and with
    whole instances that compare == (num=1 vs num=1.0).  Any state keyed by value (memoised formatting, interned
    specs, instance-keyed caches) that conflates them fails the ordinary round-trip oracle."""
    reg_bool = reg_int = None
    for label in sorted(k for k in facts if k.startswith("pass:")):
        try:
            cls = facts[label]()
        except ImportError:
            continue
        hints = typing.get_type_hints(cls)
        for f in _fields(cls):
            if hints[f.name] is bool and reg_bool is None and len(_fields(cls)) <= 4:
                reg_bool = (label, cls, hints, f.name)
            if hints[f.name] is int and reg_int is None and len(_fields(cls)) <= 4:
                reg_int = (label, cls, hints, f.name)
        if reg_bool and reg_int:
            break
    if not (reg_bool and reg_int):
        O.count("conflation_no_registered_bool_or_int_pass")
    SF = facts["synth:xv-synth-float"]()
    SO = facts["synth:xv-synth-opt"]()
    hSF, hSO = typing.get_type_hints(SF), typing.get_type_hints(SO)

    def reg(which, value):
        if which is None:
            return None
        label, cls, hints, fname = which
        kw = {f.name: (value if f.name == fname else R.gen_value(hints[f.name], rng, hostile=False)) for f in _fields(cls)}
        for f in _fields(cls):  # keep the other fields away from the families under test
            if f.name != fname and isinstance(kw[f.name], (bool, int, float)) and kw[f.name] in (0, 1):
                kw[f.name] = _default(f) if f.default is not dataclasses.MISSING else kw[f.name]
        return label, cls, hints, kw

    def sf(**kw):
        base = {"req": 2.5}
        base.update(kw)
        return "synth:xv-synth-float", SF, hSF, base

    def so(**kw):
        base = {"req_s": "s", "req_i": 5, "req_t": ("t", "u")}
        base.update(kw)
        return "synth:xv-synth-opt", SO, hSO, base

    one = [("bool", reg(reg_bool, True)), ("float", sf(req=1.0)), ("int", reg(reg_int, 1)), ("bool", so(flag=True)),
           ("float", sf(many=(1.0, 2.0))), ("int", so(req_i=1)), ("float", sf(num=1.0)), ("int", sf(num=1)),
           ("bool", so(bools=(True, True))), ("int", sf(mixed=(1, 1.0))), ("float", sf(dflt=1.0))]
    zero = [("float", sf(req=0.0)), ("negzero", sf(req=-0.0)), ("int", reg(reg_int, 0)), ("bool", reg(reg_bool, False)),
            ("float", sf(many=(0.0, -0.0))), ("bool", so(flag=False)), ("int", so(req_i=0)), ("int", sf(num=0)),
            ("float", sf(num=0.0)), ("negzero", sf(dflt=-0.0)), ("int", sf(mixed=(0, -0.0, 0.0))), ("bool", so(bools=(False,)))]
    if flip:
        one.reverse()
        zero.reverse()
    for fam, seq in (("1", one), ("0", zero)):
        order = [t for t, c in seq if c is not None]
        O.setadd("conflation_first_printed", f"{fam}:{order[0]}")
        for _t, case in seq:
            if case is None:
                continue
            label, cls, hints, kw = case
            O.count("conflation_probes")
            check_instance(E, O, label, cls, hints, kw, rng)
    # the same at ArgSpec level (no class): scalars and mixed tuples
    fams = [[True, 1.0, 1], [0.0, -0.0, 0, False]]
    for fam in fams:
        seq = list(reversed(fam)) if flip else fam
        for params in [{"k": (x,)} for x in seq] + [{"k": tuple(seq)}, {"a": (seq[-1],), "b": (seq[0],)}]:
            for mode in ("real->real", "real->ref"):
                O.evaluations += 1
                O.count("conflation_probes")
                kind, txt, err, _got = argspec_rt(E, "n", params, mode)
                if kind == "ok":
                    O.count("argspec_ok")
                    continue
                for key, summ in classify_argspec(E, O, "n", params, mode, kind, txt, err):
                    O.viol(key, "conflation probe: " + summ, {"name": "n", "parameters": {k: enc(v) for k, v in params.items()},
                                                               "mode": mode, "text": txt, "outcome": kind})


def work_rt(E, job, O):
    rng = random.Random(job["seed"])
    facts = _factories(E)
    conflation_probes(E, O, facts, rng, flip=bool(job["shard"] % 2))
    classes = _materialize(facts, sorted(facts)[job["shard"]::job["nshards"]], O)
    mine = sorted(classes)
    for label in mine:
        cls = classes[label]
        hints = typing.get_type_hints(cls)
        fields = _fields(cls)
        n = job["n"] if fields else 1
        any_ok = False
        for i in range(n):
            kw = gen_kw(cls, hints, rng, hostile=rng.random() < 0.7)
            r = check_instance(E, O, label, cls, hints, kw, rng)
            any_ok = any_ok or bool(r)
        O.setadd("classes_exercised", label)
        if any_ok:
            O.setadd("classes_roundtripped", label)
        if fields:
            O.setadd("classes_with_options", label)
    O.C["classes_total"] = len(mine)


def work_rt1(E, job, O):
    cls = _factories(E)[job["class"]]()
    hints = typing.get_type_hints(cls)
    kw = {k: dec(v) for k, v in job["kw"].items()}
    check_instance(E, O, job["class"], cls, hints, kw, random.Random(0), variants=(job["variant"],))


# ----------------------------------------------------------------------------- ArgSpec-level round trip
def gen_ident(rng):
    r = rng.random()
    if r < 0.5:
        return rng.choice(["a", "b", "opt", "my-opt", "my_opt", "x1", "2d-slice", "true", "false", "mlir-opt", "k-", "_",
                           "A-b_C", "3x", "arguments", "no-inline", "x" * 40])
    return "".join(rng.choice("abcXYZ_-019") for _ in range(rng.randint(1, 10)))


def _is_ident(s):
    try:
        t = R.lex(s)
    except R.RefReject:
        return False
    return len(t) == 2 and t[0][0] == "IDENT"


def gen_param(rng):
    r = rng.random()
    if r < 0.3:
        return R.gen_str(rng)
    if r < 0.5:
        return R.gen_int(rng)
    if r < 0.7:
        return R.gen_float(rng)
    if r < 0.8:
        return rng.random() < 0.5
    return R.gen_str(rng, hostile=False)


def argspec_rt(E, name, params, mode):
    """mode: real->real | real->ref | ref->real.  -> (kind, txt, err, parsed canon | None)"""
    want = ((name, R.canon_params(params)),)
    if mode == "ref->real":
        txt = R.print_spec(name, params)
    else:
        txt = str(E.ArgSpec(name, dict(params)))
    if mode == "real->ref":
        try:
            got = R.canon_specs(R.parse(txt))
        except R.RefReject as e:
            return "ref-parse-error", txt, e, None
    else:
        try:
            got = tuple((s.name, R.canon_params(s.parameters)) for s in E.A.parse_pipeline(txt))
        except E.ParseErr as e:
            return "parse-error", txt, e, None
        except ValueError as e:
            return "option-error", txt, e, None
        except BaseException as e:  # noqa: BLE001
            _reraise_fatal(e)
            return "crash:" + _exc_key(e), txt, e, None
    return ("ok" if got == want else "differs"), txt, None, got


def classify_argspec(E, O, name, params, mode, kind, txt, err):
    found = []
    variant = "ref" if mode == "ref->real" else "real"
    for k, vals in params.items():
        if argspec_rt(E, "n", {"k": vals}, mode)[0] == "ok":
            continue
        # isolate the elements of this value; fall back to the whole value if every element passes alone
        singles = [(x,) for x in vals] if len(vals) > 1 else []
        culprits = [v1 for v1 in singles if argspec_rt(E, "n", {"k": v1}, mode)[0] != "ok"] or [vals]
        seen = set()
        for v1 in culprits:
            kind1, txt1, err1, _got = argspec_rt(E, "n", {"k": v1}, mode)
            k1 = "parse-error" if kind1 == "ref-parse-error" else kind1
            for key in classify_value(E, None, v1, variant, k1, None, err1, False):
                if key not in seen:
                    seen.add(key)
                    found.append((key, f"ArgSpec value {v1!r:.80} ({mode}): {kind1}; text {txt1!r:.160}"))
    if not found:
        found.append((f"argspec:{kind.split(':')[0]}:not-attributable-to-one-value",
                      f"ArgSpec {txt!r:.200} ({mode}) {kind}"))
    return found


def work_argspec(E, job, O):
    rng = random.Random(job["seed"])
    for i in range(job["n"]):
        while True:
            name = gen_ident(rng)
            if _is_ident(name):
                break
            O.count("argspec_names_excluded_not_identifier")
        params = {}
        for _ in range(rng.choice([0, 1, 1, 2, 3, 5])):
            k = gen_ident(rng)
            if not _is_ident(k):
                O.count("argspec_names_excluded_not_identifier")
                continue
            params[k] = tuple(gen_param(rng) for _ in range(rng.choice([0, 1, 1, 1, 2, 3, 6])))
        sig = tuple(sorted(R.vclass(v) for v in params.values()))
        for mode in ("real->real", "real->ref", "ref->real"):
            O.evaluations += 1
            O.count("argspec_" + mode)
            if any(params.values()):
                O.nontrivial.add(shash(("argspec", sig, mode)))
            kind, txt, err, got = argspec_rt(E, name, params, mode)
            if kind == "ok":
                O.count("argspec_ok")
                continue
            O.count("argspec_failed:" + kind.split(":")[0])
            for key, summ in classify_argspec(E, O, name, params, mode, kind, txt, err):
                O.viol(key, summ, {"name": name, "parameters": {k: enc(v) for k, v in params.items()}, "mode": mode,
                                   "text": txt, "outcome": kind})
        if i < 1:
            O.samples.append({"argspec_text": R.print_spec(name, params)})


# ----------------------------------------------------------------------------- pipelines
def work_pipe(E, job, O):
    rng = random.Random(job["seed"])
    facts = _factories(E)
    labels = rng.sample(sorted(k for k in facts if k.startswith("pass:")), job.get("classes", 45)) + ["synth:xv-synth-opt"]
    classes = _materialize(facts, labels, O)
    registry = {k[5:]: f for k, f in facts.items() if k.startswith("pass:")}  # the lazy registry, as xdsl-opt passes it
    registry["xv-synth-opt"] = facts["synth:xv-synth-opt"]
    avail = {c.name: registry[c.name] for c in classes.values()}
    for label in classes:
        O.setadd("pipe_classes", label)
    names = sorted(avail)
    with_opts = [n for n in names if _fields(avail[n]())]
    hints_of = {n: typing.get_type_hints(avail[n]()) for n in names}
    for i in range(job["n"]):
        k = rng.choice([1, 2, 2, 3, 4])
        insts, kws = [], []
        hostile = rng.random() < 0.3
        while len(insts) < k:
            n = rng.choice(with_opts) if rng.random() < 0.7 else rng.choice(names)
            cls = avail[n]()
            kw = gen_kw(cls, hints_of[n], rng, hostile=hostile)
            p, _e = _make(cls, kw)
            if p is None:
                O.count("ctor_rejected")
                continue
            insts.append(p)
            kws.append(kw)
        variant = rng.choice(VARIANTS)
        parts = [_print_instance(E, p, variant, rng.random() < 0.4) for p in insts]
        text = ",".join(t for _s, t in parts) + ("," if rng.random() < 0.1 else "")
        O.evaluations += 1
        O.count("pipelines")
        O.count(f"pipelines_len{k}")
        sig = tuple((p.name, tuple(R.vclass(getattr(p, f.name)) for f in _fields(type(p)))) for p in insts)
        if any(s.parameters for s, _t in parts):
            O.nontrivial.add(shash(("pipe", sig, variant)))
        try:
            pl = E.PassPipeline.parse_spec(registry, text)
            kind = "ok"
        except E.ParseErr as e:
            kind, err = "parse-error", e
        except ValueError as e:
            kind, err = "option-error", e
        except BaseException as e:  # noqa: BLE001
            _reraise_fatal(e)
            kind, err = "crash:" + _exc_key(e), e
        if kind == "ok":
            got = pl.passes
            if len(got) != len(insts) or any(type(a) is not type(b) for a, b in zip(got, insts)):
                kind = "differs-shape"
            else:
                for (spec, _t), p, q in zip(parts, insts, got):
                    for f in _fields(type(p)):
                        pv, qv = getattr(p, f.name), getattr(q, f.name)
                        if f.name in spec.parameters:
                            same = R.canon(pv) == R.canon(qv)
                        else:
                            same = R.canon(qv) == R.canon(_default(f)) and pv == _default(f)
                        if not same:
                            kind = "differs"
        if kind == "ok":
            O.count("pipelines_ok")
            if i < 1:
                O.samples.append({"pipeline_text": text, "roundtrip": "ok"})
            continue
        O.count("pipelines_failed:" + kind.split(":")[0])
        # attribute to the single passes (each checked alone with the same variant)
        attributed = False
        for p, kw in zip(insts, kws):
            cls = type(p)
            k1, _txt, _d, _q, _err = rt_once(E, cls, p, variant, False)
            if k1 != "ok":
                attributed = True
                for key, summ in diagnose(E, cls, hints_of[p.name], kw, variant, False, rng, O):
                    O.viol(key, "in pipeline: " + summ, {"pipeline_text": text, "variant": variant, "outcome": kind})
        if not attributed:
            O.viol("pipeline:composition-" + kind.split(":")[0],
                   f"every pass round-trips alone but the pipeline does not: {text!r:.300} -> {kind}",
                   {"pipeline_text": text, "variant": variant, "outcome": kind})


# ----------------------------------------------------------------------------- fuzz
SEEDS = ['a', 'a,b', 'a{b=1}', 'a{b=1 c=2}', 'a{b}', 'a{b c}', 'a{b=1,2,3}', 'a{b="x"}', 'a{b="x\\"y"}', 'a{b="\\\\"}',
         'a{b="\\n"}', 'a{b="\\f"}', 'a{b="\\v\\r"}', 'a{b="\\fa"}', 'a{b=true c=false}', 'a{b=-1}', 'a{b=+1}', 'a{b=1.5}',
         'a{b=1.}', 'a{b=1.5e+5}', 'a{b=-2.5E-3}', 'a{b=1e5}', 'a{b=x-y}', '2d-slice{x=1}', 'a{2d=1}', 'mlir-opt[cse]',
         'mlir-opt[cse,canonicalize{x=1}]', 'a,mlir-opt[x],b{c=1}', 'mlir-opt[a\\"b]', 'mlir-opt["]', 'x[cse]', 'a{}', 'a{b=1 }',
         'a,', ',a', 'a,,b', '', ' ', 'a b', 'a {b=1}', 'a{ b=1}', 'a{b =1}', 'a{b= 1}', 'a{b=1,}', 'a{b=,1}', 'a{b=1}{c=2}',
         'a{b=1},c{d=2}', 'a{b=1} ,c', 'a{b={}}', 'a{b=[x]}', 'a{b=1\tc=2}', 'a{b=1\nc=2}', 'a{b=1 c=2}', 'a{b=1  c=2}',
         'a{b=1 b=2}', 'a{b-c=1 b_c=2}', 'canonicalize,cse,dce', 'a{b="é中\U0001f600"}', 'é', 'a{é=1}', 'a{b=é}', 'a{b=1.5.5}',
         'a{b=--1}', 'a{b=-}', 'a{-=-}', 'a{b=0x10}', 'a{b=1_000}', 'a{b="unterminated}', 'a{b=unterminated"}', 'a{b="x\\q"}',
         'a{b="x\\"}', 'a{b=\'x\'}', 'a{b=1;c=2}', 'a{b:1}', 'a(b=1)', 'a{b=1', 'a}', '{', '}', '=', ',', '"', '[', ']', '\\',
         'a{b=١}', 'a{b=１}', 'a{b=1e}', 'a{b=1.e}', 'a{b=1.e+}', 'a{b=.5}', 'a{b=5.}', 'a{b=-.5}', 'a{b="\t"}', 'a{b="\x00"}']
SOUP = ['{', '}', '=', ',', ' ', '"', '\\', '\\"', '\\\\', '\\n', '\\f', '\\v', '\\r', '\\t', '[', ']', '-', '+', '.', 'e', 'E',
        '0', '1', '9', '12', '1.5', '-3', 'true', 'false', 'mlir-opt', 'a', 'b', 'cse', 'dce', 'x-y', 'x_y', '2d', '\n', '\t',
        '\r', '\f', '\v', '\x00', ' ', ' ', 'é', '中', '\U0001f600', '١', "'", ';', ':', '(', ')', '#', '%', '  ']


def gen_grammar(rng, pass_names):
    """A string built from the documented grammar (random names, registered and unknown)."""
    parts = []
    for _ in range(rng.choice([1, 1, 2, 3, 5])):
        if rng.random() < 0.08:
            inner = "".join(rng.choice(['cse', ',', 'a{b=1}', ' ', '"', '\\n', '\\"', '(', ')', 'é']) for _ in range(rng.randint(0, 5)))
            parts.append("mlir-opt[" + inner + "]")
            continue
        name = rng.choice(pass_names) if rng.random() < 0.5 else gen_ident(rng)
        if rng.random() < 0.3:
            parts.append(name)
            continue
        opts = []
        for _ in range(rng.choice([0, 1, 1, 2, 3])):
            key = gen_ident(rng)
            nv = rng.choice([0, 1, 1, 1, 2, 4])
            vals = []
            for _ in range(nv):
                r = rng.random()
                if r < 0.25:
                    vals.append(R.esc_string(R.gen_str(rng)) if rng.random() < 0.8 else '"' + R.gen_str(rng) + '"')
                elif r < 0.5:
                    vals.append(rng.choice(['1', '-1', '+7', '0', '1.5', '1.', '-0.0', '1.5e+5', '2.E-3', '1e5', '007',
                                            str(R.gen_int(rng)), R.print_value(R.gen_float(rng))]))
                elif r < 0.65:
                    vals.append(rng.choice(['true', 'false']))
                else:
                    vals.append(gen_ident(rng))
            opts.append(key + ("=" + ",".join(vals) if vals else ""))
        sep = " " if rng.random() < 0.9 else rng.choice(["  ", "\t", "\n", " ", " \t "])
        parts.append(name + "{" + sep.join(opts) + (" " if rng.random() < 0.05 else "") + "}")
    return ",".join(parts) + ("," if rng.random() < 0.05 else "")


def mutate(rng, s, pool):
    for _ in range(rng.choice([1, 1, 2, 3])):
        r = rng.random()
        if r < 0.2 and s:
            i = rng.randrange(len(s))
            s = s[:i] + s[i + 1:]
        elif r < 0.5:
            i = rng.randint(0, len(s))
            s = s[:i] + rng.choice(SOUP) + s[i:]
        elif r < 0.6 and s:
            i = rng.randrange(len(s))
            j = min(len(s), i + rng.randint(1, 6))
            s = s[:j] + s[i:j] + s[j:]
        elif r < 0.7 and s:
            s = s[:rng.randrange(len(s))]
        elif r < 0.8 and len(s) > 1:
            i = rng.randrange(len(s) - 1)
            s = s[:i] + s[i + 1] + s[i] + s[i + 2:]
        elif r < 0.9:
            o = rng.choice(pool)
            s = s[:rng.randint(0, len(s))] + o[rng.randint(0, len(o)):]
        elif s:
            i = rng.randrange(len(s))
            s = s[:i] + rng.choice(SOUP) + s[i + 1:]
    return s


def pathological(rng):
    n = rng.choice([200, 2000, 20000])
    return rng.choice([
        lambda: 'a{b="' + '\\' * n,
        lambda: 'a{b="' + '\\\\' * n + 'x',
        lambda: 'a{b="' + 'x' * n,
        lambda: 'a{b="' + '\\"' * n,
        lambda: 'mlir-opt[' + '[' * n,
        lambda: 'mlir-opt[' + '\\n' * n,
        lambda: 'a{b=' + '1' * min(n, 4000) + '}',
        lambda: 'a{b=1.' + '1' * n + 'e' + '9' * 5 + '}',
        lambda: 'a{b=' + '1' * min(n, 4000) + 'e}',
        lambda: 'a' + ' ' * n + 'b',
        lambda: 'a{' + ' '.join(f'k{i}=1' for i in range(n // 10)) + '}',
        lambda: ','.join(['a'] * n),
        lambda: 'a{b=' + ','.join(['1'] * n) + '}',
        lambda: '{' * n,
        lambda: 'a{b=' + '-' * n + '}',
        lambda: '1' * n + 'a',
        lambda: '1' * n + '"',
        lambda: 'a{b="' + 'é' * n + '"}',
    ])()


def fuzz_one(E, O, s, avail, journal=None):
    if journal:
        journal(s)
    O.evaluations += 1
    O.count("fuzz_strings")
    toks, lexed = R.lex_prefix(s)
    if len(toks) >= 4:  # >= 3 tokens + EOF
        O.nontrivial.add(shash(("fuzz", tuple(k for k, _t in toks[:60]), lexed)))
    # reference answer, and the answer under the model of the known wrong string decoding
    try:
        ref = ("ok", R.canon_specs(R.parse(s)))
    except R.RefReject as e:
        ref = ("reject", str(e))
    t0 = time.process_time()
    try:
        specs = list(E.A.parse_pipeline(s))
        real = ("ok", tuple((x.name, R.canon_params(x.parameters)) for x in specs))
        err = None
    except E.ParseErr as e:
        real, err = ("reject", "ArgSpecParseError"), e
    except ValueError as e:
        real, err = ("reject", "ValueError"), e
    except BaseException as e:  # noqa: BLE001
        _reraise_fatal(e)
        real, err = ("crash", _exc_key(e)), e
    dt = time.process_time() - t0
    O.count("fuzz_real_" + real[0])
    O.count("fuzz_ref_" + ref[0])
    O.C["fuzz_max_cpu_us"] = max(O.C.get("fuzz_max_cpu_us", 0), int(dt * 1e6))
    wit = {"input": s, "replay_job": {"kind": "fuzz1", "s": s}}
    if dt > CPU_BUDGET[0] + CPU_BUDGET[1] * len(s):
        O.viol("budget:parse_pipeline-cpu", f"parse_pipeline used {dt:.2f}s CPU on {len(s)} characters: {s[:60]!r}", wit)
    if real != ref and not (real[0] == ref[0] == "reject"):
        # does the model of the known wrong behaviour explain the real answer?  (the real parser decodes each string
        # literal as it goes, so it may stop at such a literal before reaching a later syntax error)
        wrong = None
        for k, t in toks:
            if k == "STRING":
                try:
                    R.decode_string_known_wrong(t)
                except R.WrongModel as e:
                    wrong = e.args[0]
        if wrong == "strlit-escape-fvr" and (
                (real[0] == "crash" and real[1] == "ParseError:StringLiteral.bytes_contents")
                or (ref[0] == "ok" and isinstance(err, UnicodeDecodeError))):
            O.viol("parse:strlit-escape-fvr-undecodable",
                   f"lexer admits \\f \\v \\r escapes, the decoder answers {real[1]}: {s!r:.120}", wit)
        elif real[0] == "crash":
            O.viol("crash:" + real[1], f"parse_pipeline({s!r:.120}) raised {real[1]}: {str(err)[-120:]!r}", wit)
        else:
            O.viol(f"fuzz:real-{real[0]}-reference-{ref[0]}",
                   f"parse_pipeline({s!r:.120}) -> {str(real)[:140]} but the reference parser -> {str(ref)[:140]}", wit)
        return
    if real[0] != "ok":
        return
    # accepted: PassPipeline.parse_spec may only answer with a pipeline or a documented error
    O.count("fuzz_accepted_nonempty" if specs else "fuzz_accepted_empty")
    try:
        pl = E.PassPipeline.parse_spec(avail, s)
        O.count("fuzz_pipeline_built")
        if len(pl.passes) != len(specs) or any(p.name != sp.name for p, sp in zip(pl.passes, specs)):
            O.viol("fuzz:pipeline-shape", f"PassPipeline.parse_spec({s!r:.120}) built {[p.name for p in pl.passes]}", wit)
    except E.ParseErr:
        O.viol("fuzz:parse_spec-rejects-what-parse_pipeline-accepts", f"{s!r:.160}", wit)
    except ValueError:
        O.count("fuzz_pipeline_option_error")
    except BaseException as e:  # noqa: BLE001
        _reraise_fatal(e)
        O.viol("crash:" + _exc_key(e), f"PassPipeline.parse_spec({s!r:.120}) raised {_exc_key(e)}: {str(e)[-120:]!r}", wit)
    # re-print what was parsed and read it again (ArgSpec-level round trip on fuzz-derived specs)
    if specs and len(s) < 4000:
        O.count("fuzz_reprinted")
        for sp in specs:
            kind, txt, err2, _got = argspec_rt(E, sp.name, sp.parameters, "real->real")
            if kind != "ok":
                for key, summ in classify_argspec(E, O, sp.name, sp.parameters, "real->real", kind, txt, err2):
                    O.viol(key, "re-print of a parsed fuzz spec: " + summ, wit)
            else:
                O.count("fuzz_reprint_ok")


class Journal:
    """In-flight input record that survives a killed worker without a write() per input: a shared file mapping of
    the harness journal file (the harness reads its last 20000 bytes)."""
    SIZE = 20000

    def __init__(self):
        self.mm = None
        self.prev = 0
        path = os.environ.get("XV_JOURNAL")
        if path:
            with open(path, "wb") as f:
                f.write(b" " * self.SIZE)
            self.f = open(path, "r+b")
            self.mm = mmap.mmap(self.f.fileno(), self.SIZE)

    def __call__(self, s: str):
        if self.mm is None:
            return
        b = json.dumps(s).encode("ascii")
        if len(b) > self.SIZE:
            b = json.dumps({"truncated_input_of_length": len(s), "head": s[:3000]}).encode("ascii")
        n = len(b)
        self.mm[0:n] = b
        if self.prev > n:
            self.mm[n:self.prev] = b" " * (self.prev - n)
        self.prev = n


HANG_CPU_S = 300  # CPU seconds the next 50 inputs may use together (normal: < 1 s; worst pathological batch ~20 s)


def _cpu_watchdog(off=False):
    """Hangs are decided on CPU time, never on wall clock: the kernel sends SIGXCPU (default action: kill) when this
    worker's CPU time passes the soft RLIMIT_CPU, which is pushed forward every 50 inputs.  `re` backtracking cannot
    be interrupted from Python, hence the rlimit; on_lost() turns a SIGXCPU death into a violation with the
    journalled input.  A wall-clock timeout of the shard stays "lost" (inconclusive)."""
    _soft, hard = resource.getrlimit(resource.RLIMIT_CPU)
    if off:
        resource.setrlimit(resource.RLIMIT_CPU, (hard, hard))
    else:
        lim = int(time.process_time()) + HANG_CPU_S
        if hard != resource.RLIM_INFINITY:
            lim = min(lim, hard)
        resource.setrlimit(resource.RLIMIT_CPU, (lim, hard))


def _fuzz_pool(E, rng, classes):
    pool = list(SEEDS)
    labels = sorted(classes)
    for _ in range(300):
        label = rng.choice(labels)
        cls = classes[label]
        hints = typing.get_type_hints(cls)
        p, _e = _make(cls, gen_kw(cls, hints, rng, hostile=rng.random() < 0.5))
        if p is None:
            continue
        spec = p.spec(include_default=rng.random() < 0.5)
        pool.append(R.print_spec(spec.name, spec.parameters, dash_keys=rng.random() < 0.5))
        pool.append(str(spec))
    return pool


def work_fuzz(E, job, O):
    journal = Journal()
    rng = random.Random(job["seed"])
    facts = _factories(E)
    labels = rng.sample(sorted(k for k in facts if k.startswith("pass:")), job.get("classes", 30)) + \
        ["target:mlir", "synth:xv-synth-opt", "synth:xv-synth-float"]
    classes = _materialize(facts, labels, O)
    avail = {k[5:]: f for k, f in facts.items() if k.startswith("pass:")}  # lazy registry
    pass_names = sorted(c.name for l, c in classes.items() if l.startswith("pass:"))
    pool = _fuzz_pool(E, rng, classes)
    _cpu_watchdog()
    for s in pool[:len(SEEDS)]:
        fuzz_one(E, O, s, avail, journal)
    n_path = 0
    for i in range(job["n"]):
        r = rng.random()
        if r < 0.45:
            s = mutate(rng, rng.choice(pool), pool)
            O.count("fuzz_gen_mutation")
        elif r < 0.75:
            s = gen_grammar(rng, pass_names)
            if rng.random() < 0.3:
                s = mutate(rng, s, pool)
            O.count("fuzz_gen_grammar")
        elif r < 0.995 or n_path >= 40:
            s = "".join(rng.choice(SOUP) for _ in range(rng.choice([1, 2, 3, 5, 8, 13, 30])))
            O.count("fuzz_gen_soup")
        else:
            s = pathological(rng)
            n_path += 1
            O.count("fuzz_gen_pathological")
        if "\ud800" <= max(s, default="a") and any("\ud800" <= c <= "\udfff" for c in s):
            O.count("fuzz_excluded_lone_surrogate")
            continue
        if i % 50 == 0:
            _cpu_watchdog()
        fuzz_one(E, O, s, avail, journal)
        if i == 0:
            O.samples.append({"fuzz_input": s[:200]})
    journal("")
    _cpu_watchdog(off=True)


# ----------------------------------------------------------------------------- work / finish / on_lost
def work(job):
    E = _env()
    O = Out()
    kind = job["kind"]
    if kind == "rt":
        work_rt(E, job, O)
    elif kind == "rt1":
        work_rt1(E, job, O)
    elif kind == "argspec":
        work_argspec(E, job, O)
    elif kind == "pipe":
        work_pipe(E, job, O)
    elif kind == "fuzz":
        work_fuzz(E, job, O)
    elif kind == "fuzz1":
        _cpu_watchdog()
        fuzz_one(E, O, job["s"], {k[5:]: f for k, f in _factories(E).items() if k.startswith("pass:")}, Journal())
        _cpu_watchdog(off=True)
    else:
        raise ValueError(kind)
    return O.result(E)


def on_lost(info):
    if info.get("status") == "died" and info.get("rc") == -signal.SIGXCPU and info["job"].get("kind") in ("fuzz", "fuzz1"):
        j = (info.get("journal") or "").strip()
        if j:
            try:
                s = json.loads(j)
            except ValueError:
                s = j
            if not s:
                return None
            if isinstance(s, dict):
                return [{"key": "hang:parse_pipeline", "summary": f"over {HANG_CPU_S}s CPU while parsing {s['head'][:80]!r}...",
                         "witness": {"input_head": s["head"], "input_length": s["truncated_input_of_length"],
                                     "job": info["job"]}}]
            return [{"key": "hang:parse_pipeline", "summary": f"over {HANG_CPU_S}s CPU (SIGXCPU) while parsing {s[:80]!r}",
                     "witness": {"input": s, "replay_job": {"kind": "fuzz1", "s": s}}}]
    return None


def finish(agg, tier):
    c = agg.counters
    inc = []
    q = tier == "quick"
    need = {
        "rt_ok": 4000, "argspec_ok": 5000, "pipelines_ok": 600, "fuzz_strings": 20000, "fuzz_real_ok": 5000,
        "fuzz_real_reject": 6000, "fuzz_pipeline_built": 300, "fuzz_reprint_ok": 8000,
        "anchor:ArgSpec.__str__": 15000, "anchor:ArgSpec._spec_parameter_type_str": 30000,
        "anchor:ArgSpecConvertible.from_spec": 6000, "anchor:ArgSpecConvertible.spec": 6000,
        "anchor:ArgSpec.normalize_parameter_names": 6000, "anchor:_convert_arg_to_type": 10000,
        "anchor:PipelineLexer._generator": 30000, "anchor:PipelineLexer.lex": 300000, "anchor:parse_pipeline": 30000,
        "anchor:_parse_spec": 60000, "anchor:_parse_pass_parameters": 20000, "anchor:_parse_parameter_value_element": 60000,
        "anchor:PassPipeline.parse_spec": 4000,
    }
    if not q:
        need = {k: n * 30 for k, n in need.items()}
    unmeasured = set(agg.sets.get("anchors_not-instrumentable", ())) | set(agg.sets.get("anchors_behind-wrapper", ()))
    for k in sorted(agg.sets.get("anchors_missing", ())):
        inc.append(f"anchored symbol {k} not found in the tree")
    for k, n in need.items():
        if k.startswith("anchor:") and k[7:] in unmeasured:
            continue  # no code object of its own / behind a C-level wrapper: reach is reported, not thresholded
        if c.get(k, 0) < n:
            inc.append(f"{k} = {c.get(k, 0)} < {n}")
    firsts = set(agg.sets.get("conflation_first_printed", ()))
    if not {"1:bool", "1:float", "0:bool", "0:float"} <= firsts or c.get("conflation_probes", 0) < 200 \
            or c.get("conflation_no_registered_bool_or_int_pass", 0):
        inc.append(f"equal-value conflation probes: first-printed orders {sorted(firsts)}, probes {c.get('conflation_probes', 0)}")
    total = c.get("classes_total", 0)
    ex = len(agg.sets.get("classes_exercised", ()))
    rt = len(agg.sets.get("classes_roundtripped", ()))
    if total < 140 or ex != total or rt != total:
        inc.append(f"classes: total {total}, exercised {ex}, with >=1 successful round trip {rt} (want all, >= 140)")
    return {"inconclusive": inc,
            "coverage": {"anchors": {k[7:]: v for k, v in sorted(c.items()) if k.startswith("anchor:")},
                         "anchors_not_fully_measured": {n: sorted(agg.sets.get("anchors_" + n, ()))
                                                        for n in ("not-instrumentable", "behind-wrapper", "missing")},
                         "classes_total": total, "classes_with_options": len(agg.sets.get("classes_with_options", ())),
                         "excluded": {"ctor_rejected (constructor validation refused the generated assignment)": c.get("ctor_rejected", 0),
                                      "fuzz_excluded_lone_surrogate": c.get("fuzz_excluded_lone_surrogate", 0),
                                      "argspec_names_excluded_not_identifier": c.get("argspec_names_excluded_not_identifier", 0)}}}
