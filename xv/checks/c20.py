"""C20 - RISC-V parallel-move lowering performs a simultaneous assignment.

Reference-model differential monitor: every generated `riscv.parallel_mov` (all registers allocated) is
lowered by the REAL `riscv-lower-parallel-mov` pass; the emitted mv / fmv.s / fmv.d / xor ... sequence is
executed by an independent register machine (xv/c20_regmachine.py, written from the ISA) from two initial
states with pairwise distinct register contents, in register mode and SSA mode side by side, and the final
state is compared with the simultaneous assignment computed directly from the move list.
"""
from __future__ import annotations

import itertools
import random
import signal

from xv.harness import shash
from xv import c20_regmachine as rm

ID = "C20"
LEVEL = "exploration"
RULE = ("a case = (ordered move list (kind, source register, destination register, width), designated free "
        "registers); exhaustive classes: E = every non-empty ordered destination subset of N registers of one kind "
        "x every source map into those N registers plus one outside register x free-register set {none, int, float, "
        "both} x width mode {all 32, all 64, two alternations per source register} (N=3 quick, N=4 thorough; int and "
        "float); Z = the same idea with `zero` as extra source and as repeatable destination (N=2 quick, N=3 "
        "thorough); M = every pair of a 2-register int graph and a 2-register float graph in three interleavings; "
        "D = ten directed shapes (4- and 5-cycles, two cycles, cycle + tree + fan-out, tree root next to a cycle, "
        "self-moved / x0 roots) in every order of the move list; R = random graphs over up to 8 destinations per "
        "kind (permutation cores, trees, fan-out, self-moves, x0, j_/fj_ registers, 0-2 free registers per kind, "
        "occasionally unsupported widths). Non-trivial = the pass returned normally, the final state was judged "
        "correct and at least one move is a real move (not a self-move, not into x0); distinct = distinct "
        "(moves, free) tuples (hashed)")
LEVEL_TEXT = ("Every move graph of the stated bounded universe (exhaustive for N registers per kind) and a random "
              "sample of larger graphs is lowered by the real pass and the emitted code executed on an independent "
              "register machine; held = on every explored graph the final register file equals the simultaneous "
              "assignment, no other register changed, users read the right registers, or the pass reported failure.")
LEVEL_NOTE = ("trusts the register machine xv/c20_regmachine.py (mv/xor/fmv.s/fmv.d semantics, NaN boxing, x0, ABI "
              "register aliases; self-tested at start of every shard), the reference simultaneous assignment in this "
              "file, and CPython")
TECHNIQUE = ("reference-model differential monitor: emitted code executed on an own register machine (register mode + "
             "SSA mode, stale-read detection) vs. directly computed simultaneous assignment; bounded-exhaustive "
             "enumeration of move graphs plus random larger graphs")
ENGINES = ["harness", "regmachine"]
ASSUMPTIONS = [
    "one SSA value per source register (two live values cannot share a register in an allocated program)",
    "a value has one width: every use of the same source value carries the same input width",
    "a destination `zero` cannot hold a value: moves into x0 are exempt from the value requirement (x0 stays 0), "
    "but the result must still be typed `zero`",
    "register names are the canonical ABI names (x9/s1 style aliases for one register inside one op are counted, not judged)",
    "width 32 float values are NaN-boxed singles when FLEN=64; int moves are judged on XLEN=64 and, when all int "
    "widths are 32, on XLEN=32 as well",
    "PassFailedException / DiagnosticException is a reported failure (allowed by the property); any other exception is not",
]
JOB_TIMEOUT = {"quick": 600, "thorough": 3600}

INT_REGS = ["s1", "s2", "s3", "s4", "s5", "s6", "s7", "s8"]
FLOAT_REGS = ["fs1", "fs2", "fs3", "fs4", "fs5", "fs6", "fs7", "fs8"]
OUTSIDE = {"int": "a5", "float": "fa5"}

PASS_CPU_BUDGET_S = 2.0


class PassCpuBudgetExceeded(BaseException):
    pass


def _on_cpu_alarm(_sig, _frm):
    raise PassCpuBudgetExceeded()


K_XOR = "int-cycle-ge3-no-free-reg:xor-swaps-give-inverse-rotation"
K_ROOT = "cycle-scratch-is-tree-root:read-only-source-register-clobbered"
K_ROOT_SELF = "cycle-scratch-is-tree-root:self-moved-destination-clobbered"
K_ROOT_ZERO = "cycle-scratch-is-tree-root:x0-taken-as-scratch"
K_ZERO = "x0-destination-enters-move-graph:"


# ------------------------------------------------------------------ reference model of the move list
class Ref:
    """Everything the oracle needs, computed from the case alone (never from the pass)."""

    def __init__(self, moves, free):
        self.moves = [tuple(m) for m in moves]
        self.free = [tuple(f) for f in free]
        self.phys_free = {rm.phys(k, r) for k, r in self.free}
        self.src_names = []           # distinct (kind, name) in first-use order
        for k, s, d, w in self.moves:
            if (k, s) not in self.src_names:
                self.src_names.append((k, s))
        self.pred = {}                # phys dst -> (phys src, width, kind)   (self-moves and x0 destinations dropped)
        self.dst_phys = set()
        self.selfmoves = 0
        self.zero_dsts = 0
        for k, s, d, w in self.moves:
            ps, pd = rm.phys(k, s), rm.phys(k, d)
            if pd == ("x", 0):
                self.zero_dsts += 1
                continue
            self.dst_phys.add(pd)
            if ps == pd:
                self.selfmoves += 1
                continue
            self.pred[pd] = (ps, w, k)
        # cycles of the functional graph dst -> src
        self.cycles = []
        seen = set()
        for start in self.pred:
            if start in seen:
                continue
            path, cur = [], start
            while cur in self.pred and cur not in seen and cur not in path:
                path.append(cur)
                cur = self.pred[cur][0]
            if cur in path:
                self.cycles.append(path[path.index(cur):])
            seen.update(path)
        self.cycle_nodes = {n for c in self.cycles for n in c}
        succ = {}
        for d, (s, _w, _k) in self.pred.items():
            succ.setdefault(s, []).append(d)
        self.succ = succ
        self.fanout = max((len(v) for v in succ.values()), default=0)
        self.tree_into_cycle = any(s in self.cycle_nodes and any(x not in self.cycle_nodes for x in ds)
                                   for s, ds in succ.items())
        self.pure_sources = {s for s in succ if s not in self.pred}      # roots: read, never written by a real move
        self.self_moved = {rm.phys(k, s) for k, s, d, w in self.moves if rm.phys(k, s) == rm.phys(k, d)}
        # registers that are read by some move and written by none (sources of moves into x0 included)
        self.read_only_sources = {rm.phys(k, s) for k, s, d, w in self.moves} - self.dst_phys
        self.sources_nonself = {rm.phys(k, s) for k, s, d, w in self.moves if rm.phys(k, s) != rm.phys(k, d)}
        depth = {}
        for d in self.pred:
            n, cur, hops = 0, d, set()
            while cur in self.pred and cur not in hops:
                hops.add(cur)
                cur = self.pred[cur][0]
                n += 1
            depth[d] = n
        self.max_chain = max(depth.values(), default=0)

    def kind_of(self, p):
        return "int" if p[0] in ("x", "xj") else "float"

    def has_free(self, kind):
        return any(k == kind for k, _ in self.free)

    def infeasible(self):
        """No correct sequence exists: a float cycle and no designated free float register."""
        return any(self.kind_of(c[0]) == "float" for c in self.cycles) and not self.has_free("float")

    def shape(self):
        bits = []
        if self.cycles:
            kinds = sorted({self.kind_of(c[0]) for c in self.cycles})
            bits.append("cyc" + "+".join(f"{k[0]}{max(len(c) for c in self.cycles if self.kind_of(c[0]) == k)}" for k in kinds))
            if len(self.cycles) > 1:
                bits.append(f"{len(self.cycles)}cycles")
        if self.tree_into_cycle:
            bits.append("tree-off-cycle")
        if self.fanout > 1:
            bits.append("fanout")
        if self.max_chain > 1 and not self.cycles:
            bits.append("chain")
        if self.selfmoves:
            bits.append("self")
        if self.zero_dsts:
            bits.append("zero-dst")
        if any(rm.phys(k, s) == ("x", 0) for k, s, d, w in self.moves):
            bits.append("zero-src")
        kinds = {k for k, *_ in self.moves}
        if len(kinds) > 1:
            bits.append("mixed")
        elif kinds == {"float"}:
            bits.append("float")
        return ",".join(bits) or "plain"


def narrow(kind, width, value, flen=64):
    """What 'the value' of a register content is at the move's width."""
    if kind == "float" and width == 32:
        return ("s", value & 0xFFFFFFFF)
    return ("w", value)


# ------------------------------------------------------------------ building and lowering with the real code
_X = {}


def _xdsl():
    if not _X:
        from xdsl.context import Context
        from xdsl.dialects import builtin, riscv, test
        from xdsl.transforms.riscv_lower_parallel_mov import RISCVLowerParallelMovPass
        from xdsl.utils.exceptions import DiagnosticException, PassFailedException, VerifyException
        _X.update(Context=Context, builtin=builtin, riscv=riscv, test=test, Pass=RISCVLowerParallelMovPass,
                  Diag=DiagnosticException, PassFailed=PassFailedException, Verify=VerifyException)
    return _X


def reg_type(kind, name):
    X = _xdsl()
    cls = X["riscv"].IntRegisterType if kind == "int" else X["riscv"].FloatRegisterType
    return cls.from_name(name)


def build(ref: Ref):
    X = _xdsl()
    b, test = X["builtin"], X["test"]
    deff = test.TestOp(result_types=[reg_type(k, n) for k, n in ref.src_names])
    val = {kn: deff.results[i] for i, kn in enumerate(ref.src_names)}
    free = b.ArrayAttr([reg_type(k, n) for k, n in ref.free]) if ref.free else None
    pm = X["riscv"].ParallelMovOp([val[(k, s)] for k, s, d, w in ref.moves],
                                  [reg_type(k, d) for k, s, d, w in ref.moves],
                                  b.DenseArrayBase.from_list(b.i32, [w for *_x, w in ref.moves]), free)
    use = test.TestOp(operands=list(pm.results))
    # sources that are neither overwritten by the parallel move nor designated scratch stay live afterwards
    live = [kn for kn in ref.src_names if rm.phys(*kn) not in ref.dst_phys and rm.phys(*kn) not in ref.phys_free]
    late = test.TestOp(operands=[val[kn] for kn in live])
    mod = b.ModuleOp([deff, pm, use, late])
    return mod, deff, use, late, val, live


def type_reg(t):
    n = t.name
    kind = "int" if n == "riscv.reg" else "float" if n == "riscv.freg" else None
    return kind, t.register_name.data


def innermost_xdsl_frame(e):
    tb, name = e.__traceback__, "?"
    while tb is not None:
        co = tb.tb_frame.f_code
        if "/xdsl/" in co.co_filename:
            name = getattr(co, "co_qualname", co.co_name)
        tb = tb.tb_next
    return name


def case_text(ref: Ref):
    """The case as parsable IR text (witness)."""
    tn = lambda k, n: f"!riscv.{'reg' if k == 'int' else 'freg'}<{n}>"
    names = {kn: f"%v{i}" for i, kn in enumerate(ref.src_names)}
    k = len(ref.moves)
    t = f"{', '.join(names.values())} = \"test.op\"() : () -> ({', '.join(tn(*kn) for kn in ref.src_names)})\n"
    outs = ", ".join(f"%o{j}" for j in range(k))
    free = (" {free_registers = [" + ", ".join(tn(*f) for f in ref.free) + "]}") if ref.free else ""
    t += (f"{outs} = riscv.parallel_mov {', '.join(names[(m[0], m[1])] for m in ref.moves)} "
          f"[{', '.join(str(m[3]) for m in ref.moves)}]{free} : "
          f"({', '.join(tn(m[0], m[1]) for m in ref.moves)}) -> ({', '.join(tn(m[0], m[2]) for m in ref.moves)})\n")
    t += f"\"test.op\"({outs}) : ({', '.join(tn(m[0], m[2]) for m in ref.moves)}) -> ()\n"
    return t


_INIT_CACHE = {}


def initial_state(ref: Ref, variant: int, xlen: int, flen: int):
    """Pairwise distinct contents for the full register files (+ mentioned j_ registers)."""
    mentioned = {(k, s) for k, s, d, w in ref.moves} | {(k, d) for k, s, d, w in ref.moves} | set(ref.free)
    extra = tuple(sorted(kn for kn in mentioned if rm.phys(*kn)[0] in ("xj", "fj")))
    wide = frozenset(rm.phys(k, s) for k, s, d, w in ref.moves if k == "float" and w != 32)
    ck = (variant, xlen, flen, extra, wide)
    if ck not in _INIT_CACHE:
        if len(_INIT_CACHE) > 4000:
            _INIT_CACHE.clear()
        _INIT_CACHE[ck] = _initial_state(ref, variant, xlen, flen)
    return _INIT_CACHE[ck]


def _initial_state(ref: Ref, variant: int, xlen: int, flen: int):
    regs = [("int", n) for n in rm.INT_ABI[1:]] + [("float", n) for n in rm.FLOAT_ABI]
    mentioned = {(k, s) for k, s, d, w in ref.moves} | {(k, d) for k, s, d, w in ref.moves} | set(ref.free)
    regs += sorted(kn for kn in mentioned if rm.phys(*kn)[0] in ("xj", "fj"))
    wide_float = {rm.phys(k, s) for k, s, d, w in ref.moves if k == "float" and w != 32}
    init = {}
    rng = random.Random(variant * 7919 + 17)
    used_lo = {0}
    for i, (k, n) in enumerate(regs):
        if variant == 0:
            lo, hi = 0x01010101 * (i + 1) + 0x40, (0x00010001 * (i + 1)) ^ 0x5A5A0000
        else:
            lo, hi = rng.getrandbits(32), rng.getrandbits(32)
            while lo in used_lo:
                lo = rng.getrandbits(32)
        used_lo.add(lo)                            # low halves pairwise distinct and non-zero => so are the full words
        v = (hi << 32) | lo
        if k == "int":
            v &= (1 << xlen) - 1
        elif flen == 32:
            v &= 0xFFFFFFFF
        elif rm.phys(k, n) not in wide_float:
            v = rm.BOX | lo                        # a single held in a 64-bit float register is NaN-boxed
        init[rm.phys(k, n)] = v
    return init


class CaseResult:
    __slots__ = ("status", "detail", "problems", "ref", "ops", "mnemonics", "module_text", "fail_msg", "wrong_regs", "clobbered", "final_of", "init_of", "module", "state_problem")

    def __init__(self, ref):
        self.status = None      # "lowered" | "failed" | "rejected" | "crash"
        self.detail = ""
        self.problems = []      # [(key, summary)]
        self.ref = ref
        self.ops = 0
        self.mnemonics = ()
        self.module_text = ""
        self.fail_msg = ""
        self.wrong_regs = set()
        self.clobbered = set()
        self.final_of = {}
        self.init_of = {}
        self.module = None
        self.state_problem = {}


def run_case(moves, free, counters=None, want_text=False) -> CaseResult:
    res = _run_case_raw(moves, free, counters)
    if res.module is not None and (res.problems or want_text):
        res.module_text = str(res.module)        # printing costs as much as the pass itself: only when needed
    res.module = None
    if res.problems:
        rekey_zero_family(res.ref, res)
        seen, out = set(), []
        for k, s in res.problems:          # one entry per key, first summary kept
            if k not in seen:
                seen.add(k)
                out.append((k, s))
        res.problems = out
    return res


def _run_case_raw(moves, free, counters=None) -> CaseResult:
    X = _xdsl()
    C = counters if counters is not None else {}

    def bump(k, n=1):
        C[k] = C.get(k, 0) + n

    ref = Ref(moves, free)
    res = CaseResult(ref)
    mod, deff, use, late, val, live = build(ref)
    try:
        mod.verify()
    except X["Verify"] as e:
        res.status, res.detail = "rejected", str(e).splitlines()[0][:80]
        bump("input_rejected_by_verifier")
        return res
    bump("pass_applications")
    try:
        signal.signal(signal.SIGVTALRM, _on_cpu_alarm)
        signal.setitimer(signal.ITIMER_VIRTUAL, PASS_CPU_BUDGET_S)
        try:
            X["Pass"]().apply(X["Context"](), mod)
        finally:
            signal.setitimer(signal.ITIMER_VIRTUAL, 0)
    except PassCpuBudgetExceeded:
        # normal cost is ~1 ms; pure-python loops are interruptible, so the watchdog is in-process (CPU time, not wall)
        res.status = "hang"
        res.problems.append(("hang:pass-does-not-terminate",
                             f"riscv-lower-parallel-mov still running after {PASS_CPU_BUDGET_S} s CPU (normal: ~1 ms)"))
        bump("pass_exceeded_cpu_budget")
        return res
    except X["Diag"] as e:
        msg = [l for l in str(e).splitlines() if "Error while applying pattern" in l]
        res.status = "failed"
        res.fail_msg = (msg[0].split("Error while applying pattern:")[1].strip(" |-") if msg
                        else str(e).strip().splitlines()[-1])[:60]
        bump("pass_reported_failure")
        return res
    except Exception as e:  # noqa: BLE001 - any other exception is a crash of the pass, not a reported failure
        res.status = "crash"
        key = f"crash:{type(e).__name__}:{innermost_xdsl_frame(e)}"
        res.problems.append((key, f"{type(e).__name__}: {str(e)[:120]}"))
        bump("pass_crashed")
        return res
    res.status = "lowered"
    bump("pass_returned_normally")
    try:
        mod.verify()
        bump("verified_after_lowering")
    except Exception as e:  # noqa: BLE001
        res.problems.append(("verify-after-lowering", f"module does not verify after the pass: {str(e)[:160]}"))
    ops = list(mod.body.block.ops)
    res.module = mod
    if ops[0] is not deff or use not in ops or late not in ops or ops.index(use) != len(ops) - 2 or ops[-1] is not late:
        res.problems.append(("frame-ops-disturbed", "definition / user ops were moved, erased or replaced"))
        return res
    body = ops[1:-2]
    sid = {}

    def ssa_id(v):
        if v not in sid:
            sid[v] = len(sid)
        return sid[v]

    code = []
    for op in body:
        if not op.name.startswith("riscv.") or op.name == "riscv.parallel_mov":
            res.problems.append(("not-lowered:" + op.name, f"op {op.name} left between definition and user"))
            return res
        operands = []
        for o in op.operands:
            k, n = type_reg(o.type)
            operands.append((k, n, ssa_id(o)))
        results = []
        for r in op.results:
            k, n = type_reg(r.type)
            results.append((k, n, ssa_id(r)))
        imm = None
        if "immediate" in op.properties or "immediate" in op.attributes:
            a = op.properties.get("immediate") or op.attributes.get("immediate")
            imm = getattr(getattr(a, "value", None), "data", None)
        code.append(rm.Instr(op.name[len("riscv."):], operands, results, imm))
    res.ops = len(code)
    res.mnemonics = tuple(sorted({i.mnemonic for i in code}))
    bump("emitted_instructions", len(code))
    for i in code:
        bump("emitted:" + i.mnemonic)

    # ---- static part of the user check: same operand count, operand i typed exactly as destination i
    if len(use.operands) != len(ref.moves):
        res.problems.append(("user-operand-count", f"user has {len(use.operands)} operands, {len(ref.moves)} expected"))
        return res
    for i, (k, s, d, w) in enumerate(ref.moves):
        got = type_reg(use.operands[i].type)
        bump("user_operands_checked")
        if got != (k, d):
            res.problems.append(("user-rewired-to-other-register",
                                 f"result {i} (destination {d}) replaced by a value living in {got[1]}"))
    if [type_reg(o.type) for o in late.operands] != live or any(o is not val[kn] for o, kn in zip(late.operands, live)):
        res.problems.append(("later-user-of-source-rewired", "a later user of an untouched source value was changed"))

    int_widths = {w for k, s, d, w in ref.moves if k == "int"}
    configs = [(64, 64)]
    if int_widths <= {32} and all(w == 32 for k, s, d, w in ref.moves if k == "float"):
        configs.append((32, 32))
    elif int_widths <= {32}:
        configs.append((32, 64))
    for (xlen, flen) in configs:
        for variant in (0, 1):
            bump("machine_runs")
            init = initial_state(ref, variant, xlen, flen)
            m = rm.Machine(xlen, flen)
            m.regs = dict(init)
            for kn in ref.src_names:
                p = rm.phys(*kn)
                m.ssa[ssa_id(val[kn])] = 0 if p == ("x", 0) else init[p]
            tag = f"xlen{xlen}-flen{flen}"
            try:
                m.run(code)
            except rm.MachineError as e:
                res.problems.append((f"machine:{e.kind}", f"[{tag}] {e}"))
                break
            bump("instructions_executed", m.executed)
            if m.uninit_reads:
                res.problems.append(("read-of-unknown-register", f"[{tag}] {m.uninit_reads[0]}"))
            final = m.regs
            getf = lambda p: 0 if p == ("x", 0) else final.get(p)
            geti = lambda p: 0 if p == ("x", 0) else init[p]
            wrong_dst, clobbered = [], []
            # (a) every destination holds what its source held
            for i, (k, s, d, w) in enumerate(ref.moves):
                ps, pd = rm.phys(k, s), rm.phys(k, d)
                if pd == ("x", 0):
                    bump("zero_destination_moves_exempt")
                    continue
                bump("destinations_compared")
                want, got = narrow(k, w, geti(ps)), narrow(k, w, getf(pd))
                if want != got:
                    wrong_dst.append((i, pd))
                elif k == "float" and w == 32 and flen == 64 and (getf(pd) & rm.BOX) != rm.BOX:
                    res.problems.append(("float-single-not-nan-boxed", f"[{tag}] destination {d} holds an unboxed single"))
                else:
                    # the register is right; the SSA value the user names must be that value as well
                    sv = m.ssa.get(ssa_id(use.operands[i]))
                    if sv is None or narrow(k, w, sv) != want:
                        res.problems.append(("user-ssa-value-wrong",
                                             f"[{tag}] user operand {i}: register {d} is right but the SSA value named is another one"))
            # (b) nothing else changed
            for p, v in init.items():
                if p in ref.dst_phys or p in ref.phys_free:
                    continue
                bump("bystander_registers_compared")
                if final.get(p) != v:
                    clobbered.append(p)
            for p in final:
                if p not in init:
                    clobbered.append(p)
            # (c) later users of still-live sources read their registers: must still hold the value
            for kn in live:
                bump("live_source_reads_checked")
            # (d) stale reads inside the emitted sequence
            if m.stale_reads:
                res.problems.append(("stale-read-in-emitted-code",
                                     f"[{tag}] {m.stale_reads[0][0]} reads {m.stale_reads[0][1]} after it was overwritten"))
            if wrong_dst or clobbered:
                wrong_regs = {p for _i, p in wrong_dst}
                res.wrong_regs = wrong_regs
                res.clobbered = set(clobbered)
                res.final_of = {p: final.get(p) for p in list(clobbered) + list(wrong_regs)}
                res.init_of = init
                for kind in ("int", "float"):
                    wk = {p for p in wrong_regs if ref.kind_of(p) == kind}
                    ck = {p for p in clobbered if ref.kind_of(p) == kind}
                    if wk or ck:
                        entries, rest_w, rest_c = classify_kind(ref, kind, init, final, wk, ck, res, tag)
                        res.problems.extend(entries)
                        if rest_w or rest_c:       # the last entry is the unexplained remainder (generic key)
                            res.state_problem[kind] = (entries[-1], rest_w, rest_c)
            if res.problems:
                break
        if res.problems:
            break
    return res


def pname(p):
    if p[0] == "x":
        return rm.INT_ABI[p[1]]
    if p[0] == "f":
        return rm.FLOAT_ABI[p[1]]
    return ("j_" if p[0] == "xj" else "fj_") + str(p[1])


def classify_kind(ref: Ref, kind, init, final, wrong, clob, res, tag):
    """Mechanism key for a wrong final state of one register file.  `wrong` = destinations holding another value,
    `clob` = changed registers that are neither destinations nor designated free registers.  A known wrong-behaviour
    model is CONFIRMED on the observed state before its key is used; everything else gets a generic key (VIOLATION)."""
    X0 = ("x", 0)
    geti = lambda p: 0 if p == X0 else init[p]
    getf = lambda p: 0 if p == X0 else final.get(p)
    desc = (f"[{tag}] {kind}: wrong destinations {sorted(pname(p) for p in wrong)} clobbered "
            f"{sorted(pname(p) for p in clob)} shape={ref.shape()} free={[f[1] for f in ref.free]}")
    cycles = [c for c in ref.cycles if ref.kind_of(c[0]) == kind]
    members = {n for c in cycles for n in c}
    no_free = not ref.has_free(kind)
    in_cycle_vals = {init[n] for n in members}
    # --- model 1: int cycle of length >= 3, no scratch: the xor-swap chain rotates it the wrong way round.
    #     Cycles are independent of each other (and of everything else), so the cycles that match the model are
    #     peeled off and the remaining wrong registers are classified on their own.
    found = []
    if kind == "int" and wrong and no_free and "xor" in res.mnemonics:
        peeled = []
        for c in cycles:
            if len(c) >= 3 and any(n in wrong for n in c) and \
                    all(getf(c[(i + 1) % len(c)]) == geti(n) for i, n in enumerate(c)):
                # c[i] <- c[i+1] is wanted; the inverse rotation leaves c[i+1] holding the initial value of c[i]
                peeled.append(c)
        if peeled:
            found.append((K_XOR, desc + f" cycle lengths {[len(c) for c in peeled]}"))
            wrong = wrong - {n for c in peeled for n in c}
            if not wrong and not clob:
                return found, set(), set()
            desc = (f"[{tag}] {kind}: (besides {len(peeled)} inverse-rotated cycle(s)) wrong destinations "
                    f"{sorted(pname(p) for p in wrong)} clobbered {sorted(pname(p) for p in clob)} shape={ref.shape()} "
                    f"free={[f[1] for f in ref.free]}")
    # --- model 2: the pass takes the ROOT of a move tree (a register that is only read) as scratch for a cycle of
    #     the same kind when no free register was designated
    if members and no_free:
        if len(clob) == 1 and not wrong:
            (p,) = clob
            if p in ref.read_only_sources and p != X0 and final.get(p) in in_cycle_vals:
                return found + [(K_ROOT, desc)], set(), set()
        if len(wrong) == 1 and not clob:
            (p,) = wrong
            if p in ref.self_moved and p in ref.sources_nonself and final.get(p) in in_cycle_vals:
                return found + [(K_ROOT_SELF, desc)], set(), set()
        if kind == "int" and wrong and not clob and X0 in ref.succ and wrong <= members \
                and all(getf(p) == 0 for p in wrong) and len(wrong) <= len(cycles):
            return found + [(K_ROOT_ZERO, desc)], set(), set()
    generic = ("wrong-destination-value-and-clobbered-register" if wrong and clob else
               "wrong-destination-value" if wrong else "clobbered-register")
    return found + [(generic, desc)], wrong, clob


_ZERO_CRASHES = {"crash:AssertionError:ParallelMovPattern.match_and_rewrite": "crash-AssertionError",
                 "crash:KeyError:ParallelMovPattern.match_and_rewrite": "crash-KeyError",
                 "crash:ValueError:SSAValue.erase": "crash-ValueError-erase-with-uses"}


def rekey_zero_family(ref: Ref, res):
    """Known model: a move INTO x0 is put into the move graph like any other destination (the verifier allows x0
    as a repeated destination).  Preconditions are structural facts of the case; the observed manifestation is
    part of the key."""
    X0 = ("x", 0)
    zero_dst = [(k, s, d, w) for k, s, d, w in ref.moves if k == "int" and rm.phys(k, d) == X0]
    real = [m for m in zero_dst if rm.phys(m[0], m[1]) != X0]
    if not real:
        return
    repeated = len(zero_dst) >= 2                 # two result slots share the key `zero` in the pass's index
    through = X0 in ref.succ                      # x0 also feeds a real destination: x0 looks like an inner node
    # registers on a path from x0 back to a source of a move into x0 form a pseudo cycle through x0
    pseudo = set()
    for k, s, d, w in real:
        path, cur = [], rm.phys(k, s)
        while cur in ref.pred and cur not in path:
            path.append(cur)
            cur = ref.pred[cur][0]
        if cur == X0:
            pseudo.update(path)
    out = []
    for key, summ in res.problems:
        new = None
        if repeated and key in _ZERO_CRASHES:
            new = _ZERO_CRASHES[key]
        elif repeated and key == "hang:pass-does-not-terminate":
            new = "hang"
        elif repeated and key == "stale-read-in-emitted-code":
            new = "stale-read"
        elif through and pseudo and "int" in res.state_problem and (key, summ) == res.state_problem["int"][0] \
                and key in ("wrong-destination-value", "clobbered-register", "wrong-destination-value-and-clobbered-register"):
            # x0 looks like an inner node of a cycle: the registers between x0 and a source of a move into x0 (the
            # pseudo cycle) may end up wrong, and - without designated int free register - a tree root is taken as
            # scratch to "break" the pseudo cycle (see K_ROOT): it receives the saved value of a pseudo-cycle member
            # (or x0's 0).  Only the int register file is concerned.
            _entry, wrong, clob = res.state_problem["int"]
            on_pseudo, rest = wrong & pseudo, wrong - pseudo
            scratch = list(clob) + list(rest)          # the register taken as scratch: a tree root
            ok = len(scratch) <= 1
            for p in scratch:
                is_root = (p in ref.read_only_sources) if p in clob else (p in ref.self_moved and p in ref.sources_nonself)
                if not (is_root and not ref.has_free("int") and p != X0
                        and res.final_of.get(p) in ({0} | {res.init_of.get(q) for q in pseudo})):
                    ok = False
            if ok:
                new = ("wrong-destination" if on_pseudo else
                       "tree-root-taken-as-scratch" if clob else "self-moved-tree-root-taken-as-scratch")
        out.append((K_ZERO + new, summ) if new else (key, summ))
    res.problems = out


# ------------------------------------------------------------------ workload
FREE_SETS = [[], [("int", "s10")], [("float", "fs10")], [("int", "s10"), ("float", "fs10")]]
WIDTH_MODES = ["32", "64", "alt", "tla"]


def width_for(mode, kind, src, universe):
    if mode == "32":
        return 32
    if mode == "64":
        return 64
    i = universe.index(src) if src in universe else len(universe)
    return (32, 64)[(i + (mode == "tla")) % 2]


def gen_exhaustive(kind, n):
    """Every non-empty ordered destination subset of n registers x every source map into those registers plus one
    outside register x free set x width mode."""
    regs = (INT_REGS if kind == "int" else FLOAT_REGS)[:n]
    uni = regs + [OUTSIDE[kind]]
    for k in range(1, n + 1):
        for dsts in itertools.permutations(regs, k):
            for srcs in itertools.product(uni, repeat=k):
                for free in FREE_SETS:
                    for wm in WIDTH_MODES:
                        yield [(kind, s, d, width_for(wm, kind, s, uni)) for s, d in zip(srcs, dsts)], free


def gen_zero(n):
    """`zero` as source and as (repeatable) destination next to n ordinary int registers and one outside source."""
    regs = INT_REGS[:n]
    srcu = regs + ["zero", OUTSIDE["int"]]
    dstu = regs + ["zero"]
    for k in range(1, n + 2):
        for dsts in itertools.product(dstu, repeat=k):
            nz = [d for d in dsts if d != "zero"]
            if len(nz) != len(set(nz)):
                continue
            for srcs in itertools.product(srcu, repeat=k):
                if "zero" not in dsts and "zero" not in srcs:
                    continue
                for free in (FREE_SETS[0], FREE_SETS[1]):
                    yield [("int", s, d, 32) for s, d in zip(srcs, dsts)], free


def _kind_graphs(kind, n):
    regs = (INT_REGS if kind == "int" else FLOAT_REGS)[:n]
    uni = regs + [OUTSIDE[kind]]
    yield []
    for k in range(1, n + 1):
        for dsts in itertools.permutations(regs, k):
            for srcs in itertools.product(uni, repeat=k):
                yield list(zip(srcs, dsts))


def gen_mixed(n, width_pairs):
    """Every pair (int graph over n registers, float graph over n registers), both non-empty, three interleavings."""
    ig = [g for g in _kind_graphs("int", n) if g]
    fg = [g for g in _kind_graphs("float", n) if g]
    iu = INT_REGS[:n] + [OUTSIDE["int"]]
    fu = FLOAT_REGS[:n] + [OUTSIDE["float"]]
    for gi in ig:
        for gf in fg:
            for wi, wf in width_pairs:
                mi = [("int", s, d, width_for(wi, "int", s, iu)) for s, d in gi]
                mf = [("float", s, d, width_for(wf, "float", s, fu)) for s, d in gf]
                alt = [m for pair in itertools.zip_longest(mf, mi) for m in pair if m is not None]
                orders = [mi + mf, mf + mi]
                if alt not in orders:
                    orders.append(alt)
                for moves in orders:
                    for free in FREE_SETS:
                        yield moves, free


# directed shapes over abstract nodes; "o" = outside register, "z" = zero; every ordering of the move list is tried
TEMPLATES = {
    "selfroot+cycle2": ["a>a", "a>b", "c>d", "d>c"],
    "root+cycle3": ["o>a", "b>c", "c>d", "d>b"],
    "cycle4": ["a>b", "b>c", "c>d", "d>a"],
    "cycle5": ["a>b", "b>c", "c>d", "d>e", "e>a"],
    "cycle2+cycle3": ["a>b", "b>a", "c>d", "d>e", "e>c"],
    "cycle3+tree+fanout": ["a>b", "b>c", "c>a", "a>d", "d>e", "a>f"],
    "zeroroot+cycle2": ["z>a", "b>c", "c>b"],
    "cycle3+selfmove": ["a>b", "b>c", "c>a", "d>d"],
    "chain4+cycle2": ["o>a", "a>b", "b>c", "d>e", "e>d"],
    "cycle2+cycle2+root": ["a>b", "b>a", "c>d", "d>c", "o>e"],
}


def gen_directed(kinds=("int", "float"), free_sets=None):
    for name, tmpl in sorted(TEMPLATES.items()):
        for kind in kinds:
            if "z" in "".join(tmpl) and kind == "float":
                continue
            regs = INT_REGS if kind == "int" else FLOAT_REGS
            node = {c: regs[i] for i, c in enumerate("abcdef")}
            node["o"] = OUTSIDE[kind]
            node["z"] = "zero"
            base = [(kind, node[t[0]], node[t[2]]) for t in tmpl]
            perms = itertools.permutations(base) if len(base) <= 5 else \
                (random.Random(len(base) * 31 + j).sample(base, len(base)) for j in range(120))
            for order in perms:
                for free in (free_sets or FREE_SETS):
                    for w in (32, 64):
                        yield [(k, s, d, w) for k, s, d in order], free


ALIAS = {"s1": "x9", "s2": "x18", "fs1": "f9", "fs2": "f18"}


def gen_alias():
    """Observation only (not judged): the same physical register named s1 as a source and x9 as a destination."""
    for kind in ("int", "float"):
        for g in _kind_graphs(kind, 2):
            if not g:
                continue
            for free in (FREE_SETS[0], FREE_SETS[3]):
                yield [(kind, s, ALIAS[d], 32) for s, d in g], free


POOL = {"int": ["s1", "s2", "s3", "s4", "s5", "s6", "s7", "s8", "a0", "a1", "a2", "a3", "t0", "t1", "t2", "ra",
                "j_0", "j_1", "j_2", "j_7"],
        "float": ["fs1", "fs2", "fs3", "fs4", "fs5", "fs6", "fs7", "fs8", "fa0", "fa1", "fa2", "fa3", "ft0", "ft1",
                  "ft2", "ft11", "fj_0", "fj_1", "fj_2", "fj_7"]}
ODD_WIDTHS = [0, 1, 8, 16, 40, 128, -32]


def gen_random(rng: random.Random):
    """One random case: up to 8 destinations per kind, permutation cores (long / several cycles), trees hanging off
    them, fan-out, self-moves, zero, 0-2 free registers per kind, occasionally unsupported widths."""
    moves = []
    free = []
    kinds = rng.choice([("int",), ("float",), ("int", "float"), ("int", "float")])
    odd = rng.random() < 0.06
    for kind in kinds:
        pool = POOL[kind][:]
        rng.shuffle(pool)
        nfree = rng.choice([0, 0, 1, 1, 2])
        free += [(kind, r) for r in pool[:nfree]]
        pool = pool[nfree:]
        n = rng.randint(1, 8)
        regs = pool[:n]
        outside = pool[n:n + 2]
        ndst = rng.randint(1, n)
        dsts = regs[:ndst]
        srcu = regs + outside + (["zero"] if kind == "int" and rng.random() < 0.15 else [])
        src_of = {}
        mode = rng.random()
        if mode < 0.55 and ndst >= 2:
            # permutation core on a subset of the destinations: guarantees cycles (lengths 2..8, maybe several)
            core = dsts[:rng.randint(2, ndst)]
            perm = core[:]
            rng.shuffle(perm)
            for d, s in zip(core, perm):
                src_of[d] = s
        for d in dsts:
            if d not in src_of:
                src_of[d] = rng.choice(srcu) if rng.random() < 0.8 else rng.choice(dsts)
        width_of = {}
        for s in set(src_of.values()):
            width_of[s] = rng.choice(ODD_WIDTHS) if odd and rng.random() < 0.3 else rng.choice([32, 64])
        km = [(kind, src_of[d], d, width_of[src_of[d]]) for d in dsts]
        if kind == "int" and rng.random() < 0.1:
            for _ in range(rng.randint(1, 2)):
                s = rng.choice(srcu)
                km.append((kind, s, "zero", width_of.setdefault(s, 32)))
        moves += km
    rng.shuffle(moves)
    return moves, free


# ------------------------------------------------------------------ plan / work / finish
def _cases_for(job):
    cls = job["class"]
    if cls == "E":
        return gen_exhaustive(job["kind"], job["n"])
    if cls == "Z":
        return gen_zero(job["n"])
    if cls == "M":
        return gen_mixed(job["n"], [tuple(p) for p in job["width_pairs"]])
    if cls == "D":
        return gen_directed(free_sets=[FREE_SETS[i] for i in job["free_sets"]] if job.get("free_sets") else None)
    if cls == "A":
        return gen_alias()
    if cls == "R":
        rng = random.Random(job["seed"])
        return (gen_random(rng) for _ in range(job["count"]))
    if cls == "one":
        return iter([([tuple(m) for m in job["moves"]], [tuple(f) for f in job["free"]])])
    raise ValueError(cls)


def plan(tier, seed):
    jobs = []

    def shards(job, n):
        for i in range(n):
            jobs.append(dict(job, shard=i, nshards=n))

    if tier == "quick":
        shards({"class": "E", "kind": "int", "n": 3}, 3)
        shards({"class": "E", "kind": "float", "n": 3}, 3)
        shards({"class": "Z", "n": 2}, 1)
        shards({"class": "M", "n": 2, "width_pairs": [["32", "32"], ["64", "alt"]]}, 5)
        shards({"class": "D", "free_sets": [0, 3]}, 5)
        shards({"class": "A"}, 1)
        for r in range(7):
            jobs.append({"class": "R", "seed": seed * 100003 + r, "count": 900, "shard": 0, "nshards": 1})
    else:
        shards({"class": "E", "kind": "int", "n": 4}, 40)
        shards({"class": "E", "kind": "float", "n": 4}, 40)
        shards({"class": "Z", "n": 3}, 16)
        shards({"class": "M", "n": 2, "width_pairs": [[a, b] for a in WIDTH_MODES for b in WIDTH_MODES]}, 24)
        shards({"class": "D"}, 10)
        shards({"class": "A"}, 1)
        for r in range(64):
            jobs.append({"class": "R", "seed": seed * 100003 + 1000 + r, "count": 4000, "shard": 0, "nshards": 1})
    return jobs


def work(job):
    rm.selftest()
    res = {"evaluations": 0, "nontrivial": [], "samples": [], "counters": {}, "sets": {}, "violations": [], "extra": {}}
    C = res["counters"]
    S = {"shapes_lowered": set(), "failure_messages": set(), "mnemonics": set(), "rejected_reasons": set(),
         "classes": set()}

    def bump(k, n=1):
        C[k] = C.get(k, 0) + n

    cls = job["class"]
    S["classes"].add(cls + (":" + job["kind"] + str(job["n"]) if cls == "E" else ""))
    per_key = {}
    sh, nsh = job.get("shard", 0), job.get("nshards", 1)
    for idx, (moves, free) in enumerate(_cases_for(job)):
        if idx % nsh != sh:
            continue
        if cls == "A":
            # not judged (see ASSUMPTIONS): aliases are distinct attributes to the pass; counted as an observation
            r = run_case(moves, free, {})
            bump("alias_cases_observed_not_judged")
            bump("alias_cases_" + ("wrong_or_crashed" if r.problems else r.status))
            continue
        res["evaluations"] += 1
        bump("cases_class_" + cls)
        r = run_case(moves, free, C)
        ref = r.ref
        if r.status == "rejected":
            S["rejected_reasons"].add(r.detail)
            continue
        odd = any(w not in (32, 64) for *_m, w in moves)
        if r.status == "failed":
            S["failure_messages"].add(r.fail_msg)
            if ref.infeasible():
                bump("failed_float_cycle_without_free_float_register")
            elif odd:
                bump("failed_unsupported_width")
            else:
                bump("failed_although_a_correct_sequence_exists")
            continue
        if r.status == "lowered":
            S["mnemonics"].update(r.mnemonics)
            if not r.problems:
                shape = ref.shape()
                S["shapes_lowered"].add(shape)
                bump("lowered_and_correct")
                if ref.pred:
                    res["nontrivial"].append(shash((ref.moves, ref.free))[:11])
                for c in ref.cycles:
                    k = ref.kind_of(c[0])
                    bump(f"correct_{k}_cycle_len{min(len(c), 5)}{'plus' if len(c) >= 5 else ''}_"
                         f"{'with' if ref.has_free(k) else 'without'}_free_register")
                if len(ref.cycles) > 1:
                    bump("correct_several_cycles")
                if ref.tree_into_cycle:
                    bump("correct_tree_hanging_off_cycle")
                if ref.fanout > 1:
                    bump("correct_fanout")
                if ref.selfmoves:
                    bump("correct_with_self_moves")
                if ref.zero_dsts:
                    bump("correct_with_zero_destination")
                if "zero-src" in shape:
                    bump("correct_with_zero_source")
                if "mixed" in shape:
                    bump("correct_mixed_int_float")
                if odd:
                    bump("correct_with_unsupported_width_on_unemitted_move")
                if len(res["samples"]) < 2 and ref.cycles:
                    r2 = run_case(moves, free, {}, want_text=True)
                    res["samples"].append({"moves": [list(m) for m in ref.moves], "free": [list(f) for f in ref.free],
                                           "lowered_to": [l.strip() for l in r2.module_text.splitlines()[2:-3]]})
        for key, summ in r.problems:
            bump("violating_cases")
            bump("violating:" + key)
            n = per_key.get(key, 0)
            per_key[key] = n + 1
            if n < 2:
                res["violations"].append({
                    "key": key, "summary": summ,
                    "witness": {"ir": case_text(ref), "after_pass": r.module_text,
                                "replay_job": {"class": "one", "moves": [list(m) for m in ref.moves],
                                               "free": [list(f) for f in ref.free]}}})
    res["sets"] = {k: sorted(v) for k, v in S.items()}
    return res


def finish(agg, tier):
    inc = []
    c = agg.counters
    need = {
        "lowered_and_correct": 5000,
        "machine_runs": 10000,
        "destinations_compared": 20000,
        "bystander_registers_compared": 100000,
        "user_operands_checked": 10000,
        "correct_int_cycle_len2_with_free_register": 50,
        "correct_int_cycle_len2_without_free_register": 50,
        "correct_float_cycle_len2_with_free_register": 50,
        "correct_int_cycle_len3_with_free_register": 50,
        "correct_float_cycle_len3_with_free_register": 50,
        "correct_tree_hanging_off_cycle": 50,
        "correct_fanout": 200,
        "correct_with_self_moves": 200,
        "correct_mixed_int_float": 200,
        "correct_with_zero_source": 20,
        "correct_with_zero_destination": 20,
        "failed_float_cycle_without_free_float_register": 50,
        "emitted:xor": 100, "emitted:mv": 1000, "emitted:fmv.s": 500, "emitted:fmv.d": 500,
    }
    for k, n in need.items():
        if c.get(k, 0) < n:
            inc.append(f"{k} = {c.get(k, 0)} < {n}: deciding monitor not reached often enough")
    feasible_failed = c.get("failed_although_a_correct_sequence_exists", 0)
    if feasible_failed * 20 > c.get("pass_applications", 1):
        inc.append(f"pass reported failure on {feasible_failed} cases for which a correct sequence exists (> 5 %)")
    bounds = ({"int_registers": 3, "float_registers": 3, "zero_class_registers": 2, "mixed_registers_per_kind": 2}
              if tier == "quick" else
              {"int_registers": 4, "float_registers": 4, "zero_class_registers": 3, "mixed_registers_per_kind": 2})
    return {"inconclusive": inc, "coverage": {"exhaustive": True, "bounds": bounds}}
