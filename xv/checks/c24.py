"""C24 - Dominance and post-order traversal match their graph definitions.

Reference-model differential monitor. Region CFGs are built from `test.termop` successor lists; for each one
the real `DominanceInfo` (dominates / strictly_dominates, and the module-level `strictly_dominates`) is compared
with a path-based reference ("b is unreachable from the entry once a is removed", cross-checked against explicit
simple-path enumeration for n <= 4), and the real `PostOrderIterator` against the definition of a DFS post-order
(reachable set, each block once, entry last, a successor may only come after its predecessor if it can be an
ancestor of it).  Exhaustive for all graphs up to the stated number of blocks (ordered successor lists of length
<= 2, i.e. self loops and multi-edges included), random beyond (n <= 12, unreachable chains / cycles feeding
reachable blocks, irreducible loops).

EDIT HISTORIES: a CFG is built, queried, and then edited in place through every public way (`term.successors[i] = b`,
`term.successors = [...]`, replacing / erasing / adding the terminator via Block and Rewriter APIs, adding, erasing,
detaching, moving and splitting blocks, cloning the region); after every edit the region is re-queried through a fresh
`DominanceInfo`, through the module-level `strictly_dominates` (all pairs, so any state kept between calls is exposed)
and through `PostOrderIterator`. The generator keeps its OWN record of the intended edges and block order; the
reference is computed from that record only, never from what `op.successors` / `region.blocks` read back. All single
in-place retargetings of every n<=3 graph are enumerated exhaustively (incl. one of several parallel edges, self loops).
A history ends at the first state that disagrees, so the key names the edit kind that introduced the mismatch."""
from __future__ import annotations

import itertools
import random
import signal

from xv.harness import shash

ID = "C24"
LEVEL = "exploration"
RULE = ("CFGs given as per-block ordered successor lists (block 0 = entry) realised as a Region of blocks ending in "
        "test.termop (successor-free blocks also as empty block / non-terminator last op): exhaustively ALL graphs with "
        "n<=4 blocks and lists of length<=2 over all blocks (self loops, multi-edges, unreachable blocks; 196 730 graphs), "
        "thorough additionally all n=5 graphs with successor sets of size<=2 (1 048 576); plus random graphs with 5..12 "
        "blocks, lists of length<=3, planted unreachable chains/cycles feeding reachable blocks, nested/irreducible "
        "loops, shuffled block order. A graph is non-trivial if >=2 blocks are reachable and it has an unreachable "
        "block, a cycle or a join (reachable block with >=2 distinct predecessors). Distinct: exhaustive shards are "
        "pairwise disjoint by construction (counted), random graphs (n>=5 lists, disjoint from the exhaustive space "
        "in quick; n>=6 in thorough) by hash of the successor lists. EDIT HISTORIES: every single in-place retargeting "
        "term.successors[i]=blk of every n<=3 graph (32 224, of which 6 140 move one of several parallel edges) and random "
        "12-step histories over 11 edit kinds (another region's blocks inlined at end/start/before/after via Rewriter.inline_region / Region.move_blocks(_before) followed by insert-before/detach/erase/split at the seam, setitem, successors setter, terminator replaced/erased/added via Block and "
        "Rewriter, block added/erased/detached/moved/split, region cloned), re-queried after every edit against the "
        "generator's own edge record; a random history is non-trivial with >=4 successful edits of >=2 kinds, distinct by "
        "hash of (initial graph, steps)")
LEVEL_TEXT = ("Every (a, b) query of DominanceInfo with b reachable and the full PostOrderIterator output are compared with "
              "a path-based reference on every CFG of a bounded-exhaustive enumeration and on random larger CFGs; held = "
              "no query / traversal disagreed on the graphs explored.")
LEVEL_NOTE = ("trusts the reference (DFS reachability with one block removed; cross-checked against simple-path "
              "enumeration on every exhaustive graph), the CFG builder (test.termop successors) and CPython")
TECHNIQUE = "reference-model differential monitor (path-based dominance / DFS post-order definition); bounded-exhaustive CFGs + random"
ENGINES = ["harness", "models"]
ASSUMPTIONS = ["edit histories: the intended graph is the generator's own record of block order and edges; an edit call "
               "that raises ends the history (IR-edit atomicity is C01's property) and is counted",
               "a region CFG's edges are the successors of each block's last operation (terminator)",
               "reference dominance by reachability-after-removal equals the all-paths definition (cross-checked by "
               "explicit simple-path enumeration for n<=4)",
               "no oracle for queries whose target block is unreachable (outside the property); they are only counted"]
JOB_TIMEOUT = {"quick": 900, "thorough": 3600}

CPU_GUARD_S = 5  # CPU seconds one DominanceInfo construction may take before it is declared non-terminating (normal: <1 ms)
PO_CPU_GUARD_S = 0.5  # same for one complete post-order traversal (normal: ~20 us); small because a runaway stack eats memory
MAX_HANGS = 8  # after that many non-terminations in one shard the mechanism is no longer exercised there (counted)


class Hang(Exception):
    pass


def _on_timer(signum, frame):
    raise Hang()


# ------------------------------------------------------------------ graph spaces
def lists_ordered(n):
    """ordered successor lists of length <= 2 over n blocks (multi-edges as (a, a))"""
    return [()] + [(a,) for a in range(n)] + [(a, b) for a in range(n) for b in range(n)]


def lists_sets(n):
    """successor sets of size <= 2 (as sorted tuples)"""
    return [()] + [(a,) for a in range(n)] + [(a, b) for a in range(n) for b in range(a + 1, n)]


# ------------------------------------------------------------------ reference
def ref_reach(succs, removed=None, start=0):
    if removed == start:
        return set()
    seen = {start}
    st = [start]
    while st:
        u = st.pop()
        for v in succs[u]:
            if v != removed and v not in seen:
                seen.add(v)
                st.append(v)
    return seen


def ref_dom(succs):
    """dom[b] = set of a dominating b, for reachable b only (path definition via removal)."""
    n = len(succs)
    R = ref_reach(succs)
    dom = {b: {b} for b in R}
    for a in range(n):
        if a not in R:
            continue  # a block no path from the entry visits cannot lie on every path to a reachable b != a
        left = ref_reach(succs, removed=a)
        for b in R:
            if b not in left:
                dom[b].add(a)
    return R, dom


def ref_dom_paths(succs):
    """second, independent reference: enumerate all simple paths entry -> b (small n only)."""
    n = len(succs)
    on_all: dict[int, set] = {}

    def go(path, inpath):
        u = path[-1]
        s = on_all.get(u)
        if s is None:
            on_all[u] = set(path)
        else:
            s &= inpath
        for v in set(succs[u]):
            if v not in inpath:
                path.append(v)
                inpath.add(v)
                go(path, inpath)
                inpath.discard(v)
                path.pop()

    go([0], {0})
    return on_all


def ref_recursive_postorder(succs):
    out, seen = [], set()

    def go(u):
        seen.add(u)
        for v in succs[u]:
            if v not in seen:
                go(v)
        out.append(u)

    go(0)
    return out


# ------------------------------------------------------------------ building real IR
_X = {}


def _imports():
    if _X:
        return
    from xdsl.dialects.test import TestOp, TestTermOp
    from xdsl.ir import Block, Region
    from xdsl.ir.post_order import PostOrderIterator
    from xdsl.irdl import dominance as dommod
    from xdsl.dialects.builtin import i32
    from xdsl.ir import post_order as pomod
    from xdsl.rewriter import Rewriter
    import inspect
    _X.update(TestOp=TestOp, TestTermOp=TestTermOp, Block=Block, Region=Region, PostOrderIterator=PostOrderIterator,
              DominanceInfo=dommod.DominanceInfo, strictly_dominates=dommod.strictly_dominates, i32=i32, Rewriter=Rewriter)
    # public module-level API of the two anchored modules (functions/classes defined there, not imported names)
    api = []
    for mod, tag in ((dommod, "dominance"), (pomod, "post_order")):
        for name, obj in vars(mod).items():
            if name.startswith("_") or getattr(obj, "__module__", None) != mod.__name__:
                continue
            if inspect.isfunction(obj) or inspect.isclass(obj):
                api.append(f"{tag}.{name}")
    _X["public_api"] = sorted(api)


def build(succs, variant, order=None, wrap=False):
    """Realise the graph. variant selects how successor-free blocks look and how much padding precedes the
    terminator. `order` = region order of the block indices (entry first). Returns region, blocks (by index),
    term_ok (per block: does the block end in a terminator, i.e. may the post-order iterator follow it)."""
    X = _X
    n = len(succs)
    blocks = [X["Block"](arg_types=[X["i32"]] * ((variant >> 3) & 1 if i else 0)) for i in range(n)]
    term_ok = [True] * n
    for i, s in enumerate(succs):
        v = (variant + i) & 3
        b = blocks[i]
        if s:
            if v == 1:
                b.add_op(X["TestOp"].create(result_types=[X["i32"]]))
            b.add_op(X["TestTermOp"].create(successors=[blocks[j] for j in s]))
        elif v == 0:
            b.add_op(X["TestTermOp"].create())
        elif v == 1:
            term_ok[i] = False  # empty block
        elif v == 2:
            b.add_op(X["TestOp"].create(result_types=[X["i32"]]))  # last op is not a terminator
            term_ok[i] = False
        else:
            b.add_op(X["TestOp"].create())
            b.add_op(X["TestTermOp"].create())
    region = X["Region"]([blocks[i] for i in (order or range(n))])
    holder = X["TestOp"].create(regions=[region]) if wrap else None
    return region, blocks, term_ok, holder


def ir_text(region):
    from io import StringIO
    from xdsl.printer import Printer
    s = StringIO()
    try:
        Printer(stream=s).print_region(region)
    except Exception as e:  # noqa: BLE001 - witness text only
        return f"<unprintable: {type(e).__name__}>"
    return s.getvalue()


# ------------------------------------------------------------------ one case
class Ctx:
    def __init__(self):
        self.counters: dict[str, int] = {}
        self.violations: list[dict] = []
        self.per_key: dict[str, int] = {}
        self.nontrivial_count = 0
        self.hashes: list[str] = []
        self.samples: list = []
        self.keyp = ""  # mechanism-key prefix (edit histories: "after-<edit kind>:")

    def c(self, k, n=1):
        self.counters[k] = self.counters.get(k, 0) + n

    def viol(self, key, summary, witness):
        key = self.keyp + key
        self.c("violating_observations")
        self.c("viol:" + key)
        self.per_key[key] = self.per_key.get(key, 0) + 1
        if self.per_key[key] <= 4:
            self.violations.append({"key": key, "summary": summary, "witness": witness})


def nontrivial(succs, R):
    if len(R) < 2:
        return False
    n = len(succs)
    if len(R) < n:
        return True
    preds = {}
    for u in R:
        for v in succs[u]:
            preds.setdefault(v, set()).add(u)
            if v == u:
                return True
    if any(len(p) >= 2 for p in preds.values()):
        return True
    # cycle among reachable blocks
    for u in R:
        if any(u in ref_reach(succs, start=v) for v in succs[u]):
            return True
    return False


def run_case(cx: Ctx, succs, variant=0, order=None, wrap=False, cross_check=False, module_fn="all", record_hash=False):
    succs = tuple(tuple(s) for s in succs)
    region, blocks, term_ok, holder = build(succs, variant, order, wrap)
    wit = {"succs": [list(s) for s in succs], "variant": variant, "order": list(order) if order else None,
           "wrap": wrap, "replay_job": {"kind": "one", "succs": [list(s) for s in succs], "variant": variant,
                                         "order": list(order) if order else None, "wrap": wrap}}
    check_graph(cx, succs, region, blocks, term_ok, wit, order=order, variant=variant, cross_check=cross_check,
                module_fn=module_fn, record_hash=record_hash)


def check_graph(cx: Ctx, succs, region, blocks, term_ok, wit, order=None, variant=0, cross_check=False, module_fn="all",
                record_hash=False, count_nt=True, sample=True, entry_block=None):
    """Compare the real dominance / post-order answers for `region` with the reference computed from `succs`, the
    INTENDED edges (index i = blocks[i], index 0 = entry). `succs` is never read back from the IR."""
    X = _X
    n = len(succs)
    succs = tuple(tuple(s) for s in succs)
    cx.c("graphs")
    R, dom = ref_dom(succs)
    if cross_check:
        alt = ref_dom_paths(succs)
        if set(alt) != R or any(alt[b] != dom[b] for b in R):
            raise AssertionError(f"oracle self-check failed (removal vs path enumeration) on {succs}")
        cx.c("oracle_cross_checks")
    nt = nontrivial(succs, R)
    if nt and count_nt:
        cx.nontrivial_count += 1
        if record_hash:
            cx.hashes.append(shash(("g", succs)))
    if len(R) < n:
        cx.c("graphs_with_unreachable_blocks")
        if any(u not in R and any(v in R for v in succs[u]) for u in range(n)):
            cx.c("graphs_with_unreachable_pred_of_reachable")

    # ---- dominance
    if cx.counters.get("hangs_dominance", 0) >= MAX_HANGS:
        cx.c("dominance_skipped_after_repeated_hangs")
        return
    signal.setitimer(signal.ITIMER_VIRTUAL, CPU_GUARD_S)
    try:
        try:
            info = X["DominanceInfo"](region)
        finally:
            signal.setitimer(signal.ITIMER_VIRTUAL, 0)
    except Hang:
        cx.c("hangs_dominance")
        cx.viol("dominance:construction-does-not-terminate", f"DominanceInfo(region) used > {CPU_GUARD_S}s CPU on {succs}", wit)
        info = None
    except Exception as e:  # noqa: BLE001 - a raise of the code under test is an observation
        cx.viol(f"dominance:raises:{type(e).__name__}", f"DominanceInfo(region) raised {e!r} on {succs}", wit)
        info = None
    if info is not None:
        cx.c("dominance_infos")
        bad = []
        raised = False
        for b in range(n):
            bb = blocks[b]
            if b not in R:
                # outside the property (no oracle); record what the implementation answers
                cx.c("queries_unreachable_target_not_judged", n)
                continue
            db = dom[b]
            if raised:
                break
            for a in range(n):
                want = a in db
                try:
                    got = info.dominates(blocks[a], bb)
                    gots = info.strictly_dominates(blocks[a], bb)
                except Exception as e:  # noqa: BLE001 - a raise of the code under test is an observation
                    w = dict(wit)
                    w.update(a=a, b=b)
                    cx.viol(f"dominance:query-raises:{type(e).__name__}",
                            f"DominanceInfo(region).dominates(bb{a}, bb{b}) raised {e!r}; intended succs={succs}", w)
                    raised = True
                    break
                cx.c("dominates_queries_compared")
                if want:
                    cx.c("dominates_true_expected")
                if got is not want:
                    bad.append((a, b, "dominates", got, want))
                if gots is not (want and a != b):
                    bad.append((a, b, "strictly_dominates", gots, want and a != b))
        if module_fn != "none":
            pairs = [(a, b) for b in R for a in range(n)]
            if module_fn != "all" and pairs:
                pairs = [pairs[variant % len(pairs)], pairs[(variant * 7 + 3) % len(pairs)]]
            for a, b in pairs:
                try:
                    got = X["strictly_dominates"](blocks[a], blocks[b])
                except Exception as e:  # noqa: BLE001 - a raise of the code under test is an observation
                    w = dict(wit)
                    w.update(a=a, b=b)
                    cx.viol(f"dominance:module.strictly_dominates:raises:{type(e).__name__}",
                            f"strictly_dominates(bb{a}, bb{b}) raised {e!r}; intended succs={succs}", w)
                    break
                cx.c("module_strictly_dominates_compared")
                if got is not (a in dom[b] and a != b):
                    bad.append((a, b, "module.strictly_dominates", got, a in dom[b] and a != b))
        if bad:
            for a, b, what, got, want in bad[:50]:
                key = "dominance:" + what + (":missing" if want else ":spurious")
                w = dict(wit)
                w.update(a=a, b=b, query=what, got=got, want=want, reachable=sorted(R))
                if cx.per_key.get(cx.keyp + key, 0) < 4:
                    w["ir"] = ir_text(region)
                cx.viol(key, f"{what}(bb{a}, bb{b}) = {got}, path definition says {want}; succs={succs} reachable={sorted(R)}", w)
            cx.c("graphs_with_dominance_mismatch")

    # ---- post-order
    limit = 4 * n + 8
    if cx.counters.get("hangs_postorder", 0) >= MAX_HANGS:
        cx.c("postorder_skipped_after_repeated_hangs")
        return
    signal.setitimer(signal.ITIMER_VIRTUAL, PO_CPU_GUARD_S)
    try:
        try:
            it = X["PostOrderIterator"](blocks[0] if entry_block is None else entry_block)
            got_blocks = list(itertools.islice(it, limit))
            exhausted_ok = True
            if len(got_blocks) < limit:
                try:
                    next(it)
                    exhausted_ok = False
                except StopIteration:
                    pass
        finally:
            signal.setitimer(signal.ITIMER_VIRTUAL, 0)
    except Hang:
        it = None  # drop the (possibly huge) stack
        cx.c("hangs_postorder")
        cx.viol("postorder:does-not-terminate",
                f"PostOrderIterator used > {PO_CPU_GUARD_S}s CPU without finishing on {succs}", wit)
        cx.c("graphs_with_postorder_mismatch")
        return
    except Exception as e:  # noqa: BLE001
        cx.viol(f"postorder:raises:{type(e).__name__}", f"PostOrderIterator raised {e!r} on {succs}", wit)
        return
    cx.c("postorder_traversals")
    cx.c("postorder_blocks_yielded", len(got_blocks))
    idx = {id(b): i for i, b in enumerate(blocks)}
    po = [idx.get(id(b), -1) for b in got_blocks]
    # the edges the iterator is allowed to follow: terminators only
    esuccs = tuple(s if term_ok[i] else () for i, s in enumerate(succs))
    ER = ref_reach(esuccs)
    problems = []
    if len(got_blocks) >= limit:
        problems.append(("does-not-terminate", f"yielded >= {limit} blocks"))
    else:
        if not exhausted_ok:
            problems.append(("resumes-after-stop", "next() after StopIteration yielded again"))
        if -1 in po:
            problems.append(("foreign-block", "yielded a block that is not in the region"))
        s = set(po)
        if len(s) != len(po):
            problems.append(("block-yielded-twice", f"order {po}"))
        if s - ER:
            problems.append(("unreachable-block-yielded", f"order {po} reachable {sorted(ER)}"))
        if ER - s:
            problems.append(("reachable-block-missing", f"order {po} reachable {sorted(ER)}"))
        if not po or po[-1] != 0:
            problems.append(("entry-not-last", f"order {po}"))
        if not problems:
            pos = {b: i for i, b in enumerate(po)}
            for u in po:
                for v in esuccs[u]:
                    if v != u and pos[v] > pos[u] and u not in ref_reach(esuccs, start=v):
                        problems.append(("successor-after-block-without-back-edge",
                                         f"edge bb{u}->bb{v}: bb{v} emitted after bb{u} but bb{v} cannot be an ancestor; order {po}"))
                        break
                else:
                    continue
                break
    if not problems:
        if po == ref_recursive_postorder(esuccs):
            cx.c("postorder_equals_recursive_dfs_order")
        else:
            cx.c("postorder_valid_but_other_than_recursive_dfs_order")
    else:
        for kind, detail in problems:
            key = "postorder:" + kind
            w = dict(wit)
            w.update(got_order=po, recursive_dfs_order=ref_recursive_postorder(esuccs), reachable=sorted(ER))
            if cx.per_key.get(cx.keyp + key, 0) < 4:
                w["ir"] = ir_text(region)
            cx.viol(key, f"PostOrderIterator: {kind}: {detail}; succs={esuccs}", w)
        cx.c("graphs_with_postorder_mismatch")
    if sample and len(cx.samples) < 2 and nt and n >= 3:
        cx.samples.append({"succs": [list(s) for s in succs], "reachable": sorted(R),
                           "dominators": {str(b): sorted(dom[b]) for b in sorted(R)}, "post_order": po})


# ------------------------------------------------------------------ edit histories
# The generator keeps its OWN record of the intended CFG (block ids in region order + per-block successor ids) and
# applies every edit both to that record and, through a public xDSL API, to the IR. The reference is computed from
# the record only; `op.successors` / `region.blocks` are never read back to build it.
KNOWN_API = ["dominance.DominanceInfo", "dominance.strictly_dominates", "post_order.PostOrderIterator"]
EDIT_KINDS = ["setitem", "setsucc", "replace_term", "drop_term", "add_term", "add_block", "erase_block", "move_block",
              "split", "clone", "inline"]
MAX_HIST_BLOCKS = 7


class Hist:
    def __init__(self, init_succs, pad_seed=0):
        X = _X
        self.next_id = len(init_succs)
        self.order = list(range(len(init_succs)))
        self.succ = {i: list(s) for i, s in enumerate(init_succs)}
        self.obj = {i: X["Block"]() for i in self.order}
        self.has_term = {}
        self.moved_first = None  # id of the first block of the most recently inlined group
        self.grave = []  # strong references to everything erased (ids are never recycled)
        for i in self.order:
            if (pad_seed + i) % 3 == 0:
                self.obj[i].add_op(X["TestOp"].create(result_types=[X["i32"]]))
            # a successor-free block is built without terminator every 4th time
            if self.succ[i] or (pad_seed + i) % 4:
                self.obj[i].add_op(X["TestTermOp"].create(successors=[self.obj[j] for j in self.succ[i]]))
                self.has_term[i] = True
            else:
                self.has_term[i] = False
        self.region = X["Region"]([self.obj[i] for i in self.order])
        self.holder = X["TestOp"].create(regions=[self.region]) if pad_seed % 2 else None

    def term(self, i):
        return self.obj[i].last_op

    def new_term(self, tgts):
        return _X["TestTermOp"].create(successors=[self.obj[j] for j in tgts])

    def indexed(self):
        pos = {b: k for k, b in enumerate(self.order)}
        succs = tuple(tuple(pos[t] for t in self.succ[b]) for b in self.order)
        return succs, [self.obj[b] for b in self.order], [self.has_term[b] for b in self.order]

    def incoming(self, b):
        return [u for u in self.order for t in self.succ[u] if t == b]

    # -------------------------------------------------------------- apply one explicit step to record AND IR
    def apply(self, step):
        X = _X
        k = step[0]
        if k == "setitem":
            _, b, i, t = step
            self.term(b).successors[i] = self.obj[t]
            self.succ[b][i] = t
        elif k == "setsucc":
            _, b, tg = step
            self.term(b).successors = [self.obj[t] for t in tg]
            self.succ[b] = list(tg)
        elif k == "replace_term":
            _, b, tg, how = step
            old, new = self.term(b), self.new_term(tg)
            blk = self.obj[b]
            if how == "erase_add":
                blk.erase_op(old)
                blk.add_op(new)
            elif how == "rewriter":
                X["Rewriter"].replace_op(old, new)
            elif how == "insert_detach":
                blk.insert_op_before(new, old)
                blk.detach_op(old)
            else:  # insert_erase
                blk.insert_op_before(new, old)
                old.detach()
                old.erase()
            self.grave.append(old)
            self.succ[b] = list(tg)
        elif k == "drop_term":
            _, b, how = step
            old = self.term(b)
            if how == "erase":
                self.obj[b].erase_op(old)
            else:
                X["Rewriter"].erase_op(old)
            self.grave.append(old)
            self.succ[b] = []
            self.has_term[b] = False
        elif k == "add_term":
            _, b, tg = step
            self.obj[b].add_op(self.new_term(tg))
            self.succ[b] = list(tg)
            self.has_term[b] = True
        elif k == "add_block":
            _, nb, idx, tg, how = step
            blk = X["Block"]()
            self.obj[nb] = blk
            self.next_id = max(self.next_id, nb + 1)
            if how == "add":
                self.region.add_block(blk)
                idx = len(self.order)
            elif how == "before":
                self.region.insert_block_before(blk, self.obj[self.order[idx]])
            elif how == "after":
                self.region.insert_block_after(blk, self.obj[self.order[idx - 1]])
            else:
                self.region.insert_block(blk, idx)
            self.order.insert(idx, nb)
            if tg is None:
                self.succ[nb], self.has_term[nb] = [], False
            else:
                blk.add_op(self.new_term(tg))
                self.succ[nb], self.has_term[nb] = list(tg), True
        elif k == "erase_block":
            _, b, how = step
            blk = self.obj[b]
            if how == "erase":
                self.region.erase_block(blk)
            elif how == "erase_index":
                self.region.erase_block(self.order.index(b))
            else:
                self.region.detach_block(blk)
            self.grave.append(blk)
            self.order.remove(b)
            del self.succ[b], self.has_term[b]
        elif k == "move_block":
            _, b, idx = step
            blk = self.region.detach_block(self.obj[b])
            self.order.remove(b)
            self.region.insert_block(blk, idx)
            self.order.insert(idx, b)
        elif k == "inline":
            # blocks of ANOTHER region are moved into the region under test (end / start / before / after a block)
            _, ids, tgs, how, idx = step
            from xdsl.rewriter import BlockInsertPoint
            for nb in ids:
                self.obj[nb] = X["Block"]()
                self.next_id = max(self.next_id, nb + 1)
            for nb, tg in zip(ids, tgs):
                if tg is None:
                    self.succ[nb], self.has_term[nb] = [], False
                else:
                    self.obj[nb].add_op(self.new_term(tg))
                    self.succ[nb], self.has_term[nb] = list(tg), True
            src = X["Region"]([self.obj[nb] for nb in ids])
            src_holder = X["TestOp"].create(regions=[src])
            self.grave.append(src_holder)
            n = len(self.order)
            if how == "move_blocks":
                src.move_blocks(self.region)
                at = n
            elif how == "inline_end":
                X["Rewriter"].inline_region(src, BlockInsertPoint.at_end(self.region))
                at = n
            elif how == "inline_start":
                X["Rewriter"].inline_region(src, BlockInsertPoint.at_start(self.region))
                at = 0
            elif how == "inline_before":
                X["Rewriter"].inline_region(src, BlockInsertPoint.before(self.obj[self.order[idx]]))
                at = idx
            elif how == "inline_after":
                X["Rewriter"].inline_region(src, BlockInsertPoint.after(self.obj[self.order[idx]]))
                at = idx + 1
            else:  # move_blocks_before
                src.move_blocks_before(self.obj[self.order[idx]])
                at = idx
            self.order[at:at] = list(ids)
            self.moved_first = ids[0]
        elif k == "split":
            _, b, nb, at_term = step
            blk = self.obj[b]
            first = blk.last_op if at_term or blk.first_op is blk.last_op else blk.first_op
            new = blk.split_before(first)
            self.obj[nb] = new
            self.next_id = max(self.next_id, nb + 1)
            self.order.insert(self.order.index(b) + 1, nb)
            self.succ[nb], self.has_term[nb] = self.succ[b], self.has_term[b]
            self.succ[b], self.has_term[b] = [], False
        else:
            raise ValueError(k)

    # -------------------------------------------------------------- generate one valid step for the current record
    def gen(self, rng, focus=None):
        n = len(self.order)
        with_term = [b for b in self.order if self.has_term[b]]
        with_edges = [b for b in self.order if self.succ[b]]
        mf = self.moved_first
        if mf is not None and mf in self.succ and rng.random() < .45:
            # list surgery right at the seam of an inlined group: insert before / detach / erase / split the first moved
            # block or its neighbour in front
            pos = self.order.index(mf)
            opts = []
            if n < MAX_HIST_BLOCKS:
                nb = self.next_id
                tg = [rng.choice(self.order + [nb]) for _ in range(rng.choice([0, 1, 2]))]
                opts.append(["add_block", nb, pos, tg, "before"])
                opts.append(["add_block", nb, pos, tg, "insert"])
                if self.obj[mf].first_op is not None:
                    opts.append(["split", mf, nb, rng.random() < .5])
                if pos > 0 and self.obj[self.order[pos - 1]].first_op is not None:
                    opts.append(["split", self.order[pos - 1], nb, rng.random() < .5])
            if n > 1 and not self.incoming(mf):
                opts.append(["erase_block", mf, rng.choice(["erase", "erase_index", "detach"])])
            if n > 1:
                opts.append(["move_block", mf, rng.randrange(n)])
            if opts:
                self.moved_first = None
                return rng.choice(opts)
        for _ in range(30):
            k = focus if focus and rng.random() < .5 else rng.choices(
                ["setitem", "setsucc", "replace_term", "drop_term", "add_term", "add_block", "erase_block", "move_block", "split",
                 "inline"],
                [8, 4, 4, 1, 2, 2, 2, 2, 1, 3])[0]
            if k == "inline" and n + 1 <= MAX_HIST_BLOCKS:
                cnt = rng.randint(1, min(3, MAX_HIST_BLOCKS - n))
                ids = list(range(self.next_id, self.next_id + cnt))
                tgs = [None if rng.random() < .15 else [rng.choice(self.order + ids) for _ in range(rng.choice([0, 1, 2, 2]))]
                       for _ in ids]
                how = rng.choice(["move_blocks", "inline_end", "inline_end", "inline_start", "inline_before", "inline_after",
                                  "move_blocks_before"])
                return ["inline", ids, tgs, how, rng.randrange(n)]
            if k == "setitem" and with_edges:
                # prefer terminators with parallel edges: the in-place retargeting must move exactly edge i
                multi = [b for b in with_edges if len(set(self.succ[b])) < len(self.succ[b])]
                b = rng.choice(multi) if multi and rng.random() < .6 else rng.choice(with_edges)
                return ["setitem", b, rng.randrange(len(self.succ[b])), rng.choice(self.order)]
            if k == "setsucc" and with_term:
                b = rng.choice(with_term)
                return ["setsucc", b, self.rand_targets(rng)]
            if k == "replace_term" and with_term:
                b = rng.choice(with_term)
                return ["replace_term", b, self.rand_targets(rng), rng.choice(["erase_add", "rewriter", "insert_detach", "insert_erase"])]
            if k == "drop_term" and with_term:
                return ["drop_term", rng.choice(with_term), rng.choice(["erase", "rewriter"])]
            if k == "add_term":
                cand = [b for b in self.order if not self.has_term[b]]
                if cand:
                    return ["add_term", rng.choice(cand), self.rand_targets(rng)]
            if k == "add_block" and n < MAX_HIST_BLOCKS:
                how = rng.choice(["add", "before", "after", "insert"])
                idx = n if how == "add" else rng.randrange(0 if how in ("before", "insert") else 1, n + (how != "before"))
                nb = self.next_id
                tg = None if rng.random() < .2 else [rng.choice(self.order + [nb]) for _ in range(rng.choice([0, 1, 2, 2]))]
                return ["add_block", nb, idx, tg, how]
            if k == "erase_block" and n > 1:
                cand = [b for b in self.order if not self.incoming(b)]
                if cand:
                    return ["erase_block", rng.choice(cand), rng.choice(["erase", "erase_index", "detach"])]
            if k == "move_block" and n > 1:
                return ["move_block", rng.choice(self.order), rng.randrange(n)]
            if k == "split" and n < MAX_HIST_BLOCKS:
                cand = [b for b in self.order if self.obj[b].first_op is not None]
                if cand:
                    return ["split", rng.choice(cand), self.next_id, rng.random() < .6]
        return ["move_block", self.order[0], 0]

    def rand_targets(self, rng):
        cnt = rng.choice([0, 1, 1, 2, 2, 2, 3])
        t = [rng.choice(self.order) for _ in range(cnt)]
        if cnt >= 2 and rng.random() < .35:
            t[1] = t[0]  # parallel edge
        return t


def check_hist(cx: Ctx, h: Hist, init, steps, last, clone=False):
    """check the current IR of the history against the generator's record"""
    X = _X
    succs, blocks, term_ok = h.indexed()
    actual = list(h.region.blocks)
    wit = {"initial_succs": init["succs"], "pad_seed": init["pad"], "steps": list(steps),
           "intended_order": list(h.order), "intended_succs": {str(b): list(h.succ[b]) for b in h.order},
           "replay_job": {"kind": "hist_one", "succs": init["succs"], "pad": init["pad"], "steps": list(steps)}}
    cx.keyp = f"after-{last}:"
    before = cx.counters.get("violating_observations", 0)
    try:
        if len(actual) != len(blocks) or any(x is not y for x, y in zip(actual, blocks)):
            cx.viol("history:region-block-list-differs-from-intended",
                    f"after {steps[-1] if steps else 'build'} region.blocks has {len(actual)} blocks, the intended region has "
                    f"{len(blocks)} (positions of intended blocks in region.blocks: "
                    f"{[next((k for k, x in enumerate(actual) if x is y), None) for y in blocks]})", wit)
        if not blocks or not actual:
            return True
        cx.c("history_states_checked")
        cx.c("history_state_after:" + last)
        if any(len(set(s)) < len(s) for s in succs):
            cx.c("history_states_with_parallel_edges")
        if any(i in s for i, s in enumerate(succs)):
            cx.c("history_states_with_self_loops")
        # the traversal starts where clients start it: at what the region reports as its first block
        check_graph(cx, succs, h.region, blocks, term_ok, wit, cross_check=len(blocks) <= 5, module_fn="all",
                    count_nt=False, sample=False, entry_block=actual[0])
        if clone and len(actual) == len(blocks):
            cx.keyp = f"after-{last}+clone:"
            r2 = h.region.clone()
            cx.c("history_clones_checked")
            check_graph(cx, succs, r2, list(r2.blocks), term_ok, wit, cross_check=False, module_fn="all",
                        count_nt=False, sample=False)
    finally:
        cx.keyp = ""
    if cx.counters.get("violating_observations", 0) != before:
        cx.c("histories_ended_at_first_mismatch")
        return False
    return True


def run_history(cx: Ctx, init_succs, pad, steps=None, rng=None, nsteps=0, focus=None):
    """steps given: replay them; else generate nsteps steps with rng."""
    init = {"succs": [list(s) for s in init_succs], "pad": pad}
    h = Hist(init_succs, pad)
    done = []
    cx.c("histories")
    if not check_hist(cx, h, init, done, "build"):
        return done
    todo = list(steps) if steps is not None else None
    for k in range(len(todo) if todo is not None else nsteps):
        step = todo[k] if todo is not None else h.gen(rng, focus)
        done.append(step)
        try:
            h.apply(step)
        except Exception as e:  # noqa: BLE001 - the edit API itself raising is outside C24 (C01's domain): history ends
            cx.c("history_edit_raised:" + step[0] + ":" + type(e).__name__)
            return done
        cx.c("history_edits")
        cx.c("history_edit:" + step[0] + (":" + str(step[-1]) if step[0] in ("replace_term", "erase_block", "drop_term") else
                                          ":" + step[4] if step[0] == "add_block" else ":" + step[3] if step[0] == "inline" else ""))
        if step[0] != "inline" and len(done) >= 2 and done[-2][0] == "inline" and step[0] in ("add_block", "erase_block", "split", "move_block"):
            cx.c("history_list_surgery_right_after_inline:" + step[0])
        if not check_hist(cx, h, init, done, step[0], clone=(rng is not None and rng.random() < .08)):
            return done
    if len(cx.samples) < 3 and len(done) >= 4 and steps is None:
        cx.samples.append({"edit_history": {"initial_succs": init["succs"], "steps": done[:8],
                                            "final_intended_succs": {str(b): h.succ[b] for b in h.order}}})
    return done


# ------------------------------------------------------------------ random graphs
def gen_random(rng: random.Random, nmin=5):
    n = rng.randint(nmin, 12)
    shape = rng.choice(["uniform", "sparse", "chain+back", "diamonds", "irreducible", "planted", "planted", "planted"])
    succs = [[] for _ in range(n)]
    if shape == "uniform":
        for u in range(n):
            succs[u] = [rng.randrange(n) for _ in range(rng.choice([0, 1, 1, 2, 2, 3]))]
    elif shape == "sparse":
        for u in range(n):
            succs[u] = [rng.randrange(n) for _ in range(rng.choice([0, 1, 1, 1, 2]))]
    elif shape == "chain+back":
        for u in range(n - 1):
            succs[u] = [u + 1]
            if rng.random() < .4:
                succs[u].append(rng.randrange(0, u + 1))
            if rng.random() < .2:
                succs[u].append(rng.randrange(u + 1, n))
    elif shape == "diamonds":
        for u in range(n):
            hi = [v for v in range(u + 1, n)]
            if hi:
                succs[u] = [rng.choice(hi) for _ in range(rng.choice([1, 2, 2, 3]))]
        if rng.random() < .5:
            succs[n - 1] = [rng.randrange(n)]
    elif shape == "irreducible":
        # entry branches into the middle of a cycle at two places
        k = rng.randint(2, n - 1)
        cyc = rng.sample(range(1, n), k)
        for i, u in enumerate(cyc):
            succs[u] = [cyc[(i + 1) % k]]
            if rng.random() < .3:
                succs[u].append(rng.randrange(n))
        succs[0] = [cyc[0], cyc[rng.randrange(k)]] + ([rng.randrange(n)] if rng.random() < .3 else [])
    else:  # planted: a reachable core plus unreachable chains / cycles / roots feeding it
        core = rng.randint(2, n - 1)
        for u in range(core):
            succs[u] = [rng.randrange(core) for _ in range(rng.choice([0, 1, 2, 2, 3]))]
        for u in range(core - 1):
            if rng.random() < .7:
                succs[u].append(u + 1)
        dead = list(range(core, n))
        mode = rng.choice(["roots", "chain", "cycle", "mixed"])
        for i, u in enumerate(dead):
            tgt = [rng.randrange(core) for _ in range(rng.choice([0, 1, 1, 2]))]
            if mode == "chain" and i + 1 < len(dead):
                tgt.append(dead[i + 1])
            elif mode == "cycle":
                tgt.append(dead[(i + 1) % len(dead)])
            elif mode == "mixed" and rng.random() < .5:
                tgt.append(rng.choice(dead))
            rng.shuffle(tgt)
            succs[u] = tgt[:3]
    order = [0] + rng.sample(range(1, n), n - 1) if rng.random() < .6 else None
    return tuple(tuple(s[:3]) for s in succs), rng.randrange(16), order, rng.random() < .3, shape


# ------------------------------------------------------------------ plan / work / finish
def plan(tier, seed):
    jobs = [{"kind": "exh_small"}]  # n <= 3, all 16 variants
    for first in range(len(lists_ordered(4))):
        jobs.append({"kind": "exh4", "first": first})
    if tier == "thorough":
        L = len(lists_sets(5))
        for first in range(L):
            for part in range(4):
                jobs.append({"kind": "exh5", "first": first, "part": part, "parts": 4})
    # edit histories: every single in-place retargeting `term.successors[i] = blk` on every n<=3 graph, plus random
    # multi-step histories through all public edit APIs
    for part in range(4):
        jobs.append({"kind": "hist_exh", "part": part, "parts": 4})
    nh, perh, steps = (16, 110, 12) if tier == "quick" else (64, 600, 16)
    for r in range(nh):
        jobs.append({"kind": "hist_rand", "seed": seed * 100003 + 7000 + r, "count": perh, "steps": steps})
    nrand, per = (16, 1500) if tier == "quick" else (64, 4000)
    for r in range(nrand):
        jobs.append({"kind": "rand", "seed": seed * 100003 + r, "count": per, "nmin": 5 if tier == "quick" else 6})
    return jobs


def work(job):
    _imports()
    signal.signal(signal.SIGVTALRM, _on_timer)
    cx = Ctx()
    kind = job["kind"]
    evals = 0
    if kind == "exh_small":
        for n in (0, 1, 2, 3):
            if n == 0:
                # empty region: constructing the info must work; nothing to query
                _X["DominanceInfo"](_X["Region"]([]))
                cx.c("empty_regions")
                evals += 1
                continue
            for gi, succs in enumerate(itertools.product(lists_ordered(n), repeat=n)):
                for variant in range(16):
                    run_case(cx, succs, variant=variant, cross_check=(variant == 0), module_fn="all" if variant == 0 else "none")
                    evals += 1
        # every variant of the same graph is the same case for the distinct count
        cx.nontrivial_count //= 16
        cx.c("exhaustive_graphs_n_le_3", 3 + 49 + 2197)
    elif kind == "exh4":
        L = lists_ordered(4)
        first = L[job["first"]]
        for gi, rest in enumerate(itertools.product(L, repeat=3)):
            run_case(cx, (first,) + rest, variant=(gi + job["first"]) & 15, cross_check=True, module_fn="two")
            evals += 1
        cx.c("exhaustive_graphs_n_eq_4", evals)
    elif kind == "exh5":
        L = lists_sets(5)
        first = L[job["first"]]
        for gi, rest in enumerate(itertools.product(L, repeat=4)):
            if gi % job["parts"] != job["part"]:
                continue
            succs = (first,) + rest
            # the ordered-list space of n<=4 does not contain 5-block graphs: disjoint by construction
            run_case(cx, succs, variant=(gi // job["parts"]) & 15, cross_check=False, module_fn="none")
            evals += 1
        cx.c("exhaustive_graphs_n_eq_5_sets", evals)
    elif kind == "rand":
        rng = random.Random(job["seed"])
        for _ in range(job["count"]):
            succs, variant, order, wrap, shape = gen_random(rng, job.get("nmin", 5))
            before = cx.nontrivial_count
            run_case(cx, succs, variant=variant, order=order, wrap=wrap, cross_check=False, module_fn="two", record_hash=True)
            cx.c("random_graphs")
            cx.c("random_shape:" + shape)
            cx.c(f"random_blocks:{len(succs):02d}")
            evals += 1
            if cx.nontrivial_count > before:
                cx.c("random_nontrivial")
        cx.nontrivial_count = 0  # random graphs are counted by hash
    elif kind == "hist_exh":
        gi = 0
        for n in (1, 2, 3):
            for succs in itertools.product(lists_ordered(n), repeat=n):
                gi += 1
                if gi % job["parts"] != job["part"]:
                    continue
                for b in range(n):
                    for i in range(len(succs[b])):
                        for t in range(n):
                            run_history(cx, succs, pad=gi + b + i + t, steps=[["setitem", b, i, t]])
                            evals += 1
                            cx.c("exhaustive_single_retargetings")
                            if len(set(succs[b])) < len(succs[b]) and t != succs[b][i]:
                                cx.c("exhaustive_retargetings_of_one_parallel_edge")
        cx.nontrivial_count = 0
    elif kind == "hist_rand":
        rng = random.Random(job["seed"])
        for _ in range(job["count"]):
            n = rng.choice([2, 3, 3, 4, 4, 5])
            init = []
            for u in range(n):
                cnt = rng.choice([0, 1, 1, 2, 2, 3])
                t = [rng.randrange(n) for _ in range(cnt)]
                if cnt >= 2 and rng.random() < .4:
                    t[1] = t[0]
                init.append(t)
            focus = rng.choice([None, None, "setitem", "setsucc", "replace_term", "move_block", "add_block"])
            done = run_history(cx, init, pad=rng.randrange(12), rng=rng, nsteps=job["steps"], focus=focus)
            evals += 1
            kinds = {st[0] for st in done}
            if len(done) >= 4 and len(kinds) >= 2:
                cx.hashes.append(shash(("h", init, done)))
                cx.c("random_histories_nontrivial")
        cx.nontrivial_count = 0
    elif kind == "hist_one":
        run_history(cx, job["succs"], pad=job.get("pad", 0), steps=job["steps"])
        evals = 1
        cx.nontrivial_count = 0
    elif kind == "one":
        run_case(cx, [tuple(s) for s in job["succs"]], variant=job.get("variant", 0), order=job.get("order"),
                 wrap=job.get("wrap", False), cross_check=len(job["succs"]) <= 5, module_fn="all", record_hash=True)
        evals = 1
        cx.nontrivial_count = 0
    else:
        raise ValueError(kind)
    cx.c("exhaustive_nontrivial_graphs", cx.nontrivial_count)
    return {"evaluations": evals, "nontrivial": cx.hashes, "samples": cx.samples, "counters": cx.counters,
            "sets": {"public_module_level_api": _X["public_api"]}, "violations": cx.violations}


def finish(agg, tier):
    c = agg.counters
    inc = []
    need = {"graphs": 150_000, "dominates_queries_compared": 1_000_000, "postorder_traversals": 150_000,
            "graphs_with_unreachable_pred_of_reachable": 20_000, "oracle_cross_checks": 150_000,
            "module_strictly_dominates_compared": 100_000, "random_nontrivial": 5_000}
    need.update({"history_states_checked": 20_000, "history_edits": 12_000, "history_states_with_parallel_edges": 4_000,
                 "history_states_with_self_loops": 4_000, "history_clones_checked": 300, "history_edit:inline:move_blocks": 50, "history_edit:inline:inline_end": 100,
                 "history_list_surgery_right_after_inline:add_block": 40, "history_list_surgery_right_after_inline:erase_block": 15,
                 "history_list_surgery_right_after_inline:split": 20, "random_histories_nontrivial": 800})
    for k in ("setitem", "setsucc", "replace_term", "drop_term", "add_term", "add_block", "erase_block", "move_block", "split",
              "inline"):
        need["history_state_after:" + k] = 150
    for k, v in need.items():
        if c.get(k, 0) < v:
            inc.append(f"{k}={c.get(k, 0)} below reach threshold {v}")
    api = sorted(agg.sets.get("public_module_level_api", ()))
    if api != KNOWN_API:
        inc.append(f"public module-level API of dominance.py/post_order.py is {api}, the check exercises {KNOWN_API}: "
                   "an entry point is not covered (or vanished)")
    if c.get("exhaustive_graphs_n_eq_4", 0) != 21 ** 4 or c.get("exhaustive_graphs_n_le_3", 0) != 2249:
        inc.append("bounded-exhaustive enumeration incomplete")
    if c.get("exhaustive_single_retargetings", 0) != 32224 or c.get("exhaustive_retargetings_of_one_parallel_edge", 0) != 6140:
        inc.append("exhaustive single-edge retargeting sweep (n<=3) incomplete")
    if tier == "thorough" and c.get("exhaustive_graphs_n_eq_5_sets", 0) != 16 ** 5:
        inc.append("n=5 enumeration incomplete")
    bounds = {"blocks_ordered_lists_len_le_2": 4}
    if tier == "thorough":
        bounds["blocks_successor_sets_size_le_2"] = 5
    return {"inconclusive": inc,
            "coverage": {"exhaustive": True, "bounds": bounds,
                         "distinct_nontrivial": c.get("exhaustive_nontrivial_graphs", 0) + len(agg.nontrivial)}}
