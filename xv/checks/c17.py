"""C17 - every registered pass that succeeds leaves valid, printable IR.

Invariant at a hook (pass boundary): the real pass is applied to a freshly parsed, verified corpus module;
when `apply` returns normally four monitors look at the module: (a) xv.irsan whole-tree walk over the raw
links and use lists, (b) dangling references (ErasedSSAValue operands, operands defined outside the module,
successors outside the op's parent region), (c) `module.verify()`, (d) generic print -> parse in a fresh
context -> independent canonical form equal. Any exception from `apply` (or our per-case time limit) is a
reported failure, which the property allows."""
from __future__ import annotations

import collections
import contextlib
import io
import os
import random
import re
import shlex
import signal

from xv.harness import shash

ID = "C17"
LEVEL = "exploration"
RULE = ("(pass configuration x verified corpus module) pairs: every registered pass with default options, with the "
        "option strings found in the corpus RUN lines, and each member of an overridden schedule_space; quick = "
        "stratified sample (all passes whose name shares a dialect token with the module's ops + a random share), "
        "thorough = full product under two PYTHONHASHSEED values. A pair is non-trivial when the pass returned "
        "normally AND changed the module's canonical form; distinct by (pass spec, module chunk)")
LEVEL_TEXT = ("After every successful pass application on every explored (pass, module) pair, an IR sanitizer, a "
              "dangling-reference scan, the verifier and a print/parse/canonical-form comparison are evaluated on "
              "the real module object; held = none of them fired on the pairs explored.")
LEVEL_NOTE = ("trusts xv.irsan, xv.canon, and xDSL's own verifier/parser as the judges of 'valid, printable'; only "
              "modules of the repository corpus that parse and verify are used as inputs")
TECHNIQUE = "invariant at a hook: IR sanitizer + verifier + print/parse canonical-form monitor at every pass boundary of a pass x corpus product"
ENGINES = ["harness", "irsan", "canon", "corpus"]
ASSUMPTIONS = ["corpus chunks that parse and verify are valid inputs for every pass",
               "xDSL verifier and parser decide validity/printability; canon decides equality of reparsed IR"]
JOB_TIMEOUT = {"quick": 1500, "thorough": 14400}
CASE_CPU_SECONDS = {"quick": 15, "thorough": 40}   # CPU time (ITIMER_PROF), not wall: robust under load
NSHARDS = {"quick": 16, "thorough": 64}
QUICK_AFFINE_CAP = 10      # quick: at most this many name-affine passes per module ...
QUICK_RANDOM = 3           # ... plus this many random other passes


def canon_diff(a, b, path="module"):
    """First differing position of two canonical forms, as a short mechanism string (no payload values)."""
    if type(a) is not type(b):
        return f"{path}:type"
    if isinstance(a, tuple):
        if a and b and isinstance(a[0], str) and isinstance(b[0], str) and a[0] == "op" == b[0]:
            if a[1] != b[1]:
                return f"{path}:op-name"
            names = ["", "", "operands", "results", "properties", "attributes", "successors", "regions", "loc"]
            for i in range(2, min(len(a), len(b))):
                if a[i] != b[i]:
                    sub = f"{a[1]}.{names[i] if i < len(names) else i}"
                    if i in (4, 5):
                        ka, kb = dict(a[i]), dict(b[i])
                        for k in sorted(set(ka) | set(kb)):
                            if ka.get(k) != kb.get(k):
                                va, vb = ka.get(k), kb.get(k)
                                cls = (va or vb)[1].rsplit(".", 1)[-1] if isinstance(va or vb, tuple) and len(va or vb) > 1 else "?"
                                how = "missing" if va is None or vb is None else "value"
                                return f"{sub}.{k}:{how}:{cls}"
                    if i == 7:
                        return canon_diff(a[i], b[i], a[1])
                    return sub
            return f"{path}:op-arity"
        if len(a) != len(b):
            return f"{path}:len"
        for x, y in zip(a, b):
            if x != y:
                return canon_diff(x, y, path)
        return f"{path}:?"
    return f"{path}:leaf"


class CaseTimeout(BaseException):
    pass


def _alarm(*_a):
    raise CaseTimeout()


def _arm(seconds):
    signal.setitimer(signal.ITIMER_PROF, seconds)


def norm_msg(e: BaseException) -> str:
    s = str(e).strip().splitlines()
    s = s[-1] if s else ""
    s = re.sub(r"%[\w.$-]+", "%V", s)
    s = re.sub(r"\^[\w.$-]+", "^B", s)
    s = re.sub(r"@[\w.$-]+", "@S", s)
    s = re.sub(r"\d+", "N", s)
    s = re.sub(r"\s+", " ", s)
    return f"{type(e).__name__}:{s[:70]}"


def pipeline_specs(runline: str):
    if "xdsl-opt" not in runline:
        return None
    first = runline.split("|")[0]
    try:
        toks = shlex.split(first)
    except ValueError:
        return None
    for i, t in enumerate(toks):
        if t in ("-p", "--passes") and i + 1 < len(toks):
            return toks[i + 1]
        if t.startswith("-p=") or t.startswith("--passes="):
            return t.split("=", 1)[1]
    return None


def load_passes():
    from xdsl.transforms import get_all_passes
    classes = {}
    for n, f in sorted(get_all_passes().items()):
        try:
            classes[n] = f()
        except BaseException:  # noqa: BLE001 - optional dependency missing: pass not loadable here
            continue
    return classes


def variants_from_corpus(classes):
    """{file: [(pass name, spec str)]} for pass specs WITH options found in RUN lines."""
    from xdsl.utils.arg_spec import parse_pipeline
    from xv import corpus
    out = collections.OrderedDict()
    for f in corpus.files():
        try:
            text = open(f, encoding="utf-8").read()
        except Exception:  # noqa: BLE001
            continue
        rel = os.path.relpath(f, corpus.REPO)
        for rl in corpus.run_lines(text):
            p = pipeline_specs(rl)
            if not p:
                continue
            try:
                specs = list(parse_pipeline(p))
            except BaseException:  # noqa: BLE001
                continue
            for sp in specs:
                if sp.name in classes and sp.parameters:
                    s = str(sp)
                    lst = out.setdefault(rel, [])
                    if (sp.name, s) not in lst:
                        lst.append((sp.name, s))
    return out


def plan(tier, seed):
    n = NSHARDS[tier]
    jobs = [{"shard": i, "nshards": n, "tier": tier, "seed": seed} for i in range(n)]
    if tier == "thorough":
        jobs += [{"shard": i, "nshards": n, "tier": tier, "seed": seed, "env": {"PYTHONHASHSEED": "1"}}
                 for i in range(n)]
    # generated modules (xv.gencfg CFG programs, xv.c14_gen arith/scf/memref programs): shapes the corpus lacks
    ngen, per = (256, 16) if tier == "quick" else (4096, 128)
    base = seed * 1_000_003
    jobs += [{"kind": "gen", "seeds": list(range(base + k, base + k + per)), "shard": 10_000 + k, "nshards": 1,
              "tier": tier, "seed": seed} for k in range(0, ngen, per)]
    if os.environ.get("XV_C17_GEN_ONLY"):  # maintainer knob: only the generated-module jobs (reach thresholds then
        jobs = [j for j in jobs if j.get("kind") == "gen"]  # make the run inconclusive by design)
    return jobs


# passes that are meant to accept ANY func/arith/scf/cf/memref program; only these are applied to generated
# modules (other passes have narrow input domains and are exercised on the corpus, where the known-finding keys are
# file-granular and closed under sampling)
GEN_PASSES = ["canonicalize", "cse", "dce", "constant-fold-interp", "licm", "control-flow-hoist", "convert-scf-to-cf",
              "scf-for-loop-flatten", "scf-for-loop-range-folding", "scf-for-loop-unroll", "lower-affine",
              "reconcile-unrealized-casts", "arith-add-fastmath", "convert-arith-to-varith", "convert-varith-to-arith",
              "apply-individual-rewrite", "shape-inference", "eqsat-create-eclasses"]


def generated_modules(seeds):
    """[(index, (pseudo file, seed, text))] - two thirds CFG programs, one third C14-style programs."""
    from xv import gencfg
    from xv.c14_gen import Gen14
    out = []
    for sd in seeds:
        r = random.Random(sd)
        if sd % 3 != 2:
            text, _, _ = gencfg.gen_cfg_func(r)
            if sd % 3 == 1:
                # variant with UNREGISTERED terminators: every argument-less `cf.br ^bbN` becomes an op of an
                # unknown dialect with the same successor (passes must treat it as a terminator with that edge)
                import re as _re
                text = _re.sub(r"^(\s*)cf\.br (\^bb\d+)$", r'\1"xvunreg.br"() [\2] : () -> ()', text, flags=_re.M)
                out.append((sd, ("gen:gencfg-unreg", sd, text)))
            else:
                out.append((sd, ("gen:gencfg", sd, text)))
        else:
            g = Gen14(r)
            out.append((sd, ("gen:c14gen", sd, g.module_text()[0])))
    return out


def module_tokens(m):
    toks = set()
    for o in m.walk():
        nm = o.name
        if nm == "builtin.unregistered":
            nm = o.op_name.data
        toks.add(nm.split(".")[0])
        toks.update(nm.replace(".", "_").split("_"))
    toks.discard("builtin")
    return toks


def dangling(m):
    """(b): ErasedSSAValue operands, operands whose owner is not inside the module, foreign successors."""
    from xdsl.ir import ErasedSSAValue, Block, Operation
    inside_ops = set()
    inside_blocks = set()
    for o in m.walk():
        inside_ops.add(id(o))
        for r in o.regions:
            for b in r.blocks:
                inside_blocks.add(id(b))
    for o in m.walk():
        for i, v in enumerate(o.operands):
            if isinstance(v, ErasedSSAValue):
                return f"operand {i} of {o.name} is an ErasedSSAValue"
            owner = v.owner
            if isinstance(owner, Operation):
                if id(owner) not in inside_ops:
                    return f"operand {i} of {o.name} is defined by an op ({owner.name}) that is not in the module"
            elif isinstance(owner, Block):
                if id(owner) not in inside_blocks:
                    return f"operand {i} of {o.name} is an argument of a block that is not in the module"
        if o.successors:
            pb = o.parent
            reg = pb.parent if pb is not None else None
            for i, s in enumerate(o.successors):
                if reg is None or s.parent is not reg:
                    return f"successor {i} of {o.name} is not a block of the op's parent region"
    return None


def work(job):  # noqa: C901
    from xdsl.parser import Parser
    from xdsl.printer import Printer
    from xdsl.utils.arg_spec import parse_pipeline
    from xv import corpus
    from xv.canon import canon_ir
    from xv.irsan import Broken, check_tree

    tier = job["tier"]
    rng = random.Random(job["seed"] * 7919 + job["shard"])
    res = {"evaluations": 0, "nontrivial": [], "samples": [], "counters": collections.Counter(), "sets": {},
           "violations": []}
    C = res["counters"]
    classes = load_passes()
    defaults = {}
    for n, cls in classes.items():
        try:
            defaults[n] = cls()
        except BaseException:  # noqa: BLE001
            pass
    C["passes_loadable"] = len(classes) if job["shard"] == 0 else 0
    C["passes_default_constructible"] = len(defaults) if job["shard"] == 0 else 0
    variants = variants_from_corpus(classes)
    all_variants = sorted({v for vs in variants.values() for v in vs})
    overriders = [n for n, cls in classes.items() if "schedule_space" in cls.__dict__]

    signal.signal(signal.SIGPROF, _alarm)
    if job.get("kind") == "gen":
        mine = generated_modules(job["seeds"])
    else:
        chunks = corpus.chunks()
        mine = corpus.shard(list(enumerate(chunks)), job["shard"], job["nshards"])
    triggered = set()
    succeeded = set()
    seen_keys = set()

    def run_case(pname, spec, inst, rel, idx, text, base_canon, ctx0, m0):
        # a fresh copy per pair: Operation.clone of the parsed module (C02 checks clone fidelity separately;
        # the copy's canonical form is asserted equal to the original's once per module below)
        ctx = ctx0.clone()
        m = m0.clone()
        res["evaluations"] += 1
        C["pairs"] += 1
        sink = io.StringIO()
        _arm(CASE_CPU_SECONDS[tier])
        try:
            try:
                with contextlib.redirect_stdout(sink), contextlib.redirect_stderr(sink):
                    inst.apply(ctx, m)
            finally:
                _arm(0)
        except CaseTimeout:
            C["reported_failure_timeout"] += 1
            res["sets"].setdefault("timeouts", set()).add(spec)
            return
        except (KeyboardInterrupt, SystemExit, MemoryError):
            raise
        except BaseException:  # noqa: BLE001 - reported failure, allowed by the property
            C["reported_failures"] += 1
            return
        C["succeeded"] += 1
        succeeded.add(pname)
        where = {"file": rel, "chunk": idx, "pass": spec}

        def viol(stage, msg, detail):
            key = f"pass:{pname}:{stage}:{msg}@{rel}"
            if key in seen_keys:
                C["violations_same_key_again"] += 1
                return
            seen_keys.add(key)
            res["violations"].append({"key": key, "summary": f"{spec} on {rel}#{idx}: {stage}: {detail}"[:400],
                                      "witness": dict(where, input=text[:6000])})

        try:
            st = check_tree([m], closed_world=False)
            C["ops_walked"] += st["ops"]
        except (Broken, RecursionError) as b:
            viol("irsan", re.sub(r"\d+", "N", str(b))[:70], str(b))
            return
        C["monitor_irsan"] += 1
        d = dangling(m)
        C["monitor_dangling"] += 1
        if d:
            viol("dangling", re.sub(r"\d+", "N", d.split(" of ")[0] + " " + d.split(" is ", 1)[-1])[:70], d)
            return
        try:
            m.verify()
        except (KeyboardInterrupt, SystemExit, MemoryError):
            raise
        except BaseException as e:  # noqa: BLE001
            viol("verify", norm_msg(e), str(e).strip()[-300:])
            return
        C["monitor_verify"] += 1
        after = canon_ir(m)
        changed = after != base_canon
        if changed:
            C["changed"] += 1
            triggered.add(pname)
            res["nontrivial"].append(shash((spec, rel, idx)))
            if len(res["samples"]) < 2:
                res["samples"].append({"pass": spec, "file": rel, "chunk": idx, "ops_after": st["ops"]})
        if not changed:
            return  # the unmodified module is known to round-trip (checked once per module below)
        # (d) print / reparse / canon
        try:
            s = io.StringIO()
            Printer(stream=s, print_generic_format=True).print_op(m)
            txt = s.getvalue()
        except (KeyboardInterrupt, SystemExit, MemoryError):
            raise
        except BaseException as e:  # noqa: BLE001
            viol("print", norm_msg(e), str(e)[-300:])
            return
        try:
            m2 = Parser(corpus.new_ctx(), txt).parse_module()
        except (KeyboardInterrupt, SystemExit, MemoryError):
            raise
        except BaseException as e:  # noqa: BLE001
            viol("reparse", norm_msg(e), str(e)[-300:])
            return
        C["monitor_reparse"] += 1
        c2 = canon_ir(m2)
        if c2 != after:
            viol("reparse", "canon-differs:" + canon_diff(after, c2),
                 "generic print re-parses to a different canonical form: " + canon_diff(after, c2))

    for gi, (rel, idx, text) in mine:
        pv = corpus.parse_verified(text, rel)
        if pv is None:
            if rel.startswith("gen:"):
                raise RuntimeError(f"harness: generated module {rel}#{idx} does not parse/verify")
            C["chunks_not_verified"] += 1
            continue
        ctx0, m0 = pv
        C["modules_generated" if rel.startswith("gen:") else "modules"] += 1
        base = canon_ir(m0)
        # does the unmodified module survive print/parse? (C04 territory; if not, stage (d) is skipped)
        try:
            s = io.StringIO()
            Printer(stream=s, print_generic_format=True).print_op(m0)
            ok_rt = canon_ir(Parser(corpus.new_ctx(), s.getvalue()).parse_module()) == base
        except BaseException:  # noqa: BLE001
            ok_rt = False
        if not ok_rt:
            C["modules_not_roundtripping_before_any_pass"] += 1
            continue
        if canon_ir(m0.clone()) != base:
            raise RuntimeError(f"harness: clone of {rel}#{idx} differs from the parsed module")
        toks = module_tokens(m0)
        todo = []
        if rel.startswith("gen:"):
            todo = [(n, n, defaults[n]) for n in GEN_PASSES if n in defaults]
            vs = []
        elif tier == "thorough":
            todo = [(n, n, inst) for n, inst in defaults.items()]
            vs = list(all_variants)
        else:
            aff = [n for n in defaults if set(n.replace("_", "-").split("-")) & toks]
            rest = [n for n in defaults if n not in aff]
            pick = rng.sample(aff, min(len(aff), QUICK_AFFINE_CAP)) + rng.sample(rest, min(len(rest), QUICK_RANDOM))
            todo = [(n, n, defaults[n]) for n in pick]
            vs = list(variants.get(rel, []))[:4] + rng.sample(all_variants, min(len(all_variants), 1))
        for n, spec in vs:
            try:
                inst = classes[n].from_spec(list(parse_pipeline(spec))[0])
            except BaseException:  # noqa: BLE001
                C["variant_specs_rejected"] += 1
                continue
            todo.append((n, spec, inst))
        for n in overriders:
            try:
                space = classes[n].schedule_space(corpus.new_ctx(), m0)
            except BaseException:  # noqa: BLE001
                C["schedule_space_raised"] += 1
                continue
            space = list(space)
            C["schedule_space_members"] += len(space)
            if tier == "quick" and len(space) > 2:
                space = rng.sample(space, 2)
            for inst in space:
                todo.append((n, "space:" + str(inst.spec()), inst))
        for n, spec, inst in todo:
            run_case(n, spec, inst, rel, idx, text, base, ctx0, m0)
    res["sets"]["passes_succeeded"] = sorted(succeeded)
    res["sets"]["passes_triggered"] = sorted(triggered)
    res["sets"] = {k: sorted(v) for k, v in res["sets"].items()}
    res["counters"] = dict(C)
    return res


def finish(agg, tier):
    inc = []
    c = agg.counters
    if c.get("modules", 0) < 600:
        inc.append(f"only {c.get('modules', 0)} verified corpus modules used (<600)")
    if c.get("succeeded", 0) < (5000 if tier == "quick" else 60000):
        inc.append(f"only {c.get('succeeded', 0)} successful pass applications observed")
    if c.get("changed", 0) < (600 if tier == "quick" else 5000):
        inc.append(f"only {c.get('changed', 0)} successful applications changed the module")
    if len(agg.sets.get("passes_succeeded", ())) < 90:
        inc.append(f"only {len(agg.sets.get('passes_succeeded', ()))} distinct passes ever succeeded")
    loadable = c.get("passes_loadable", 0)
    untriggered = None
    try:
        from xdsl.transforms import get_all_passes
        untriggered = sorted(set(get_all_passes()) - set(agg.sets.get("passes_triggered", ())))
    except Exception:  # noqa: BLE001
        pass
    return {"inconclusive": inc, "coverage": {"untriggered_passes": untriggered, "passes_loadable": loadable}}
