"""C27 - a PDL pattern acts the same interpreted directly and compiled to pdl_interp.

Differential monitor between two real executions of the same single-pattern module on the same payload:
  path A  ApplyPDLPass.apply            (PDLRewritePattern / PDLMatcher, xdsl/interpreters/pdl.py)
  path B  ConvertPDLToPDLInterpPass.apply + ApplyPDLInterpPass.apply
          (predicate tree -> pdl_interp matcher/rewriter, interpreted by PDLInterpFunctions)
Oracle: the independent canonical form `xv.canon.canon_ir` of the payload after each path (pattern ops removed).
Driver configuration is equalised, not PDL semantics: path A's applier is built with `dce_enabled=False` (path B's
driver has no dead-code erasure), the raw canonical forms must then be identical; the canonical forms after trivial
DCE of both outputs (the comparison of the design probe) are compared as well and reported as counters.
Both paths run under an invocation counter; > 10 000 invocations of the pattern = diverges."""
from __future__ import annotations

import random

from xv.harness import shash

ID = "C27"
LEVEL = "exploration"
RULE = ("a case is (single pdl.pattern, payload module): generated patterns (root + up to 2 levels of defining-op chains, "
        "shared operands / types / attributes, constant / typed / free attributes incl. python-falsy constants, constant and "
        "free result types, several results of one nested op; rewrite = replace by matched values, by a new op built from "
        "matched operands / attributes / types, by a chain of two new ops, or erase) and every pdl.pattern of the corpus, "
        "each with its own corpus payload and with generated payloads of 2-5 instances of the match section (exact, or one "
        "near-miss: op name, operand count +-1, attribute value / missing / extra / dict-vs-property, result type, result "
        "count +-1, shared operand or type broken, defining-op chain cut or wrong result index, typed attribute type) plus "
        "junk ops, top-level or inside a func with block arguments; non-trivial = at least one path rewrote something; "
        "cases where neither path rewrites are counted separately (matcher equivalence on near-misses); distinct = "
        "distinct (pattern text, payload text) hashes")
LEVEL_TEXT = ("For every explored (pattern, payload) pair on which both paths ran to completion, the canonical payload after "
              "direct interpretation equals the canonical payload after conversion to pdl_interp and interpretation, and "
              "neither path diverged alone; held = no comparable pair disagreed.")
LEVEL_NOTE = ("trusts xv.canon.canon_ir (independent of Attribute.__eq__ and of the printer), the xDSL parser and the "
              "PatternRewriteWalker driver common to both paths, CPython")
TECHNIQUE = "reference-free differential monitor (two real implementations on the same input, canonical-form comparison) with invocation-counter termination guard and executable models of the known wrong behaviours as classifiers"
ENGINES = ["harness", "canon", "corpus"]
ASSUMPTIONS = ["path A's GreedyRewritePatternApplier is constructed with dce_enabled=False so that both drivers have the same configuration (the shipped pass body is executed otherwise)",
               "pairs on which either path raises (pdl_interp ops without interpreter implementation: erase, get_attribute_type, get_value_type of a range; asserts in PDLMatcher for ranges / non-integer typed attributes) are not comparable and only counted",
               "more than 10000 pattern invocations on a <= 50-op payload means the path diverges",
               "one pattern per module, or two patterns with different root op names (path B applies every recorded match of a root, path A the first pattern that acts: they coincide only when an op is a root candidate of one pattern)"]
JOB_TIMEOUT = {"quick": 900, "thorough": 5400}

LIMIT = 10000
# (generated shards, cases per shard, corpus shards, generated payloads per corpus pattern)
SIZES = {"quick": (24, 55, 8, 4), "thorough": (64, 400, 16, 40)}


def plan(tier, seed):
    ng, per, nc, k = SIZES[tier]
    jobs = [{"kind": "gen", "seed": seed, "shard": i, "n": per} for i in range(ng)]
    jobs += [{"kind": "corpus", "seed": seed, "shard": i, "nshards": nc, "k": k} for i in range(nc)]
    return jobs


# ---------------------------------------------------------------------------------------------------------------
class Tally:
    def __init__(self):
        self.res = {"evaluations": 0, "nontrivial": [], "samples": [], "counters": {}, "sets": {}, "violations": [], "extra": {}}
        self.per_key: dict = {}

    def c(self, k, n=1):
        self.res["counters"][k] = self.res["counters"].get(k, 0) + n

    def s(self, k, v):
        self.res["sets"].setdefault(k, [])
        if v not in self.res["sets"][k]:
            self.res["sets"][k].append(v)

    def viol(self, key, summary, witness):
        self.c("violating_pairs:" + key)
        n = self.per_key.get(key, 0)
        self.per_key[key] = n + 1
        if n < 4:
            self.res["violations"].append({"key": key, "summary": summary, "witness": witness})


def run_pair(T: Tally, pattern_text, payload_text, plan_, origin):
    """One (pattern, payload) pair through both paths + comparison.  Harness errors propagate (shard dies)."""
    from xv import c27_lib as L
    from xv.worker import journal
    text = payload_text + "\n" + pattern_text
    journal(text)
    T.res["evaluations"] += 1
    T.c("pairs")
    T.c("pairs_" + origin)
    a = L.run_a(text, LIMIT)
    b = L.run_b(text, LIMIT)
    T.c("invocations_A", a["invocations"])
    T.c("invocations_B", b["invocations"])
    T.c("rewrites_A", a["actions"])
    T.c("rewrites_B", b["actions"])
    T.c("match_result_calls_A", a.get("match_result_calls", 0))
    T.c("wrong_result_index_accepted_by_A", a.get("result_index_mismatch", 0))
    for nm, n in (b.get("interp_ops") or {}).items():
        T.c("matcher_op:" + nm, n)
    sa, sb = a["status"], b["status"]
    if "unparsable" in (sa, sb):
        raise RuntimeError("harness generated unparsable module: " + text[:400])
    if sa == "raised" or sb == "raised":
        T.c("path_failed")
        if sa == "raised":
            T.c("path_failed_A")
            T.s("path_A_failure_mechanisms", a["exc"])
        if sb == "raised":
            T.c("path_failed_B")
            T.s("path_B_failure_mechanisms", (b.get("stage") or "?") + ":" + b["exc"])
        return
    if sa == "diverged" and sb == "diverged":
        T.c("both_diverge")
        return
    T.c("comparable")
    for m in plan_:
        T.c("instance:" + m)
    h = shash((pattern_text, payload_text))
    if L.outcome(a) == L.outcome(b):
        T.c("agree")
        if a["actions"] or b["actions"]:
            T.c("agree_rewritten")
            T.res["nontrivial"].append(h)
            if len(T.res["samples"]) < 2:
                T.res["samples"].append({"pattern": pattern_text, "payload": payload_text, "instances": plan_,
                                         "rewrites": a["actions"], "result": a["text_raw"][:1500]})
        else:
            T.c("agree_no_rewrite")
            T.c("near_miss_instances_rejected_by_both", sum(1 for m in plan_ if m != "exact"))
        if a["canon"] == b["canon"]:
            T.c("agree_after_trivial_dce")
        return
    # ---- disagreement
    if a["actions"] or b["actions"]:
        T.res["nontrivial"].append(h)
    if sa == "ok" and sb == "ok" and a["canon"] == b["canon"]:
        T.c("raw_differs_but_equal_after_trivial_dce")
    keys, det = L.classify(text, a, b, LIMIT)
    wit = {"pattern": pattern_text, "payload": payload_text, "instances": plan_, "origin": origin,
           "path_A": {"status": sa, "invocations": a["invocations"], "rewrites": a["actions"], "result": a.get("text_raw", "")[:3000]},
           "path_B": {"status": sb, "invocations": b["invocations"], "rewrites": b["actions"], "result": b.get("text_raw", "")[:3000]},
           "classifier": det,
           "replay_job": {"kind": "replay", "pattern": pattern_text, "payload": payload_text}}
    for k in keys:
        T.viol(k, f"direct path: {sa}/{a['actions']} rewrites, compiled path: {sb}/{b['actions']} rewrites; outputs differ "
                  f"(instances {plan_})", wit)


def verified(text):
    from xv.corpus import parse_verified
    return parse_verified(text) is not None


def work_gen(T: Tally, job):
    from xv import c27_gen as G
    for i in range(job["n"]):
        rng = random.Random(f"c27:{job['seed']}:{job['shard']}:{i}")
        spec = G.gen_spec(rng)
        pt = G.render(spec)
        if not verified(pt):
            T.c("generated_pattern_invalid")
            continue
        T.c("generated_patterns")
        nfalsy = sum(1 for s in spec["match"] if s["k"] == "attr" and s["value"] in ("0 : i32", "0 : i64", "0 : index", "false", "[]"))
        if nfalsy:
            T.c("patterns_with_falsy_constant")
        if sum(1 for s in spec["match"] if s["k"] == "op") > 1:
            T.c("patterns_with_defining_op_chain")
        rw = spec["rewrite"][-1]
        T.c("rewrite_kind:" + ("erase" if rw["k"] == "erase" else "replace_with_op" if rw["with_op"] else "replace_with_values"))
        if rw["op"] != spec["root"]:
            T.c("patterns_replacing_a_non_root_op")
        rname = next(s for s in spec["match"] if s["id"] == spec["root"])["name"]
        T.s("root_names", str(rname))
        if rname is None:
            T.c("patterns_with_unnamed_root")
        spec2 = None
        if rname is not None and rng.random() < 0.12:
            # second pattern with a DIFFERENT root name in the same module: one compiled matcher holds both; an op is a
            # root candidate of at most one of them, so first-match (path A) and all-matches (path B) coincide
            for _ in range(6):
                cand = G.gen_spec(rng)
                n2 = next(s for s in cand["match"] if s["id"] == cand["root"])["name"]
                if n2 is not None and n2 != rname and verified(G.render(cand)):
                    spec2 = cand
                    break
        for attempt in range(5):
            pay, plan_ = G.gen_payload(rng, spec, exact_only=attempt == 4)
            if spec2 is not None:
                pay2, plan2 = G.gen_payload(rng, spec2, exact_only=attempt == 4, in_func=False, prefix="pw")
                pay, plan_ = pay + pay2, plan_ + plan2
            if verified(pay):
                break
            T.c("payload_regenerated_unverifiable")
        else:
            T.c("payload_dropped_unverifiable")
            continue
        if spec2 is not None:
            T.c("two_pattern_modules")
            pt = pt + G.render(spec2)
        run_pair(T, pt, pay, plan_, "generated")


def work_corpus(T: Tally, job):
    from xdsl.dialects import pdl
    from xdsl.parser import Parser
    from xv import c27_gen as G
    from xv import corpus
    chunks = [c for c in corpus.chunks() if "pdl.pattern" in c[2]]
    T.c("corpus_chunks_with_patterns_total", len(chunks) if job["shard"] == 0 else 0)
    for rel, idx, ch in corpus.shard(chunks, job["shard"], job["nshards"]):
        try:
            m = Parser(corpus.new_ctx(), ch, rel).parse_module()
            m.verify()
        except Exception:  # noqa: BLE001  (corpus chunks that are negative tests)
            T.c("corpus_chunk_invalid")
            continue
        pats = [o for o in m.body.block.ops if isinstance(o, pdl.PatternOp)]
        own = [o for o in m.body.block.ops if not o.name.startswith("pdl")]
        own_text = "\n".join(str(o) for o in own)
        for pi, p in enumerate(pats):
            pt = str(p) + "\n"
            if not verified(pt):
                T.c("corpus_pattern_not_standalone")
                continue
            T.c("corpus_patterns")
            T.s("corpus_pattern_files", rel)
            if own and verified(own_text + "\n" + pt):
                run_pair(T, pt, own_text, ["corpus-payload"], "corpus_own_payload")
            spec = G.spec_from_ir(p)
            if spec is None:
                T.c("corpus_pattern_outside_generator_subset")
                continue
            T.c("corpus_patterns_with_generated_payloads")
            for j in range(job["k"]):
                rng = random.Random(f"c27c:{job['seed']}:{rel}:{idx}:{pi}:{j}")
                for attempt in range(4):
                    pay, plan_ = G.gen_payload(rng, spec, exact_only=attempt == 3)
                    if verified(pay + "\n" + pt):
                        break
                else:
                    T.c("payload_dropped_unverifiable")
                    continue
                run_pair(T, pt, pay, plan_, "corpus_generated_payload")


def work(job):
    T = Tally()
    if job["kind"] == "gen":
        work_gen(T, job)
    elif job["kind"] == "corpus":
        work_corpus(T, job)
    elif job["kind"] == "replay":
        run_pair(T, job["pattern"], job["payload"], ["replay"], "replay")
    else:
        raise ValueError(job["kind"])
    return T.res


def finish(agg, tier):
    c = agg.counters
    inc = []
    pairs = c.get("pairs", 0)
    comparable = c.get("comparable", 0)
    need = {"quick": (1000, 500, 100), "thorough": (20000, 9000, 2000)}[tier]
    if pairs < need[0]:
        inc.append(f"only {pairs} pairs explored (< {need[0]})")
    if pairs and comparable < 0.6 * pairs:
        inc.append(f"only {comparable}/{pairs} pairs comparable (< 60 %)")
    if c.get("agree_rewritten", 0) < need[1]:
        inc.append(f"only {c.get('agree_rewritten', 0)} agreeing pairs with a rewrite (< {need[1]})")
    if c.get("agree_no_rewrite", 0) < need[2]:
        inc.append(f"only {c.get('agree_no_rewrite', 0)} agreeing pairs without any rewrite (< {need[2]})")
    for k in ("corpus_patterns", "invocations_A", "invocations_B", "matcher_op:pdl_interp.check_attribute",
              "matcher_op:pdl_interp.are_equal", "matcher_op:pdl_interp.check_type", "matcher_op:pdl_interp.get_defining_op",
              "matcher_op:pdl_interp.create_operation", "match_result_calls_A"):
        if c.get(k, 0) == 0:
            inc.append(f"monitor {k} never reached")
    from xv.c27_gen import MUTATIONS
    # typed-attr-type needs pdl_interp.get_attribute_type, which the interpreter does not implement (never comparable)
    missing = [m for m in MUTATIONS if m != "typed-attr-type" and c.get("instance:" + m, 0) < (5 if tier == "quick" else 100)]
    if missing:
        inc.append("near-miss kinds never exercised on a comparable pair: " + ", ".join(missing))
    return {"inconclusive": inc,
            "coverage": {"comparable_ratio": round(comparable / pairs, 3) if pairs else 0.0}}
